package main

// Concurrency skeleton of bgzf/writer.go: for every function the ordered list
// of channel / WaitGroup / goroutine / error-latch events, plus the shape of
// the BSIZE back-patch in writeBlock. Everything is read off the AST; any
// shape outside the small subset understood here aborts (exit 2).

import (
	"bytes"
	"fmt"
	"go/ast"
	"go/constant"
	"go/token"
	"go/types"
	"path/filepath"
	"strings"
)

const wrTypes = `
Inductive wr_chan : Type := WQueue | WWaiting | WFlush.
Inductive wr_fn : Type := FWriteBlock | FWriteOK | FSetErr.
Inductive wr_ev : Type :=
| WSend (c : wr_chan)            (* ch <- x *)
| WRecv (c : wr_chan)            (* <-ch, x := <-ch, x = <-ch, also as an operand of another expression *)
| WClose (c : wr_chan)           (* close(ch) *)
| WRange (c : wr_chan) (body : list wr_ev)   (* for x := range ch { body } *)
| WQAdd | WQDone | WQWait        (* bg.qwg.Add(1) / .Done() / .Wait()  (also through c.qwg) *)
| WGAdd | WGDone | WGWait        (* bg.wg.Add(1) / .Done() / .Wait() *)
| WGo (body : list wr_ev)        (* go statement: go func(){...}() gives the literal's body; go c.writeBlock() gives [WCall FWriteBlock] *)
| WCall (f : wr_fn)              (* call of writeBlock / writeOK / setErr (method or function of this file) *)
| WDefer (body : list wr_ev)     (* defer func(){...}() gives the body's events; defer x.Done() gives [WGDone] etc. *)
| WIf (thn els : list wr_ev)     (* if statement, kept only if at least one branch contains an event *)
| WLoop (body : list wr_ev)      (* for statement other than range-over-channel, kept only if its cond/post/body contain an event *)
| WReturn | WBreak
| WUnderlying                    (* a write to the underlying io.Writer: io.Copy(bg.w, ...) or bg.w.Write(...) *)
| WReadErr                       (* a read of the error latch: call bg.Error(), or a direct read of bg.err in an expression *)
| WSetClosed.                    (* assignment bg.closed = true *)
`

var (
	wrFuncs = []string{"NewWriterLevel", "writeOK", "writeBlock", "Write", "Flush", "Wait", "Close", "Next", "Error", "setErr", "NewWriter"}
	wrChans = map[string]string{"queue": "WQueue", "waiting": "WWaiting", "flush": "WFlush"}
	wrCalls = map[string]string{"writeBlock": "FWriteBlock", "writeOK": "FWriteOK", "setErr": "FSetErr"}
	wrWGs   = map[string]string{"qwg": "WQ", "wg": "WG"}
)

func init() {
	emitters["31_bgzf_writer"] = func(w *bytes.Buffer) {
		p := load("bgzf")
		w.WriteString(wrTypes)
		seen := map[string]bool{}
		var writeBlock *ast.FuncDecl
		for _, f := range p.files {
			if filepath.Base(p.fset.Position(f.Pos()).Filename) != "writer.go" {
				continue
			}
			for _, d := range f.Decls {
				fd, ok := d.(*ast.FuncDecl)
				if !ok || fd.Body == nil {
					continue
				}
				name, listed := fd.Name.Name, false
				for _, n := range wrFuncs {
					listed = listed || n == name
				}
				x := &wrx{p: p, probe: !listed}
				evs := x.stmts(fd.Body.List)
				if !listed {
					if x.real > 0 {
						fatalf("unexpected function with channel events: %s", name)
					}
					continue
				}
				if seen[name] {
					fatalf("bgzf/writer.go: two functions named %s", name)
				}
				seen[name] = true
				if name == "writeBlock" {
					writeBlock = fd
				}
				pos := p.fset.Position(fd.Pos())
				fmt.Fprintf(w, "\n(* %s:%d: func %s *)\n", pos.Filename, pos.Line, name)
				fmt.Fprintf(w, "Definition bgzf_wr_skel_%s : list wr_ev := %s.\n", name, wrList(evs))
			}
		}
		for _, n := range wrFuncs {
			if !seen[n] {
				fatalf("bgzf/writer.go: function %s not found", n)
			}
		}
		p.wrPatch(w, writeBlock)
	}
}

// ------------------------------------------------------------- event skeleton

// wrx extracts the events of one function. Events are Coq terms (strings).
type wrx struct {
	p     *pkgInfo
	probe bool // function not in wrFuncs: only looking for events, shapes are not fatal
	real  int  // number of events other than WReturn/WBreak/WIf/WLoop
}

func wrList(evs []string) string { return "[" + strings.Join(evs, "; ") + "]" }

func (x *wrx) ev(s string) []string { x.real++; return []string{s} }

func (x *wrx) fail(n ast.Node, format string, a ...interface{}) {
	fatalf("%s: bgzf writer skeleton: %s", x.p.fset.Position(n.Pos()), fmt.Sprintf(format, a...))
}

// shape reports a control-flow shape that cannot be rendered as wr_ev.
func (x *wrx) shape(n ast.Node, what string) {
	if !x.probe {
		x.fail(n, "unsupported shape: %s", what)
	}
}

func unparen(e ast.Expr) ast.Expr {
	for {
		p, ok := e.(*ast.ParenExpr)
		if !ok {
			return e
		}
		e = p.X
	}
}

// selNamed reports whether e is a selector expression `<something>.name`.
func selNamed(e ast.Expr, name string) (*ast.SelectorExpr, bool) {
	s, ok := unparen(e).(*ast.SelectorExpr)
	return s, ok && s.Sel.Name == name
}

func isIdent(e ast.Expr, name string) bool {
	id, ok := unparen(e).(*ast.Ident)
	return ok && id.Name == name
}

// lastName is the final name of an identifier or selector chain ("" otherwise).
func lastName(e ast.Expr) string {
	switch e := unparen(e).(type) {
	case *ast.Ident:
		return e.Name
	case *ast.SelectorExpr:
		return e.Sel.Name
	}
	return ""
}

func (x *wrx) typeOf(e ast.Expr) types.Type {
	if tv, ok := x.p.info.Types[e]; ok && tv.Type != nil && tv.Type != types.Typ[types.Invalid] {
		return tv.Type
	}
	return nil
}

// isWriter: e has type Writer or *Writer (by name "bg" if the type is unknown).
func (x *wrx) isWriter(e ast.Expr) bool {
	t := x.typeOf(e)
	if t == nil {
		return isIdent(e, "bg")
	}
	if pt, ok := t.(*types.Pointer); ok {
		t = pt.Elem()
	}
	n, ok := t.(*types.Named)
	return ok && n.Obj().Name() == "Writer" && n.Obj().Pkg() == x.p.pkg
}

func (x *wrx) isWaitGroup(e ast.Expr) bool {
	t := x.typeOf(e)
	return t != nil && strings.HasSuffix(types.TypeString(t, nil), "sync.WaitGroup")
}

func (x *wrx) isChan(e ast.Expr) bool {
	if t := x.typeOf(e); t != nil {
		_, ok := t.Underlying().(*types.Chan)
		return ok
	}
	return wrChans[lastName(e)] != ""
}

func (x *wrx) chanOf(e ast.Expr) string {
	if s, ok := unparen(e).(*ast.SelectorExpr); ok && wrChans[s.Sel.Name] != "" {
		return wrChans[s.Sel.Name]
	}
	x.fail(e, "channel operation on something other than .queue/.waiting/.flush")
	return ""
}

func (x *wrx) exprs(list ...ast.Expr) []string {
	var evs []string
	for _, e := range list {
		evs = append(evs, x.expr(e)...)
	}
	return evs
}

// expr returns the events of evaluating e as an rvalue, in evaluation order.
func (x *wrx) expr(e ast.Expr) []string {
	switch e := e.(type) {
	case nil, *ast.Ident, *ast.BasicLit, *ast.ArrayType, *ast.ChanType, *ast.MapType,
		*ast.FuncType, *ast.StructType, *ast.InterfaceType, *ast.Ellipsis:
		return nil
	case *ast.ParenExpr:
		return x.expr(e.X)
	case *ast.StarExpr:
		return x.expr(e.X)
	case *ast.TypeAssertExpr:
		return x.expr(e.X)
	case *ast.IndexExpr:
		return x.exprs(e.X, e.Index)
	case *ast.SliceExpr:
		return x.exprs(e.X, e.Low, e.High, e.Max)
	case *ast.KeyValueExpr:
		return x.exprs(e.Key, e.Value)
	case *ast.CompositeLit:
		return x.exprs(e.Elts...)
	case *ast.UnaryExpr:
		evs := x.expr(e.X)
		if e.Op == token.ARROW {
			evs = append(evs, x.ev("WRecv "+x.chanOf(e.X))...)
		}
		return evs
	case *ast.BinaryExpr:
		l, r := x.expr(e.X), x.expr(e.Y)
		if (e.Op == token.LAND || e.Op == token.LOR) && len(r) > 0 {
			x.shape(e, "event on the right-hand side of a short-circuit operator")
		}
		return append(l, r...)
	case *ast.SelectorExpr:
		if x.isWriter(e.X) {
			switch e.Sel.Name {
			case "err":
				return append(x.expr(e.X), x.ev("WReadErr")...)
			case "w":
				x.fail(e, "use of the underlying writer other than io.Copy(bg.w, ...) / bg.w.Write(...)")
			}
		}
		return x.expr(e.X)
	case *ast.FuncLit:
		if len(x.stmts(e.Body.List)) > 0 {
			x.shape(e, "function literal with events outside go/defer")
		}
		return nil
	case *ast.CallExpr:
		pre, self := x.call(e)
		return append(pre, self...)
	}
	x.fail(e, "unsupported expression %T", e)
	return nil
}

// lhs returns the events of evaluating the operands of an assignment target
// (the final field / element itself is written, not read).
func (x *wrx) lhs(e ast.Expr) []string {
	switch e := unparen(e).(type) {
	case *ast.SelectorExpr:
		return x.expr(e.X)
	case *ast.IndexExpr:
		return x.exprs(e.X, e.Index)
	case *ast.StarExpr:
		return x.expr(e.X)
	default:
		return x.expr(e)
	}
}

// call splits a call into the events of its operands (receiver, arguments) and
// the event of the call itself (none for calls that are not modelled).
func (x *wrx) call(c *ast.CallExpr) (pre, self []string) {
	switch f := unparen(c.Fun).(type) {
	case *ast.Ident:
		pre = x.exprs(c.Args...)
		switch {
		case f.Name == "close" && len(c.Args) == 1:
			self = x.ev("WClose " + x.chanOf(c.Args[0]))
		case wrCalls[f.Name] != "":
			self = x.ev("WCall " + wrCalls[f.Name])
		}
		return pre, self
	case *ast.SelectorExpr:
		name := f.Sel.Name
		isWG := (name == "Add" || name == "Done" || name == "Wait") &&
			(strings.HasSuffix(lastName(f.X), "wg") || x.isWaitGroup(f.X))
		switch {
		case isWG:
			k := wrWGs[lastName(f.X)]
			if _, ok := unparen(f.X).(*ast.SelectorExpr); !ok || k == "" {
				x.fail(c, "WaitGroup operation on something other than .qwg/.wg")
			}
			return append(x.expr(f.X), x.exprs(c.Args...)...), x.ev(k + name)
		case wrCalls[name] != "":
			return append(x.expr(f.X), x.exprs(c.Args...)...), x.ev("WCall " + wrCalls[name])
		case name == "Error" && len(c.Args) == 0 && x.isWriter(f.X):
			return x.expr(f.X), x.ev("WReadErr")
		case name == "Write":
			if w, ok := selNamed(f.X, "w"); ok {
				return append(x.expr(w.X), x.exprs(c.Args...)...), x.ev("WUnderlying")
			}
		case name == "Copy" && isIdent(f.X, "io") && len(c.Args) > 0:
			if w, ok := selNamed(c.Args[0], "w"); ok {
				return append(x.expr(w.X), x.exprs(c.Args[1:]...)...), x.ev("WUnderlying")
			}
		}
		return append(x.expr(f.X), x.exprs(c.Args...)...), nil
	}
	return append(x.expr(c.Fun), x.exprs(c.Args...)...), nil
}

func (x *wrx) stmts(list []ast.Stmt) []string {
	var evs []string
	for _, s := range list {
		evs = append(evs, x.stmt(s)...)
	}
	return evs
}

// spawn handles go (ctor "WGo", always kept) and defer (ctor "WDefer", kept
// only if it has events). Operands are evaluated at the statement itself.
func (x *wrx) spawn(s ast.Stmt, ctor string, c *ast.CallExpr) []string {
	var pre, body []string
	if fl, ok := unparen(c.Fun).(*ast.FuncLit); ok {
		pre, body = x.exprs(c.Args...), x.stmts(fl.Body.List)
	} else if pre, body = x.call(c); ctor == "WGo" && len(body) == 0 {
		x.fail(s, "go statement starting an unknown function")
	}
	if ctor == "WGo" || len(body) > 0 {
		pre = append(pre, x.ev(ctor+" "+wrList(body))...)
	}
	return pre
}

func (x *wrx) stmt(s ast.Stmt) []string {
	switch s := s.(type) {
	case nil, *ast.EmptyStmt:
		return nil
	case *ast.ExprStmt:
		return x.expr(s.X)
	case *ast.IncDecStmt:
		return x.expr(s.X)
	case *ast.BlockStmt:
		return x.stmts(s.List)
	case *ast.SendStmt:
		return append(x.exprs(s.Chan, s.Value), x.ev("WSend "+x.chanOf(s.Chan))...)
	case *ast.GoStmt:
		return x.spawn(s, "WGo", s.Call)
	case *ast.DeferStmt:
		return x.spawn(s, "WDefer", s.Call)
	case *ast.ReturnStmt:
		return append(x.exprs(s.Results...), "WReturn")
	case *ast.BranchStmt:
		if s.Tok == token.BREAK && s.Label == nil {
			return []string{"WBreak"}
		}
		x.shape(s, "continue / goto / labelled break")
		return nil
	case *ast.DeclStmt:
		var evs []string
		if gd, ok := s.Decl.(*ast.GenDecl); ok {
			for _, sp := range gd.Specs {
				if vs, ok := sp.(*ast.ValueSpec); ok {
					evs = append(evs, x.exprs(vs.Values...)...)
				}
			}
		}
		return evs
	case *ast.AssignStmt:
		var evs []string
		for _, l := range s.Lhs {
			if s.Tok == token.ASSIGN || s.Tok == token.DEFINE {
				evs = append(evs, x.lhs(l)...)
			} else {
				evs = append(evs, x.expr(l)...) // op=: the target is read as well
			}
		}
		evs = append(evs, x.exprs(s.Rhs...)...)
		for i, l := range s.Lhs {
			if sel, ok := selNamed(l, "closed"); ok && x.isWriter(sel.X) {
				if s.Tok != token.ASSIGN || len(s.Lhs) != len(s.Rhs) || !isIdent(s.Rhs[i], "true") {
					x.fail(s, "assignment to the closed flag other than `= true`")
				}
				evs = append(evs, x.ev("WSetClosed")...)
			}
		}
		return evs
	case *ast.IfStmt:
		evs := append(x.stmt(s.Init), x.expr(s.Cond)...)
		thn, els := x.stmts(s.Body.List), x.stmt(s.Else)
		if len(thn)+len(els) > 0 {
			evs = append(evs, "WIf "+wrList(thn)+" "+wrList(els))
		}
		return evs
	case *ast.ForStmt:
		evs := x.stmt(s.Init)
		body := append(x.expr(s.Cond), x.stmts(s.Body.List)...)
		if body = append(body, x.stmt(s.Post)...); len(body) > 0 {
			evs = append(evs, "WLoop "+wrList(body))
		}
		return evs
	case *ast.RangeStmt:
		evs := append(x.exprs(s.X), append(x.lhs(s.Key), x.lhs(s.Value)...)...)
		body := x.stmts(s.Body.List)
		if x.isChan(s.X) {
			return append(evs, x.ev("WRange "+x.chanOf(s.X)+" "+wrList(body))...)
		}
		if len(body) > 0 {
			evs = append(evs, "WLoop "+wrList(body))
		}
		return evs
	case *ast.SwitchStmt:
		return x.noEvents(s, "switch", append(append(x.stmt(s.Init), x.expr(s.Tag)...), x.stmts(s.Body.List)...))
	case *ast.TypeSwitchStmt:
		return x.noEvents(s, "type switch", append(append(x.stmt(s.Init), x.stmt(s.Assign)...), x.stmts(s.Body.List)...))
	case *ast.CaseClause:
		return append(x.exprs(s.List...), x.stmts(s.Body)...)
	case *ast.LabeledStmt:
		x.shape(s, "label")
		return x.stmt(s.Stmt)
	case *ast.SelectStmt:
		x.fail(s, "unsupported shape: select")
	}
	x.fail(s, "unsupported statement %T", s)
	return nil
}

// noEvents accepts a statement kind that has no wr_ev rendering only if it is
// free of events (WReturn / WBreak included, they would change control flow).
func (x *wrx) noEvents(s ast.Stmt, kind string, evs []string) []string {
	if len(evs) > 0 {
		x.shape(s, kind+" containing events")
	}
	return nil
}

// ------------------------------------------------------------ BSIZE back-patch

func (p *pkgInfo) obj(id *ast.Ident) types.Object {
	if o := p.info.Uses[id]; o != nil {
		return o
	}
	return p.info.Defs[id]
}

// refers: e is an identifier denoting the (non-nil) object o.
func (p *pkgInfo) refers(e ast.Expr, o types.Object) bool {
	id, ok := unparen(e).(*ast.Ident)
	return ok && o != nil && p.obj(id) == o
}

func (p *pkgInfo) wrConstInt(e ast.Expr) (int64, bool) {
	if tv, ok := p.info.Types[e]; ok && tv.Value != nil && tv.Value.Kind() == constant.Int {
		return constant.Int64Val(tv.Value)
	}
	return 0, false
}

// localDef finds, inside fd, the unique `id := rhs` / `var id = rhs` /
// `const id = rhs` of the variable or constant id refers to. ok is false if
// there is none, or if the variable is assigned anywhere else.
func (p *pkgInfo) localDef(fd *ast.FuncDecl, id *ast.Ident) (rhs ast.Expr, at ast.Node, ok bool) {
	o := p.obj(id)
	if o == nil {
		return nil, nil, false
	}
	writes := 0
	ast.Inspect(fd.Body, func(n ast.Node) bool {
		switch n := n.(type) {
		case *ast.AssignStmt:
			for k, l := range n.Lhs {
				if lid, isId := l.(*ast.Ident); isId && p.obj(lid) == o {
					if writes++; p.info.Defs[lid] == o && len(n.Lhs) == len(n.Rhs) {
						rhs, at = n.Rhs[k], n
					}
				}
			}
		case *ast.IncDecStmt:
			if lid, isId := n.X.(*ast.Ident); isId && p.obj(lid) == o {
				writes++
			}
		case *ast.UnaryExpr:
			if lid, isId := n.X.(*ast.Ident); isId && n.Op == token.AND && p.obj(lid) == o {
				writes++ // address taken
			}
		case *ast.ValueSpec:
			for k, nm := range n.Names {
				if p.info.Defs[nm] == o {
					if writes++; len(n.Values) == len(n.Names) {
						rhs, at = n.Values[k], n
					}
				}
			}
		}
		return true
	})
	return rhs, at, rhs != nil && writes == 1
}

// splitAdd matches `X + k` with X an identifier and k an integer constant.
func (p *pkgInfo) splitAdd(e ast.Expr) (*ast.Ident, int64) {
	if b, ok := unparen(e).(*ast.BinaryExpr); ok && b.Op == token.ADD {
		if id, ok := unparen(b.X).(*ast.Ident); ok {
			if k, ok := p.wrConstInt(b.Y); ok {
				return id, k
			}
		}
	}
	return nil, 0
}

// topIndex is the index of the top-level statement of fd that contains n.
func topIndex(fd *ast.FuncDecl, n ast.Node) int {
	for i, s := range fd.Body.List {
		if s.Pos() <= n.Pos() && n.End() <= s.End() {
			return i
		}
	}
	return -1
}

// setsErrAndReturns: the block assigns <something>.err = <rhs named want, or
// anything if want is ""> and ends in a return.
func setsErrAndReturns(b *ast.BlockStmt, want string) bool {
	if len(b.List) == 0 {
		return false
	}
	if _, ok := b.List[len(b.List)-1].(*ast.ReturnStmt); !ok {
		return false
	}
	for _, s := range b.List {
		if as, ok := s.(*ast.AssignStmt); ok && as.Tok == token.ASSIGN && len(as.Lhs) == 1 && len(as.Rhs) == 1 {
			if _, isErr := selNamed(as.Lhs[0], "err"); isErr && (want == "" || lastName(as.Rhs[0]) == want) {
				return true
			}
		}
	}
	return false
}

func (p *pkgInfo) wrPatch(w *bytes.Buffer, fd *ast.FuncDecl) {
	bad := func(n ast.Node, why string) {
		fatalf("%s: writeBlock: BSIZE patch position has an unknown shape (%s)", p.fset.Position(n.Pos()), why)
	}
	// The patch: the only assignment to two slice elements, b[..], b[..] = ..
	var patch *ast.AssignStmt
	ast.Inspect(fd.Body, func(n ast.Node) bool {
		if as, ok := n.(*ast.AssignStmt); ok && len(as.Lhs) == 2 {
			_, ok0 := as.Lhs[0].(*ast.IndexExpr)
			_, ok1 := as.Lhs[1].(*ast.IndexExpr)
			if ok0 && ok1 {
				if patch != nil {
					bad(as, "more than one two-element assignment")
				}
				patch = as
			}
		}
		return true
	})
	if patch == nil {
		bad(fd, "no assignment of the form b[X+4], b[X+5] = ...")
	}
	end := topIndex(fd, patch)
	if end < 0 || fd.Body.List[end] != ast.Stmt(patch) {
		bad(patch, "patch is nested inside another statement")
	}
	i0, i1 := patch.Lhs[0].(*ast.IndexExpr), patch.Lhs[1].(*ast.IndexExpr)
	b, okb := i0.X.(*ast.Ident)
	b1, okb1 := i1.X.(*ast.Ident)
	if !okb || !okb1 || p.obj(b) == nil || p.obj(b) != p.obj(b1) {
		bad(patch, "patched slice is not a single local variable")
	}
	// b := c.buf.Bytes()
	bRhs, bAt, ok := p.localDef(fd, b)
	if !ok {
		bad(patch, "patched slice has no unique definition")
	}
	bc, _ := unparen(bRhs).(*ast.CallExpr)
	if bc == nil || len(bc.Args) != 0 {
		bad(bRhs, "patched slice is not c.buf.Bytes()")
	}
	if m, ok := selNamed(bc.Fun, "Bytes"); !ok {
		bad(bRhs, "patched slice is not c.buf.Bytes()")
	} else if _, ok := selNamed(m.X, "buf"); !ok {
		bad(bRhs, "patched slice is not c.buf.Bytes()")
	}
	start := topIndex(fd, bAt)

	// X: either both indices are constants, or X+4 / X+5 with a local X.
	x0, a0 := p.splitAdd(i0.Index)
	x1, a1 := p.splitAdd(i1.Index)
	k0, c0 := p.wrConstInt(i0.Index)
	k1, c1 := p.wrConstInt(i1.Index)
	var xObj types.Object // X, when it is a function-local name
	mode := ""
	fixed := func(k int64) {
		if k < 0 {
			bad(patch, "negative fixed offset")
		}
		mode = fmt.Sprintf("PatchFixed %d", k)
	}
	switch {
	case c0 && c1:
		if k1 != k0+1 {
			bad(patch, "constant indices are not adjacent")
		}
		fixed(k0 - 4)
		if x0 != nil {
			if _, at, ok := p.localDef(fd, x0); ok {
				xObj = p.obj(x0)
				if t := topIndex(fd, at); t > start {
					start = t
				}
			}
		}
	case x0 != nil && x1 != nil && p.obj(x0) != nil && p.obj(x0) == p.obj(x1) && a0 == 4 && a1 == 5:
		rhs, at, ok := p.localDef(fd, x0)
		if !ok {
			bad(patch, "index variable "+x0.Name+" has no unique definition")
		}
		xObj = p.obj(x0)
		if t := topIndex(fd, at); t > start {
			start = t
		}
		if k, isConst := p.wrConstInt(rhs); isConst {
			fixed(k)
			break
		}
		c, _ := unparen(rhs).(*ast.CallExpr)
		if c == nil || len(c.Args) != 2 {
			bad(rhs, "index is neither a constant nor bytes.Index(b, bgzfExtraPrefix)")
		}
		f, _ := c.Fun.(*ast.SelectorExpr)
		if f == nil || !isIdent(f.X, "bytes") || f.Sel.Name != "Index" ||
			!p.refers(c.Args[0], p.obj(b)) || !isIdent(c.Args[1], "bgzfExtraPrefix") {
			bad(rhs, "index is neither a constant nor bytes.Index(b, bgzfExtraPrefix)")
		}
		mode = "PatchFirstIndex"
	default:
		bad(patch, "indices are not X+4, X+5")
	}
	if start >= end {
		bad(patch, "patch precedes the definitions it uses")
	}

	// Guard: an `if` between the definitions and the patch that looks at X or
	// at b[...] and bails out with c.err set.
	guard := false
	for _, s := range fd.Body.List[start+1 : end] {
		ifs, ok := s.(*ast.IfStmt)
		if !ok || !setsErrAndReturns(ifs.Body, "") {
			continue
		}
		ast.Inspect(ifs.Cond, func(n ast.Node) bool {
			switch n := n.(type) {
			case *ast.Ident:
				guard = guard || p.refers(n, xObj)
			case *ast.IndexExpr:
				guard = guard || p.refers(n.X, p.obj(b))
			case *ast.SliceExpr:
				guard = guard || p.refers(n.X, p.obj(b))
			}
			return true
		})
	}

	// Overflow check: size := len(b) - 1; if size >= MaxBlockSize { c.err = ErrBlockOverflow; return }
	overflow := false
	ast.Inspect(fd.Body, func(n ast.Node) bool {
		ifs, ok := n.(*ast.IfStmt)
		if !ok {
			return true
		}
		cond, _ := unparen(ifs.Cond).(*ast.BinaryExpr)
		if cond == nil || cond.Op != token.GEQ || !isIdent(cond.X, "size") || !isIdent(cond.Y, "MaxBlockSize") {
			return true
		}
		bound, isConst := p.obj(unparen(cond.Y).(*ast.Ident)).(*types.Const)
		rhs, _, ok := p.localDef(fd, unparen(cond.X).(*ast.Ident))
		sub, _ := unparen(rhs).(*ast.BinaryExpr)
		if !isConst || bound.Parent() != p.pkg.Scope() || !ok || sub == nil || sub.Op != token.SUB {
			return true
		}
		ln, _ := unparen(sub.X).(*ast.CallExpr)
		one, isOne := p.wrConstInt(sub.Y)
		if ln != nil && isIdent(ln.Fun, "len") && len(ln.Args) == 1 && p.refers(ln.Args[0], p.obj(b)) && isOne && one == 1 &&
			setsErrAndReturns(ifs.Body, "ErrBlockOverflow") {
			overflow = true
		}
		return true
	})

	pos := p.fset.Position(patch.Pos())
	fmt.Fprintf(w, "\nInductive wr_patch : Type := PatchFirstIndex | PatchFixed (off : Z).\n")
	fmt.Fprintf(w, "\n(* %s:%d: BSIZE back-patch in writeBlock *)\n", pos.Filename, pos.Line)
	fmt.Fprintf(w, "Definition bgzf_wr_patch_mode : wr_patch := %s.\n", mode)
	fmt.Fprintf(w, "Definition bgzf_wr_patch_guard : bool := %v.\n", guard)
	fmt.Fprintf(w, "Definition bgzf_wr_overflow_check : bool := %v.\n", overflow)
}
