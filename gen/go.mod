module verifgen

go 1.19
