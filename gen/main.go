// gen reads the Go source of biogo/hts and writes coq/Generated.v:
// integer constants, tables, straight-line integer functions translated to
// Gallina over Z with explicit fixed-width wrap-around and bounds-checked
// indexing, the lock skeletons of the block caches and the channel skeleton
// of the BGZF writer.
//
// It understands a small subset of Go on purpose and aborts loudly (exit 2)
// when a function it is asked to translate leaves that subset.
package main

import (
	"bytes"
	"fmt"
	"go/ast"
	"go/constant"
	"go/importer"
	"go/parser"
	"go/token"
	"go/types"
	"math/big"
	"os"
	"path/filepath"
	"sort"
	"strings"
)

type pkgInfo struct {
	dir   string
	name  string
	fset  *token.FileSet
	files []*ast.File
	info  *types.Info
	pkg   *types.Package
}

var repo = "/repo"

func fatalf(format string, a ...interface{}) {
	fmt.Fprintf(os.Stderr, "gen: "+format+"\n", a...)
	os.Exit(2)
}

// One file set, one source importer and one result per directory for the whole
// run: the importer caches the packages it type-checks from source.
var (
	theFset     = token.NewFileSet()
	theImporter types.Importer
	loaded      = map[string]*pkgInfo{}
)

func load(dir string) *pkgInfo {
	if p, ok := loaded[dir]; ok {
		return p
	}
	if theImporter == nil {
		theImporter = softImporter{importer.ForCompiler(theFset, "source", nil)}
	}
	p := load1(dir)
	loaded[dir] = p
	return p
}

func load1(dir string) *pkgInfo {
	fset := theFset
	full := filepath.Join(repo, dir)
	pkgs, err := parser.ParseDir(fset, full, func(fi os.FileInfo) bool {
		n := fi.Name()
		return !strings.HasSuffix(n, "_test.go") && !strings.HasPrefix(n, "verif_")
	}, parser.ParseComments)
	if err != nil {
		fatalf("parse %s: %v", dir, err)
	}
	var p *ast.Package
	for name, q := range pkgs {
		if name == "main" || strings.HasSuffix(name, "_test") {
			continue
		}
		p = q
	}
	if p == nil {
		fatalf("no package in %s", dir)
	}
	var files []*ast.File
	var names []string
	for n := range p.Files {
		names = append(names, n)
	}
	sort.Strings(names)
	for _, n := range names {
		files = append(files, p.Files[n])
	}
	info := &types.Info{
		Types: map[ast.Expr]types.TypeAndValue{},
		Defs:  map[*ast.Ident]types.Object{},
		Uses:  map[*ast.Ident]types.Object{},
	}
	conf := types.Config{
		Importer: theImporter,
		Error:    func(error) {},
	}
	pkg, _ := conf.Check("github.com/biogo/hts/"+dir, fset, files, info)
	return &pkgInfo{dir: dir, name: p.Name, fset: fset, files: files, info: info, pkg: pkg}
}

// softImporter never fails: packages that cannot be loaded offline become
// empty packages (the functions we translate do not depend on them).
type softImporter struct{ imp types.Importer }

func (s softImporter) Import(path string) (p *types.Package, err error) {
	defer func() {
		if r := recover(); r != nil || err != nil || p == nil {
			p = types.NewPackage(path, filepath.Base(path))
			p.MarkComplete()
			err = nil
		}
	}()
	return s.imp.Import(path)
}

func (p *pkgInfo) funcDecl(recv, name string) *ast.FuncDecl {
	for _, f := range p.files {
		for _, d := range f.Decls {
			fd, ok := d.(*ast.FuncDecl)
			if !ok || fd.Name.Name != name {
				continue
			}
			r := ""
			if fd.Recv != nil && len(fd.Recv.List) == 1 {
				t := fd.Recv.List[0].Type
				if st, ok := t.(*ast.StarExpr); ok {
					t = st.X
				}
				if id, ok := t.(*ast.Ident); ok {
					r = id.Name
				}
			}
			if r == recv {
				return fd
			}
		}
	}
	fatalf("%s: function %s.%s not found", p.dir, recv, name)
	return nil
}

// ---------------------------------------------------------------- constants

func zlit(v *big.Int) string {
	if v.Sign() < 0 {
		return "(" + v.String() + ")"
	}
	return v.String()
}

func constZ(v constant.Value) (string, bool) {
	switch v.Kind() {
	case constant.Int:
		b, ok := new(big.Int).SetString(v.ExactString(), 10)
		if !ok {
			return "", false
		}
		return zlit(b), true
	case constant.Bool:
		if constant.BoolVal(v) {
			return "true", true
		}
		return "false", true
	}
	return "", false
}

func bytesList(s string) string {
	var parts []string
	for i := 0; i < len(s); i++ {
		parts = append(parts, fmt.Sprint(s[i]))
	}
	return "[" + strings.Join(parts, "; ") + "]"
}

func (p *pkgInfo) emitConsts(w *bytes.Buffer, prefix string) {
	scope := p.pkg.Scope()
	for _, n := range scope.Names() {
		c, ok := scope.Lookup(n).(*types.Const)
		if !ok {
			continue
		}
		v := c.Val()
		switch v.Kind() {
		case constant.Int:
			s, _ := constZ(v)
			fmt.Fprintf(w, "Definition %s_%s : Z := %s.\n", prefix, n, s)
		case constant.String:
			fmt.Fprintf(w, "Definition %s_%s : list Z := %s.\n", prefix, n, bytesList(constant.StringVal(v)))
		}
	}
}

// ------------------------------------------------- straight-line translator

type kind int

const (
	kZ kind = iota
	kBool
	kBytes
)

type tr struct {
	p       *pkgInfo
	prefix  string
	fn      *ast.FuncDecl
	results []string // named results or synthetic
	outs    []string // slice params whose final value is returned too
	calls   map[string]string
	// loops (see forStmt): variables in scope with their Coq types, the
	// continuation that replaces "fall off the end of the block" inside a loop
	// body, the auxiliary Fixpoints emitted so far and the result type.
	scope   []scopeVar
	fallOff func() string
	aux     []string
	nloops  int
	rtype   string
}

type scopeVar struct{ name, ty string }

func (t *tr) declare(name string, ty types.Type) {
	if name == "_" {
		return
	}
	ct := coqType(ty)
	if ct == "" {
		ct = "Z"
	}
	for _, v := range t.scope {
		if v.name == name {
			return
		}
	}
	t.scope = append(t.scope, scopeVar{name, ct})
}

func (t *tr) fail(n ast.Node, format string, a ...interface{}) {
	pos := t.p.fset.Position(n.Pos())
	fatalf("%s: unsupported Go in %s: %s", pos, t.fn.Name.Name, fmt.Sprintf(format, a...))
}

func wrapOf(ty types.Type) string {
	b, ok := ty.Underlying().(*types.Basic)
	if !ok {
		return ""
	}
	switch b.Kind() {
	case types.Uint8:
		return "u8"
	case types.Uint16:
		return "u16"
	case types.Uint32:
		return "u32"
	case types.Uint64, types.Uint, types.Uintptr:
		return "u64"
	case types.Int8:
		return "s8"
	case types.Int16:
		return "s16"
	case types.Int32:
		return "s32"
	case types.Int64:
		return "s64"
	}
	return "" // int, untyped: unbounded Z (see DESIGN.md: Go int is not modelled as wrapping)
}

func isUnsigned(ty types.Type) bool {
	b, ok := ty.Underlying().(*types.Basic)
	return ok && b.Info()&types.IsUnsigned != 0
}

func (t *tr) wrap(ty types.Type, s string) string {
	if w := wrapOf(ty); w != "" {
		return "(" + w + " " + s + ")"
	}
	return s
}

func (t *tr) typeOf(e ast.Expr) types.Type {
	tv, ok := t.p.info.Types[e]
	if !ok || tv.Type == nil {
		t.fail(e, "no type for expression")
	}
	return tv.Type
}

// expr translates e; idx collects bounds checks for index expressions.
func (t *tr) expr(e ast.Expr, idx *[]string) string {
	if tv, ok := t.p.info.Types[e]; ok && tv.Value != nil {
		if s, ok := constZ(tv.Value); ok {
			return s
		}
	}
	switch e := e.(type) {
	case *ast.ParenExpr:
		return t.expr(e.X, idx)
	case *ast.Ident:
		switch e.Name {
		case "true", "false":
			return e.Name
		}
		return "v_" + e.Name
	case *ast.BasicLit:
		t.fail(e, "literal without constant value")
	case *ast.UnaryExpr:
		x := t.expr(e.X, idx)
		ty := t.typeOf(e)
		switch e.Op {
		case token.SUB:
			return t.wrap(ty, "(- "+x+")")
		case token.XOR:
			if isUnsigned(ty) {
				return t.wrap(ty, "(Z.lnot "+x+")")
			}
			return "(Z.lnot " + x + ")"
		case token.NOT:
			return "(negb " + x + ")"
		case token.ADD:
			return x
		}
		t.fail(e, "unary %s", e.Op)
	case *ast.BinaryExpr:
		x := t.expr(e.X, idx)
		y := t.expr(e.Y, idx)
		ty := t.typeOf(e)
		switch e.Op {
		case token.ADD:
			return t.wrap(ty, "("+x+" + "+y+")")
		case token.SUB:
			return t.wrap(ty, "("+x+" - "+y+")")
		case token.MUL:
			return t.wrap(ty, "("+x+" * "+y+")")
		case token.QUO:
			return t.wrap(ty, "(Z.quot "+x+" "+y+")")
		case token.REM:
			return "(Z.rem " + x + " " + y + ")"
		case token.SHL:
			return t.wrap(ty, "(Z.shiftl "+x+" "+y+")")
		case token.SHR:
			return "(Z.shiftr " + x + " " + y + ")"
		case token.AND:
			return "(Z.land " + x + " " + y + ")"
		case token.OR:
			return "(Z.lor " + x + " " + y + ")"
		case token.XOR:
			return "(Z.lxor " + x + " " + y + ")"
		case token.AND_NOT:
			return "(Z.ldiff " + x + " " + y + ")"
		case token.LSS:
			return "(" + x + " <? " + y + ")"
		case token.LEQ:
			return "(" + x + " <=? " + y + ")"
		case token.GTR:
			return "(" + y + " <? " + x + ")"
		case token.GEQ:
			return "(" + y + " <=? " + x + ")"
		case token.EQL:
			if b, ok := t.typeOf(e.X).Underlying().(*types.Basic); ok && b.Info()&types.IsBoolean != 0 {
				return "(Bool.eqb " + x + " " + y + ")"
			}
			return "(" + x + " =? " + y + ")"
		case token.NEQ:
			return "(negb (" + x + " =? " + y + "))"
		case token.LAND:
			return "(" + x + " && " + y + ")"
		case token.LOR:
			return "(" + x + " || " + y + ")"
		}
		t.fail(e, "binary %s", e.Op)
	case *ast.IndexExpr:
		x := t.expr(e.X, idx)
		i := t.expr(e.Index, idx)
		*idx = append(*idx, "(inb "+x+" "+i+")")
		return "(getz " + x + " " + i + ")"
	case *ast.CallExpr:
		// conversion?
		if tv, ok := t.p.info.Types[e.Fun]; ok && tv.IsType() {
			if len(e.Args) != 1 {
				t.fail(e, "conversion arity")
			}
			return t.wrap(tv.Type, t.expr(e.Args[0], idx))
		}
		name := ""
		switch f := e.Fun.(type) {
		case *ast.Ident:
			name = f.Name
		case *ast.SelectorExpr:
			if x, ok := f.X.(*ast.Ident); ok {
				name = x.Name + "." + f.Sel.Name
			}
		}
		switch name {
		case "len":
			return "(zlen " + t.expr(e.Args[0], idx) + ")"
		case "bits.LeadingZeros8":
			return "(clz8 " + t.expr(e.Args[0], idx) + ")"
		}
		if c, ok := t.calls[name]; ok {
			var args []string
			for _, a := range e.Args {
				args = append(args, t.expr(a, idx))
			}
			return "(" + c + " " + strings.Join(args, " ") + ")"
		}
		t.fail(e, "call to %q", name)
	}
	t.fail(e, "expression %T", e)
	return ""
}

func guard(idx []string, k string) string {
	for i := len(idx) - 1; i >= 0; i-- {
		k = "chk " + idx[i] + " (\n" + k + ")"
	}
	return k
}

// stmts translates the statement list followed by the continuation rest
// (statements of enclosing blocks that run afterwards).
func (t *tr) stmts(list []ast.Stmt, rest []ast.Stmt) string {
	if len(list) == 0 {
		if len(rest) == 0 {
			if t.fallOff != nil {
				// end of a loop body: post statement and next iteration
				return t.fallOff()
			}
			// fell off the end: return named results
			return t.ret(nil, nil)
		}
		return t.stmts(rest, nil)
	}
	s, tail := list[0], list[1:]
	cont := func() string { return t.stmts(tail, rest) }
	switch s := s.(type) {
	case *ast.ReturnStmt:
		return t.ret(s.Results, s)
	case *ast.AssignStmt:
		if len(s.Lhs) != 1 || len(s.Rhs) != 1 {
			t.fail(s, "multi-assignment")
		}
		var idx []string
		rhs := t.expr(s.Rhs[0], &idx)
		switch lhs := s.Lhs[0].(type) {
		case *ast.Ident:
			if lhs.Name == "_" {
				return guard(idx, cont())
			}
			name := "v_" + lhs.Name
			val := rhs
			if s.Tok == token.DEFINE {
				t.declare(lhs.Name, t.typeOf(s.Rhs[0]))
			}
			if s.Tok != token.ASSIGN && s.Tok != token.DEFINE {
				ty := t.p.info.Types[s.Lhs[0]].Type
				if ty == nil {
					if o := t.p.info.Uses[lhs]; o != nil {
						ty = o.Type()
					}
				}
				op := map[token.Token]string{token.ADD_ASSIGN: "+", token.SUB_ASSIGN: "-", token.MUL_ASSIGN: "*"}[s.Tok]
				switch {
				case op != "":
					val = t.wrap(ty, "("+name+" "+op+" "+rhs+")")
				case s.Tok == token.OR_ASSIGN:
					val = "(Z.lor " + name + " " + rhs + ")"
				case s.Tok == token.AND_ASSIGN:
					val = "(Z.land " + name + " " + rhs + ")"
				case s.Tok == token.SHL_ASSIGN:
					val = t.wrap(ty, "(Z.shiftl "+name+" "+rhs+")")
				case s.Tok == token.SHR_ASSIGN:
					val = "(Z.shiftr " + name + " " + rhs + ")"
				default:
					t.fail(s, "assignment operator %s", s.Tok)
				}
			}
			return guard(idx, "let "+name+" := "+val+" in\n"+cont())
		case *ast.IndexExpr:
			if s.Tok != token.ASSIGN {
				t.fail(s, "op-assign to element")
			}
			x, ok := lhs.X.(*ast.Ident)
			if !ok {
				t.fail(s, "store target")
			}
			i := t.expr(lhs.Index, &idx)
			name := "v_" + x.Name
			idx = append(idx, "(inb "+name+" "+i+")")
			return guard(idx, "let "+name+" := updz "+name+" "+i+" "+rhs+" in\n"+cont())
		}
		t.fail(s, "assignment target")
	case *ast.IncDecStmt:
		id, ok := s.X.(*ast.Ident)
		if !ok {
			t.fail(s, "inc/dec target")
		}
		op := "+"
		if s.Tok == token.DEC {
			op = "-"
		}
		name := "v_" + id.Name
		return "let " + name + " := " + t.wrap(t.typeOf(s.X), "("+name+" "+op+" 1)") + " in\n" + cont()
	case *ast.DeclStmt:
		gd, ok := s.Decl.(*ast.GenDecl)
		if !ok || gd.Tok != token.VAR {
			t.fail(s, "declaration")
		}
		out := ""
		var idx []string
		for _, sp := range gd.Specs {
			vs := sp.(*ast.ValueSpec)
			for i, n := range vs.Names {
				val := "0"
				if len(vs.Values) > i {
					val = t.expr(vs.Values[i], &idx)
				} else if b, ok := t.p.info.Defs[n].Type().Underlying().(*types.Basic); ok && b.Info()&types.IsBoolean != 0 {
					val = "false"
				}
				out += "let v_" + n.Name + " := " + val + " in\n"
				t.declare(n.Name, t.p.info.Defs[n].Type())
			}
		}
		return guard(idx, out+cont())
	case *ast.IfStmt:
		if s.Init != nil {
			t.fail(s, "if with init")
		}
		var idx []string
		c := t.expr(s.Cond, &idx)
		after := append(append([]ast.Stmt{}, tail...), rest...)
		thn := t.stmts(s.Body.List, after)
		var els string
		switch e := s.Else.(type) {
		case nil:
			els = t.stmts(after, nil)
		case *ast.BlockStmt:
			els = t.stmts(e.List, after)
		case *ast.IfStmt:
			els = t.stmts([]ast.Stmt{e}, after)
		}
		return guard(idx, "if "+c+" then (\n"+thn+") else (\n"+els+")")
	case *ast.SwitchStmt:
		if s.Init != nil {
			t.fail(s, "switch with init")
		}
		after := append(append([]ast.Stmt{}, tail...), rest...)
		var idx []string
		tag := ""
		if s.Tag != nil {
			tag = t.expr(s.Tag, &idx)
		}
		var deflt *ast.CaseClause
		type arm struct{ cond, body string }
		var arms []arm
		for _, c := range s.Body.List {
			cc := c.(*ast.CaseClause)
			for _, st := range cc.Body {
				if b, ok := st.(*ast.BranchStmt); ok {
					t.fail(b, "branch statement in switch")
				}
			}
			if cc.List == nil {
				deflt = cc
				continue
			}
			var conds []string
			for _, ce := range cc.List {
				v := t.expr(ce, &idx)
				if tag != "" {
					v = "(" + tag + " =? " + v + ")"
				}
				conds = append(conds, v)
			}
			arms = append(arms, arm{strings.Join(conds, " || "), t.stmts(cc.Body, after)})
		}
		out := ""
		if deflt != nil {
			out = t.stmts(deflt.Body, after)
		} else {
			out = t.stmts(after, nil)
		}
		for i := len(arms) - 1; i >= 0; i-- {
			out = "if " + arms[i].cond + " then (\n" + arms[i].body + ") else (\n" + out + ")"
		}
		return guard(idx, out)
	case *ast.BlockStmt:
		return t.stmts(append(append([]ast.Stmt{}, s.List...), tail...), rest)
	case *ast.ForStmt:
		return t.forStmt(s, tail, rest)
	case *ast.ExprStmt:
		t.fail(s, "expression statement")
	}
	t.fail(s, "statement %T", s)
	return ""
}

// forStmt translates
//
//	for init; cond; post { body }   followed by the statements `after`
//
// into an auxiliary structurally recursive function on a fuel argument whose
// other arguments are all variables in scope at the loop (so whatever the body
// or the post statement assigns is carried to the next iteration):
//
//	Fixpoint f_loopK (fuel : nat) (vars) : outcome R :=
//	  match fuel with
//	  | O => Stuck                              (fuel exhausted: never a normal-looking value)
//	  | S fuel => if cond then body; post; f_loopK fuel vars
//	              else after
//	  end.
//
// A `return` in the body returns from the Go function, which is what it does
// here too since the loop function computes the function's result. The
// statements after the loop are part of the loop function (its else arm).
// break, continue, goto, labelled and nested loops are outside the subset.
func (t *tr) forStmt(s *ast.ForStmt, tail, rest []ast.Stmt) string {
	if t.fallOff != nil {
		t.fail(s, "nested loop")
	}
	ast.Inspect(s.Body, func(n ast.Node) bool {
		switch n.(type) {
		case *ast.BranchStmt, *ast.ForStmt, *ast.RangeStmt, *ast.LabeledStmt, *ast.FuncLit:
			t.fail(n, "statement %T in a loop body", n)
		}
		return true
	})
	t.nloops++
	fname := fmt.Sprintf("%s_%s_loop%d", t.prefix, t.fn.Name.Name, t.nloops)
	// init runs once, in the caller; it may declare the loop variable
	initStr := ""
	if s.Init != nil {
		marker := "\x00CONT\x00"
		save := t.fallOff
		t.fallOff = func() string { return marker }
		initStr = t.stmts([]ast.Stmt{s.Init}, nil)
		t.fallOff = save
		if !strings.HasSuffix(initStr, marker) {
			t.fail(s.Init, "loop init statement")
		}
		initStr = strings.TrimSuffix(initStr, marker)
	}
	vars := append([]scopeVar{}, t.scope...)
	var params, args []string
	for _, v := range vars {
		params = append(params, fmt.Sprintf("(v_%s : %s)", v.name, v.ty))
		args = append(args, "v_"+v.name)
	}
	call := fname + " fuel " + strings.Join(args, " ")
	cond := "true"
	var idx []string
	if s.Cond != nil {
		cond = t.expr(s.Cond, &idx)
	}
	// body, then post, then the next iteration
	t.fallOff = func() string {
		t.fallOff = func() string { return call }
		defer func() { t.fallOff = nil }()
		if s.Post == nil {
			return call
		}
		return t.stmts([]ast.Stmt{s.Post}, nil)
	}
	nscope := len(t.scope)
	body := t.stmts(s.Body.List, nil)
	t.scope = t.scope[:nscope]
	t.fallOff = nil
	after := t.stmts(tail, rest)
	t.aux = append(t.aux, fmt.Sprintf("Fixpoint %s (fuel : nat) %s : outcome (%s) :=\nmatch fuel with\n| O => Stuck\n| S fuel =>\n%s\nend.\n",
		fname, strings.Join(params, " "), t.rtype,
		guard(idx, "if "+cond+" then (\n"+body+") else (\n"+after+")")))
	return initStr + fname + " v_fuel " + strings.Join(args, " ")
}

func (t *tr) ret(results []ast.Expr, n ast.Node) string {
	var vals []string
	var idx []string
	if len(results) == 0 {
		for _, r := range t.results {
			vals = append(vals, "v_"+r)
		}
	} else {
		for _, r := range results {
			vals = append(vals, t.expr(r, &idx))
		}
	}
	for _, o := range t.outs {
		vals = append(vals, "v_"+o)
	}
	if len(vals) == 0 {
		vals = []string{"tt"}
	}
	return guard(idx, "Ok ("+strings.Join(vals, ", ")+")")
}

func coqType(ty types.Type) string {
	switch u := ty.Underlying().(type) {
	case *types.Basic:
		if u.Info()&types.IsBoolean != 0 {
			return "bool"
		}
		if u.Info()&types.IsInteger != 0 {
			return "Z"
		}
	case *types.Slice:
		if b, ok := u.Elem().Underlying().(*types.Basic); ok && b.Info()&types.IsInteger != 0 {
			return "list Z"
		}
	}
	return ""
}

// emitFunc translates a function made of assignments, if/switch and returns
// over integers, booleans and byte slices.
func (p *pkgInfo) emitFunc(w *bytes.Buffer, prefix, recv, name string, outs []string, calls map[string]string) {
	fd := p.funcDecl(recv, name)
	t := &tr{p: p, prefix: prefix, fn: fd, outs: outs, calls: calls}
	var params []string
	for _, f := range fd.Type.Params.List {
		ty := p.info.Types[f.Type].Type
		ct := coqType(ty)
		if ct == "" {
			t.fail(f, "parameter type %v", ty)
		}
		for _, n := range f.Names {
			params = append(params, fmt.Sprintf("(v_%s : %s)", n.Name, ct))
			t.declare(n.Name, ty)
		}
	}
	var rtypes []string
	pre := ""
	if fd.Type.Results != nil {
		for _, f := range fd.Type.Results.List {
			ty := p.info.Types[f.Type].Type
			ct := coqType(ty)
			if ct == "" {
				t.fail(f, "result type %v", ty)
			}
			if len(f.Names) == 0 {
				rtypes = append(rtypes, ct)
			}
			for _, n := range f.Names {
				rtypes = append(rtypes, ct)
				t.results = append(t.results, n.Name)
				t.declare(n.Name, ty)
				zero := "0"
				if ct == "bool" {
					zero = "false"
				} else if ct == "list Z" {
					zero = "[]"
				}
				pre += "let v_" + n.Name + " := " + zero + " in\n"
			}
		}
	}
	for range outs {
		rtypes = append(rtypes, "list Z")
	}
	if len(rtypes) == 0 {
		rtypes = []string{"unit"}
	}
	t.rtype = strings.Join(rtypes, " * ")
	body := pre + t.stmts(fd.Body.List, nil)
	fmt.Fprintf(w, "\n(* %s: func %s *)\n", p.fset.Position(fd.Pos()), name)
	for _, a := range t.aux {
		w.WriteString(a)
	}
	if t.nloops > 0 {
		// the caller supplies the fuel; theorems state which fuel suffices
		params = append([]string{"(v_fuel : nat)"}, params...)
	}
	fmt.Fprintf(w, "Definition %s_%s %s : outcome (%s) :=\n%s.\n", prefix, name, strings.Join(params, " "), t.rtype, body)
}

func main() {
	if len(os.Args) > 1 {
		repo = os.Args[1]
	}
	out := "Generated.v"
	if len(os.Args) > 2 {
		out = os.Args[2]
	}
	var w bytes.Buffer
	w.WriteString("(* GENERATED by /verif/gen from the Go source of biogo/hts. Do not edit. *)\n")
	w.WriteString("From Hts Require Import Base.Prim.\nOpen Scope Z_scope.\n\n")

	emitAll(&w)

	old, _ := os.ReadFile(out)
	if !bytes.Equal(old, w.Bytes()) {
		if err := os.WriteFile(out, w.Bytes(), 0o644); err != nil {
			fatalf("%v", err)
		}
	}
}
