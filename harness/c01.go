package main

// Shared harness for the BGZF writer properties C01 (round trip), C08
// (conformance) and C12 (whole blocks in order, durability).  One case is a
// script of Write/Flush/Wait/Close calls with a configuration; the handler
// runs it on a real bgzf.Writer whose underlying writer records a snapshot
// after every underlying Write and after every API call, parses the bytes
// with an independent RFC 1952 / BGZF framing parser (written here from the
// specifications, on top of compress/flate only), expands them with
// compress/gzip in multistream mode, reads them back with bgzf.Reader, and
// reports facts.  The verdict is taken by lib/wrlib.py.

import (
	"bytes"
	"compress/flate"
	"compress/gzip"
	"crypto/sha256"
	"encoding/hex"
	"encoding/json"
	"errors"
	"fmt"
	"hash/crc32"
	"io"
	"math/rand"
	"os"
	"runtime"
	"sync"
	"sync/atomic"
	"time"

	"github.com/biogo/hts/bam"
	"github.com/biogo/hts/bgzf"
	"github.com/biogo/hts/sam"
)

func init() {
	register("c01", c01)
	register("c08", c01)
	register("c12", c01)
}

type c01Op struct {
	Op   string `json:"op"` // w f wait close
	Kind int    `json:"kind"`
	Seed int64  `json:"seed"`
	Len  int    `json:"len"`
}

type c01Hdr struct {
	Mtime   int64 `json:"mtime"`
	Nsec    int64 `json:"nsec"`
	OS      int   `json:"os"`
	Name    []int `json:"name"`    // code points 1..255 (Latin-1)
	Comment []int `json:"comment"` // code points 1..255
	Extra   []int `json:"extra"`   // user extra bytes appended after the BC subfield
	SetOS   bool  `json:"setos"`
}

type c01Case struct {
	Mode   string  `json:"mode"` // "rt" | "bam" | "laws"
	Ops    []c01Op `json:"ops"`
	Level  int     `json:"level"`
	Wc     int     `json:"wc"`
	Rd     int     `json:"rd"`
	Hdr    *c01Hdr `json:"hdr"`
	Reads  []int   `json:"reads"`
	Delay  int64   `json:"delay"`
	AllWc  bool    `json:"allwc"`
	Refs   []int   `json:"refs"`   // bam mode: reference lengths
	Rname  int     `json:"rname"`  // bam mode: reference name length
	Hbytes bool    `json:"hbytes"` // include full header bytes of every member
	Failw  []int   `json:"failw"`  // indices (0-based) of underlying Write calls that are refused (transient faults)
	Tmpdir string  `json:"tmpdir"` // haseof mode: directory for the *os.File variant
	Levels []int   `json:"levels"` // probe mode
}

// c01Payload generates the payload content; lib/wrlib.py and Model/WrRun.v
// contain the same three generators.
func c01Payload(kind int, seed int64, n int) []byte {
	b := make([]byte, n)
	switch kind {
	case 0:
		for i := range b {
			b[i] = byte(seed)
		}
	case 1:
		// 16-bit xorshift (7,9,8): incompressible for DEFLATE, cheap to
		// recompute inside Coq.
		x := uint16(seed%65535) + 1
		for i := range b {
			x ^= x << 7
			x ^= x >> 9
			x ^= x << 8
			b[i] = byte(x)
		}
	default:
		for i := range b {
			b[i] = byte(65 + (int64(i)+seed)%4)
		}
	}
	return b
}

// c01Sink is the underlying writer double: append-only, records the length
// after every Write (a crash point), optionally delays.
type c01Sink struct {
	mu         sync.Mutex
	buf        []byte
	wlens      []int   // cumulative length after each underlying Write
	started    []int64 // bytes handed to Write calls that had started when the underlying Write returned
	wsizes     []int
	rng        *rand.Rand
	startedCtr *int64
	failAt     map[int]bool
	calls      int
	refused    int
}

var c01ErrInjected = errors.New("c01: injected write fault")

func (s *c01Sink) Write(p []byte) (int, error) {
	if s.rng != nil {
		s.mu.Lock()
		d := s.rng.Intn(4)
		us := s.rng.Intn(300)
		s.mu.Unlock()
		switch d {
		case 0:
			time.Sleep(time.Duration(us) * time.Microsecond)
		case 1:
			runtime.Gosched()
		}
	}
	s.mu.Lock()
	call := s.calls
	s.calls++
	if s.failAt[call] {
		s.refused++
		s.mu.Unlock()
		return 0, c01ErrInjected
	}
	s.buf = append(s.buf, p...)
	s.wlens = append(s.wlens, len(s.buf))
	s.wsizes = append(s.wsizes, len(p))
	if s.startedCtr != nil {
		s.started = append(s.started, atomic.LoadInt64(s.startedCtr))
	}
	s.mu.Unlock()
	return len(p), nil
}

func (s *c01Sink) snapshot() int {
	s.mu.Lock()
	defer s.mu.Unlock()
	return len(s.buf)
}

func (s *c01Sink) bytes() []byte {
	s.mu.Lock()
	defer s.mu.Unlock()
	return append([]byte(nil), s.buf...)
}

// ---- independent framing parser (RFC 1952 + SAM spec section 4.1) ----------

var c01Magic = []byte{0x1f, 0x8b, 0x08, 0x04, 0, 0, 0, 0, 0, 0xff, 0x06, 0, 0x42, 0x43, 0x02, 0, 0x1b, 0, 0x03, 0, 0, 0, 0, 0, 0, 0, 0, 0}

type c01Member struct {
	Off     int    `json:"off"`
	Len     int    `json:"len"` // by gzip structure
	HdrLen  int    `json:"hdrlen"`
	Hdr     []int  `json:"hdr,omitempty"`
	Flg     int    `json:"flg"`
	Mtime   int64  `json:"mtime"`
	Xfl     int    `json:"xfl"`
	Os      int    `json:"os"`
	Xlen    int    `json:"xlen"`
	BCOff   int    `json:"bcoff"` // offset of the BC subfield inside the extra field, -1 if absent
	NBC     int    `json:"nbc"`   // number of BC subfields
	ExtraOK bool   `json:"extraok"`
	Bsize   int    `json:"bsize"`
	Clen    int    `json:"clen"`
	Plen    int    `json:"plen"`
	Isize   int64  `json:"isize"`
	CrcOK   bool   `json:"crcok"`
	AdA     int    `json:"ada"`
	AdB     int    `json:"adb"`
	Magic   bool   `json:"magic"`
	Err     string `json:"err,omitempty"`
}

type c01ByteReader struct {
	b   []byte
	pos int
}

func (r *c01ByteReader) Read(p []byte) (int, error) {
	if r.pos >= len(r.b) {
		return 0, io.EOF
	}
	n := copy(p, r.b[r.pos:])
	r.pos += n
	return n, nil
}

func (r *c01ByteReader) ReadByte() (byte, error) {
	if r.pos >= len(r.b) {
		return 0, io.EOF
	}
	c := r.b[r.pos]
	r.pos++
	return c, nil
}

// c01Adler is a cheap payload digest (sum of bytes, sum of prefix sums); the
// Coq side computes the same to identify blocks.
func c01Adler(p []byte) (int, int) {
	a, b := 1, 0
	for _, c := range p {
		a += int(c)
		b += a
	}
	return a, b
}

// c01ParseMember parses one gzip member at b[off:]; returns the member facts,
// the payload and the offset after the member (by gzip structure).
func c01ParseMember(b []byte, off int, withHdr bool) (m c01Member, payload []byte, next int, err error) {
	m.Off = off
	m.BCOff = -1
	p := off
	need := func(n int) error {
		if p+n > len(b) {
			return fmt.Errorf("truncated member at %d (need %d bytes at %d, have %d)", off, n, p, len(b))
		}
		return nil
	}
	if err = need(10); err != nil {
		return
	}
	if b[p] != 0x1f || b[p+1] != 0x8b {
		err = fmt.Errorf("bad gzip magic at %d", off)
		return
	}
	if b[p+2] != 8 {
		err = fmt.Errorf("CM != 8 at %d", off)
		return
	}
	m.Flg = int(b[p+3])
	m.Mtime = int64(b[p+4]) | int64(b[p+5])<<8 | int64(b[p+6])<<16 | int64(b[p+7])<<24
	m.Xfl = int(b[p+8])
	m.Os = int(b[p+9])
	p += 10
	if m.Flg&0xe0 != 0 {
		err = fmt.Errorf("reserved FLG bits set at %d", off)
		return
	}
	if m.Flg&4 != 0 {
		if err = need(2); err != nil {
			return
		}
		m.Xlen = int(b[p]) | int(b[p+1])<<8
		p += 2
		if err = need(m.Xlen); err != nil {
			return
		}
		ex := b[p : p+m.Xlen]
		m.ExtraOK = true
		q := 0
		for q < len(ex) {
			if q+4 > len(ex) {
				m.ExtraOK = false
				break
			}
			sl := int(ex[q+2]) | int(ex[q+3])<<8
			if q+4+sl > len(ex) {
				m.ExtraOK = false
				break
			}
			if ex[q] == 'B' && ex[q+1] == 'C' && sl == 2 {
				if m.NBC == 0 {
					m.BCOff = q
					m.Bsize = int(ex[q+4]) | int(ex[q+5])<<8
				}
				m.NBC++
			}
			q += 4 + sl
		}
		p += m.Xlen
	}
	if m.Flg&8 != 0 {
		for {
			if err = need(1); err != nil {
				return
			}
			p++
			if b[p-1] == 0 {
				break
			}
		}
	}
	if m.Flg&16 != 0 {
		for {
			if err = need(1); err != nil {
				return
			}
			p++
			if b[p-1] == 0 {
				break
			}
		}
	}
	if m.Flg&2 != 0 {
		if err = need(2); err != nil {
			return
		}
		p += 2
	}
	m.HdrLen = p - off
	if withHdr {
		m.Hdr = ints(b[off:p])
	}
	br := &c01ByteReader{b: b, pos: p}
	fr := flate.NewReader(br)
	payload, err = io.ReadAll(fr)
	if err != nil {
		err = fmt.Errorf("deflate stream of member at %d: %v", off, err)
		return
	}
	m.Clen = br.pos - p
	p = br.pos
	if err = need(8); err != nil {
		return
	}
	crc := uint32(b[p]) | uint32(b[p+1])<<8 | uint32(b[p+2])<<16 | uint32(b[p+3])<<24
	m.Isize = int64(b[p+4]) | int64(b[p+5])<<8 | int64(b[p+6])<<16 | int64(b[p+7])<<24
	m.CrcOK = crc == crc32.ChecksumIEEE(payload)
	p += 8
	m.Len = p - off
	m.Plen = len(payload)
	m.AdA, m.AdB = c01Adler(payload)
	m.Magic = bytes.Equal(b[off:p], c01Magic)
	next = p
	return
}

type c01Parsed struct {
	Members  []c01Member `json:"members"`
	Err      string      `json:"err,omitempty"`
	Trailing int         `json:"trailing"`
	data     []byte
	bounds   []int // offsets after each member
}

func c01ParseAll(b []byte, withHdr bool) c01Parsed {
	var r c01Parsed
	off := 0
	for off < len(b) {
		m, pl, next, err := c01ParseMember(b, off, withHdr)
		if err != nil {
			r.Err = err.Error()
			r.Trailing = len(b) - off
			return r
		}
		r.Members = append(r.Members, m)
		r.data = append(r.data, pl...)
		r.bounds = append(r.bounds, next)
		off = next
	}
	return r
}

func c01Gunzip(b []byte) ([]byte, error) {
	if len(b) == 0 {
		return nil, nil
	}
	zr, err := gzip.NewReader(bytes.NewReader(b))
	if err != nil {
		return nil, err
	}
	zr.Multistream(true)
	return io.ReadAll(zr)
}

func c01ErrClass(err error) int {
	switch {
	case err == nil:
		return 0
	case errors.Is(err, bgzf.ErrClosed):
		return 1
	case errors.Is(err, bgzf.ErrBlockOverflow):
		return 5
	case errors.Is(err, c01ErrInjected):
		return 9
	}
	return 2
}

func c01FirstDiff(a, b []byte) int {
	n := len(a)
	if len(b) < n {
		n = len(b)
	}
	for i := 0; i < n; i++ {
		if a[i] != b[i] {
			return i
		}
	}
	if len(a) != len(b) {
		return n
	}
	return -1
}

func c01Latin(cp []int) string {
	r := make([]rune, len(cp))
	for i, c := range cp {
		r[i] = rune(c)
	}
	return string(r)
}

func c01SetHeader(w *bgzf.Writer, h *c01Hdr) {
	if h == nil {
		return
	}
	if h.Mtime != 0 || h.Nsec != 0 {
		w.ModTime = time.Unix(h.Mtime, h.Nsec)
	}
	if h.SetOS {
		w.OS = byte(h.OS)
	}
	w.Name = c01Latin(h.Name)
	w.Comment = c01Latin(h.Comment)
	if h.Extra != nil {
		w.Extra = bytesOf(h.Extra)
	}
}

type c01Run struct {
	refused     int
	calls       int
	out         []byte
	res         [][2]int
	apiSnap     []int
	wlens       []int
	started     []int64
	accepted    []int64 // bytes accepted by completed Write calls after each API call
	expected    []byte
	closedOK    bool
	closeCalled bool
}

// c01Exec runs the script on a fresh writer.
func c01Exec(c *c01Case, wc int, delay int64) (*c01Run, error) {
	var startedCtr int64
	sink := &c01Sink{startedCtr: &startedCtr}
	if delay != 0 {
		sink.rng = rand.New(rand.NewSource(delay))
	}
	if len(c.Failw) > 0 {
		sink.failAt = map[int]bool{}
		for _, k := range c.Failw {
			sink.failAt[k] = true
		}
	}
	w, err := bgzf.NewWriterLevel(sink, c.Level, wc)
	if err != nil {
		return nil, err
	}
	c01SetHeader(w, c.Hdr)
	r := &c01Run{}
	var acc int64
	for _, op := range c.Ops {
		switch op.Op {
		case "w":
			p := c01Payload(op.Kind, op.Seed, op.Len)
			atomic.AddInt64(&startedCtr, int64(len(p)))
			n, err := w.Write(p)
			r.res = append(r.res, [2]int{n, c01ErrClass(err)})
			if n > 0 && n <= len(p) {
				r.expected = append(r.expected, p[:n]...)
			}
			// io.Writer: "implementations must not retain p". The caller
			// recycles its buffer as soon as Write has returned (as
			// io.CopyBuffer or a pooled scratch buffer would), so a writer that
			// still reads p from a compressor goroutine emits other bytes.
			for i := range p {
				p[i] ^= 0xa5
			}
			acc += int64(n)
		case "f":
			err := w.Flush()
			r.res = append(r.res, [2]int{0, c01ErrClass(err)})
		case "wait":
			err := w.Wait()
			r.res = append(r.res, [2]int{0, c01ErrClass(err)})
		case "close":
			err := w.Close()
			r.res = append(r.res, [2]int{0, c01ErrClass(err)})
			if !r.closeCalled {
				r.closedOK = err == nil
			}
			r.closeCalled = true
		default:
			return nil, fmt.Errorf("bad op %q", op.Op)
		}
		r.apiSnap = append(r.apiSnap, sink.snapshot())
		r.accepted = append(r.accepted, acc)
	}
	// The observation of the unclosed stream is taken once the pipeline is
	// quiescent (Wait), then the writer is closed to release its goroutines;
	// bytes appended by that clean-up Close are not part of the observation.
	if !r.closeCalled {
		w.Wait()
		r.out = sink.bytes()
		sink.mu.Lock()
		r.wlens = append([]int(nil), sink.wlens...)
		r.started = append([]int64(nil), sink.started...)
		sink.mu.Unlock()
		w.Close()
	} else {
		r.out = sink.bytes()
		r.wlens = sink.wlens
		r.started = sink.started
	}
	sink.mu.Lock()
	r.refused, r.calls = sink.refused, sink.calls
	sink.mu.Unlock()
	return r, nil
}

func c01Readback(out []byte, rd int, reads []int, want []byte) (ok bool, msg string) {
	br, err := bgzf.NewReader(sourceFor(out), rd)
	if err != nil {
		if len(out) == 0 {
			return len(want) == 0, "empty stream: " + err.Error()
		}
		return false, "NewReader: " + err.Error()
	}
	defer br.Close()
	var got []byte
	i := 0
	for steps := 0; steps < 1<<22; steps++ {
		sz := 4096
		if len(reads) > 0 {
			sz = reads[i%len(reads)]
			i++
		}
		if sz == 0 {
			c, err := br.ReadByte()
			if err == io.EOF {
				break
			}
			if err != nil {
				return false, fmt.Sprintf("ReadByte at %d: %v", len(got), err)
			}
			got = append(got, c)
			continue
		}
		buf := make([]byte, sz)
		n, err := br.Read(buf)
		got = append(got, buf[:n]...)
		if err == io.EOF {
			break
		}
		if err != nil {
			return false, fmt.Sprintf("Read at %d: %v", len(got), err)
		}
		if len(got) > len(want)+1<<16 {
			return false, "reader returns more data than was written"
		}
	}
	if d := c01FirstDiff(got, want); d >= 0 {
		return false, fmt.Sprintf("data read back differs at offset %d (got %d bytes, wrote %d)", d, len(got), len(want))
	}
	// after EOF, further reads keep reporting EOF without data
	n, err := br.Read(make([]byte, 16))
	if n != 0 || err != io.EOF {
		return false, fmt.Sprintf("Read after EOF returned (%d, %v)", n, err)
	}
	return true, ""
}

func c01(raw json.RawMessage) interface{} {
	var c c01Case
	if err := json.Unmarshal(raw, &c); err != nil {
		return map[string]interface{}{"bad_case": err.Error()}
	}
	switch c.Mode {
	case "laws":
		return c01Laws(&c)
	case "probe":
		return c01Probe(&c)
	case "haseof":
		return c01HasEOF(&c)
	case "bam":
		return c01Bam(&c)
	}
	r, err := c01Exec(&c, c.Wc, c.Delay)
	if err != nil {
		return map[string]interface{}{"newerr": err.Error()}
	}
	o := map[string]interface{}{}
	o["res"] = r.res
	o["refused"] = r.refused
	o["wcalls"] = r.calls
	o["closed_ok"] = r.closedOK
	o["close_called"] = r.closeCalled
	o["out_len"] = len(r.out)
	o["exp_len"] = len(r.expected)
	ps := c01ParseAll(r.out, c.Hbytes)
	o["members"] = ps.Members
	o["parse_err"] = ps.Err
	o["trailing"] = ps.Trailing
	dd := c01FirstDiff(ps.data, r.expected)
	o["data_ok"] = ps.Err == "" && dd < 0
	o["data_prefix"] = ps.Err == "" && (dd < 0 || (dd == len(ps.data) && len(ps.data) <= len(r.expected)))
	o["data_len"] = len(ps.data)
	o["data_diff"] = dd
	// walking by BSIZE must land on the same boundaries
	bw := true
	off := 0
	for _, m := range ps.Members {
		if m.BCOff < 0 || off+m.Bsize+1 != off+m.Len {
			bw = false
			break
		}
		off += m.Len
	}
	o["bsize_walk_ok"] = bw
	gz, gerr := c01Gunzip(r.out)
	o["gunzip_ok"] = gerr == nil && bytes.Equal(gz, r.expected)
	o["gunzip_same"] = gerr == nil && ps.Err == "" && bytes.Equal(gz, ps.data)
	if gerr != nil {
		o["gunzip_err"] = gerr.Error()
	}
	want := r.expected
	if !r.closeCalled && ps.Err == "" && len(ps.data) <= len(want) {
		want = want[:len(ps.data)] // an unclosed writer keeps its active block
	}
	rbok, rbmsg := c01Readback(r.out, c.Rd, c.Reads, want)
	o["rb_ok"] = rbok
	o["rb_msg"] = rbmsg
	he, herr := bgzf.HasEOF(bytes.NewReader(r.out))
	o["has_eof_lib"] = he
	if herr != nil {
		o["has_eof_err"] = herr.Error()
	}
	o["has_eof_own"] = len(r.out) >= len(c01Magic) && bytes.Equal(r.out[len(r.out)-len(c01Magic):], c01Magic)
	// snapshots: every crash point must be a member boundary; report the member count
	bidx := map[int]int{0: 0}
	for i, b := range ps.bounds {
		bidx[b] = i + 1
	}
	cum := make([]int, len(ps.Members)+1) // payload bytes in the first k members
	for i, m := range ps.Members {
		cum[i+1] = cum[i] + m.Plen
	}
	conv := func(ls []int) []int {
		ks := make([]int, len(ls))
		for i, l := range ls {
			if k, ok := bidx[l]; ok {
				ks[i] = k
			} else {
				ks[i] = -1
			}
		}
		return ks
	}
	o["api_k"] = conv(r.apiSnap)
	o["w_k"] = conv(r.wlens)
	o["w_started"] = r.started
	o["accepted"] = r.accepted
	o["cum"] = cum
	h := sha256.Sum256(r.out)
	o["sha"] = hex.EncodeToString(h[:8])
	if c.AllWc {
		same := true
		diff := map[string]interface{}{}
		for wc := 0; wc <= 4; wc++ {
			for _, d := range []int64{0, c.Delay + int64(wc) + 1} {
				r2, err := c01Exec(&c, wc, d)
				if err != nil {
					same = false
					diff["err"] = err.Error()
					continue
				}
				if !bytes.Equal(r2.out, r.out) {
					same = false
					diff["wc"] = wc
					diff["delay"] = d
					diff["at"] = c01FirstDiff(r2.out, r.out)
					diff["len"] = len(r2.out)
				}
			}
		}
		o["wc_same"] = same
		o["wc_diff"] = diff
	}
	return o
}

// c01Laws validates the Section hypotheses about DEFLATE and CRC-32 that the
// Coq theorems assume, on the real compress/flate (through compress/gzip).
func c01Laws(c *c01Case) interface{} {
	o := map[string]interface{}{}
	var bad []string
	for _, op := range c.Ops {
		p := c01Payload(op.Kind, op.Seed, op.Len)
		for lvl := -1; lvl <= 9; lvl++ {
			var buf bytes.Buffer
			fw, _ := flate.NewWriter(&buf, lvl)
			fw.Write(p)
			fw.Close()
			cl := buf.Len()
			n := len(p)
			bound := n + n>>12 + n>>14 + n>>25 + 13
			if cl > bound {
				bad = append(bad, fmt.Sprintf("size law: level %d len %d compressed %d > %d", lvl, n, cl, bound))
			}
			if cl < 2 {
				bad = append(bad, fmt.Sprintf("min law: level %d len %d compressed %d", lvl, n, cl))
			}
			// inverse law with trailing garbage
			rest := []byte{1, 2, 3, 4, 5, 6, 7, 8, 9}
			all := append(append([]byte(nil), buf.Bytes()...), rest...)
			br := &c01ByteReader{b: all}
			got, err := io.ReadAll(flate.NewReader(br))
			if err != nil || !bytes.Equal(got, p) || br.pos != cl {
				bad = append(bad, fmt.Sprintf("inverse law: level %d len %d err %v consumed %d of %d", lvl, n, err, br.pos, cl))
			}
			if n == 0 {
				b := buf.Bytes()
				if cl >= 2 && b[cl-2] == 3 && b[cl-1] == 0 {
					bad = append(bad, fmt.Sprintf("empty-tail law: level %d deflate of empty ends in 03 00", lvl))
				}
			}
		}
	}
	// the EOF marker's stream is the empty stream, crc32(empty)=0
	br := &c01ByteReader{b: []byte{3, 0, 9, 9}}
	got, err := io.ReadAll(flate.NewReader(br))
	if err != nil || len(got) != 0 || br.pos != 2 {
		bad = append(bad, "inflate [3,0] is not the empty stream")
	}
	if crc32.ChecksumIEEE(nil) != 0 {
		bad = append(bad, "crc32(empty) != 0")
	}
	o["bad"] = bad
	o["laws"] = true
	return o
}

// c01Bam: bam.NewWriter must return only after the header is durable.
func c01Bam(c *c01Case) interface{} {
	var startedCtr int64
	sink := &c01Sink{startedCtr: &startedCtr}
	if c.Delay != 0 {
		sink.rng = rand.New(rand.NewSource(c.Delay))
	}
	var refs []*sam.Reference
	for i, l := range c.Refs {
		name := fmt.Sprintf("r%d_", i)
		for len(name) < c.Rname {
			name += "x"
		}
		ref, err := sam.NewReference(name, "", "", l, nil, nil)
		if err != nil {
			return map[string]interface{}{"bad_case": err.Error()}
		}
		refs = append(refs, ref)
	}
	h, err := sam.NewHeader(nil, refs)
	if err != nil {
		return map[string]interface{}{"bad_case": err.Error()}
	}
	bw, err := bam.NewWriterLevel(sink, h, c.Level, c.Wc)
	if err != nil {
		return map[string]interface{}{"newerr": err.Error()}
	}
	snap := sink.bytes() // what a crash right after NewWriter leaves on disk
	o := map[string]interface{}{"bam": true}
	ps := c01ParseAll(snap, true)
	if len(ps.data) <= 6000 && ps.Err == "" {
		// small headers: the members and the bytes, for the correspondence run of
		// the model on the script Write(header); Flush; Wait
		o["members"] = ps.Members
		o["data"] = ints(ps.data)
	}
	o["parse_err"] = ps.Err
	o["nmembers"] = len(ps.Members)
	o["snap_len"] = len(snap)
	// decode the BAM header from the snapshot by the SAM specification (section 4.2)
	d := ps.data
	hdrOK, why := func() (bool, string) {
		if len(d) < 12 || string(d[:4]) != "BAM\x01" {
			return false, "magic missing"
		}
		lt := int(int32(uint32(d[4]) | uint32(d[5])<<8 | uint32(d[6])<<16 | uint32(d[7])<<24))
		p := 8 + lt
		if lt < 0 || p+4 > len(d) {
			return false, "text truncated"
		}
		nref := int(int32(uint32(d[p]) | uint32(d[p+1])<<8 | uint32(d[p+2])<<16 | uint32(d[p+3])<<24))
		p += 4
		if nref != len(c.Refs) {
			return false, fmt.Sprintf("n_ref %d, want %d", nref, len(c.Refs))
		}
		for i := 0; i < nref; i++ {
			if p+4 > len(d) {
				return false, "reference truncated"
			}
			ln := int(uint32(d[p]) | uint32(d[p+1])<<8 | uint32(d[p+2])<<16 | uint32(d[p+3])<<24)
			p += 4
			if p+ln+4 > len(d) {
				return false, "reference truncated"
			}
			if string(d[p:p+ln-1]) != refs[i].Name() || d[p+ln-1] != 0 {
				return false, "reference name"
			}
			p += ln
			rl := int(uint32(d[p]) | uint32(d[p+1])<<8 | uint32(d[p+2])<<16 | uint32(d[p+3])<<24)
			p += 4
			if rl != c.Refs[i] {
				return false, "reference length"
			}
		}
		if p != len(d) {
			return false, fmt.Sprintf("%d extra bytes after the header", len(d)-p)
		}
		return true, ""
	}()
	o["hdr_ok"] = hdrOK
	o["why"] = why
	o["hdr_len"] = len(d)
	bw.Close()
	fin := sink.bytes()
	o["prefix_ok"] = bytes.HasPrefix(fin, snap)
	return o
}

// c01Probe reports, for every payload of the case and every requested level,
// the length of the DEFLATE stream compress/flate produces, so that the
// generator can aim member lengths at the 64 KiB boundary.
func c01Probe(c *c01Case) interface{} {
	var out []map[string]interface{}
	for _, op := range c.Ops {
		p := c01Payload(op.Kind, op.Seed, op.Len)
		a, b := c01Adler(p)
		for _, lvl := range c.Levels {
			var buf bytes.Buffer
			fw, err := flate.NewWriter(&buf, lvl)
			if err != nil {
				return map[string]interface{}{"bad_case": err.Error()}
			}
			fw.Write(p)
			fw.Close()
			out = append(out, map[string]interface{}{"kind": op.Kind, "seed": op.Seed, "len": op.Len, "level": lvl, "clen": buf.Len(), "ada": a, "adb": b})
		}
	}
	return map[string]interface{}{"probe": out}
}

// ReaderAt doubles for HasEOF, one per kind the function distinguishes.

// c01LenSeeker exposes its extent only through Seek and Len (Len = unread bytes).
type c01LenSeeker struct {
	b   []byte
	pos int64
}

func (r *c01LenSeeker) ReadAt(p []byte, off int64) (int, error) {
	if off < 0 {
		return 0, errors.New("c01LenSeeker.ReadAt: negative offset")
	}
	if off >= int64(len(r.b)) {
		return 0, io.EOF
	}
	n := copy(p, r.b[off:])
	if n < len(p) {
		return n, io.EOF
	}
	return n, nil
}

func (r *c01LenSeeker) Seek(off int64, whence int) (int64, error) {
	var abs int64
	switch whence {
	case io.SeekStart:
		abs = off
	case io.SeekCurrent:
		abs = r.pos + off
	case io.SeekEnd:
		abs = int64(len(r.b)) + off
	default:
		return 0, errors.New("c01LenSeeker.Seek: invalid whence")
	}
	if abs < 0 {
		return 0, errors.New("c01LenSeeker.Seek: negative position")
	}
	r.pos = abs
	return abs, nil
}

func (r *c01LenSeeker) Len() int {
	if r.pos >= int64(len(r.b)) {
		return 0
	}
	return int(int64(len(r.b)) - r.pos)
}

// c01BareReaderAt has neither Size, Stat nor Seek+Len.
type c01BareReaderAt struct{ b []byte }

func (r c01BareReaderAt) ReadAt(p []byte, off int64) (int, error) {
	return bytes.NewReader(r.b).ReadAt(p, off)
}

func c01HasEOFObs(kind string, pos int64, has bool, err error) map[string]interface{} {
	ec := 0
	if err != nil {
		ec = 2
		if errors.Is(err, bgzf.ErrNoEnd) {
			ec = 3
		}
	}
	o := map[string]interface{}{"kind": kind, "pos": pos, "has": has, "err": ec}
	if err != nil {
		o["msg"] = err.Error()
	}
	return o
}

// c01HasEOF runs the script, then asks bgzf.HasEOF about the produced bytes
// through every kind of io.ReaderAt it distinguishes, with the cursor of the
// Seek+Len reader at several positions.
func c01HasEOF(c *c01Case) interface{} {
	r, err := c01Exec(c, c.Wc, c.Delay)
	if err != nil {
		return map[string]interface{}{"newerr": err.Error()}
	}
	out := r.out
	n := int64(len(out))
	o := map[string]interface{}{"haseof": true, "out_len": n, "closed_ok": r.closedOK, "out": ints(out)}
	o["own"] = len(out) >= len(c01Magic) && bytes.Equal(out[len(out)-len(c01Magic):], c01Magic)
	var obs []map[string]interface{}
	// Size()
	br := bytes.NewReader(out)
	br.Seek(n/2, io.SeekStart) // a moved cursor must not matter
	h, e := bgzf.HasEOF(br)
	obs = append(obs, c01HasEOFObs("sizer", n/2, h, e))
	// Stat()
	f, ferr := os.CreateTemp(c.Tmpdir, "c08-haseof-*")
	if ferr != nil {
		return map[string]interface{}{"bad_case": ferr.Error()}
	}
	f.Write(out)
	f.Seek(n/3, io.SeekStart)
	h, e = bgzf.HasEOF(f)
	obs = append(obs, c01HasEOFObs("stater", n/3, h, e))
	f.Close()
	os.Remove(f.Name())
	// Seek + Len, cursor anywhere
	seen := map[int64]bool{}
	for _, pos := range []int64{0, 1, n / 2, n - 29, n - 28, n - 27, n - 1, n} {
		if pos < 0 || pos > n || seen[pos] {
			continue
		}
		seen[pos] = true
		ls := &c01LenSeeker{b: out, pos: pos}
		h, e = bgzf.HasEOF(ls)
		ob := c01HasEOFObs("lenseeker", pos, h, e)
		ob["pos_after"] = ls.pos
		obs = append(obs, ob)
	}
	h, e = bgzf.HasEOF(c01BareReaderAt{out})
	obs = append(obs, c01HasEOFObs("none", 0, h, e))
	o["obs"] = obs
	return o
}
