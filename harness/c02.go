package main

// C02 / C03: the BGZF reader against histories of Seek/Read/ReadByte/Blocked
// (and SetCache for C03).  Files are assembled by an independent member
// builder (RFC 1952 framing + "BC" extra field written by hand, DEFLATE from
// compress/flate, CRC from hash/crc32); the library's writer is not used.

import (
	"bytes"
	"compress/flate"
	"encoding/binary"
	"encoding/hex"
	"encoding/json"
	"errors"
	"hash/adler32"
	"hash/crc32"
	"fmt"
	"io"
	"regexp"
	"runtime"
	"sync"
	"time"

	"github.com/biogo/hts/bgzf"
	"github.com/biogo/hts/bgzf/cache"
)

func init() { register("c02", c02) }

const c02Magic = "\x1f\x8b\x08\x04\x00\x00\x00\x00\x00\xff\x06\x00\x42\x43\x02\x00\x1b\x00\x03\x00\x00\x00\x00\x00\x00\x00\x00\x00"

// c02Data is the payload of a member: byte j of the member with seed s.
// The same formula is written in Python (oracle) and Coq (model input).
func c02Data(n, seed int) []byte {
	b := make([]byte, n)
	for j := range b {
		b[j] = byte((seed*131 + j*7 + (j>>8)*13) % 251)
	}
	return b
}

// c02Member frames data as one BGZF member. level -1: stored blocks.
func c02Member(data []byte, level int) ([]byte, error) {
	var cd bytes.Buffer
	fw, err := flate.NewWriter(&cd, level)
	if err != nil {
		return nil, err
	}
	fw.Write(data)
	fw.Close()
	total := 18 + cd.Len() + 8
	if total > 65536 {
		return nil, errors.New("member too large")
	}
	var m bytes.Buffer
	m.Write([]byte{0x1f, 0x8b, 8, 4, 0, 0, 0, 0, 0, 0xff, 6, 0, 'B', 'C', 2, 0})
	binary.Write(&m, binary.LittleEndian, uint16(total-1))
	m.Write(cd.Bytes())
	binary.Write(&m, binary.LittleEndian, crc32.ChecksumIEEE(data))
	binary.Write(&m, binary.LittleEndian, uint32(len(data)))
	return m.Bytes(), nil
}

type c02File struct {
	raw   []byte
	bases []int64
	sizes []int64
	lens  []int
}

// c02Build assembles the file. members: [len, seed] generated payload, or
// explicit payloads in datas (hex) when given.
func c02Build(members [][]int, datas []string, eof bool) (*c02File, error) {
	f := &c02File{}
	var payloads [][]byte
	if datas != nil {
		for _, h := range datas {
			b, err := hex.DecodeString(h)
			if err != nil {
				return nil, err
			}
			payloads = append(payloads, b)
		}
	} else {
		for _, m := range members {
			payloads = append(payloads, c02Data(m[0], m[1]))
		}
	}
	for i, p := range payloads {
		level := 1 + (i+len(p))%9
		if len(p) < 60000 && (i+len(p))%5 == 0 {
			level = 0
		}
		mb, err := c02Member(p, level)
		if err != nil {
			mb, err = c02Member(p, 9)
			if err != nil {
				return nil, err
			}
		}
		f.bases = append(f.bases, int64(len(f.raw)))
		f.sizes = append(f.sizes, int64(len(mb)))
		f.lens = append(f.lens, len(p))
		f.raw = append(f.raw, mb...)
	}
	if eof {
		f.bases = append(f.bases, int64(len(f.raw)))
		f.sizes = append(f.sizes, int64(len(c02Magic)))
		f.lens = append(f.lens, 0)
		f.raw = append(f.raw, c02Magic...)
	}
	return f, nil
}

func c02Err(err error) int {
	switch err {
	case nil:
		return 0
	case io.EOF:
		return 1
	}
	return 2
}

func c02Cache(kind string, n int) bgzf.Cache {
	var c cache.Cache
	switch kind {
	case "lru", "slru":
		c = cache.NewLRU(n)
	case "fifo", "sfifo":
		c = cache.NewFIFO(n)
	case "random", "srandom":
		c = cache.NewRandom(n)
	default:
		return nil
	}
	if c == nil {
		return nil
	}
	if kind == "slru" || kind == "sfifo" || kind == "srandom" {
		return &cache.StatsRecorder{Cache: c}
	}
	return c
}

// c02Gate is the underlying reader of a gated run.  Reads by the consumer
// goroutine pass; a read by any other goroutine (the read-ahead) that starts a
// member is allowed only while the budget lasts and waits otherwise.  The
// budget is raised by the history (before a call) and by the deadlock detector:
// when every goroutine is blocked and the read-ahead is held here, it is
// granted one member.  So the read-ahead runs exactly when the schedule or the
// consumer's need lets it, never by the clock.  It implements ReadByte so that
// bgzf uses it directly (no bufio in between) and reads stay inside members.
type c02Gate struct {
	mu       sync.Mutex
	cond     *sync.Cond
	r        *bytes.Reader
	bases    map[int64]bool
	consumer int64
	budget   int
	held     int
	pos      int64
}

func c02NewGate(b []byte, bases []int64) *c02Gate {
	g := &c02Gate{r: bytes.NewReader(b), bases: map[int64]bool{}}
	for _, x := range bases {
		g.bases[x] = true
	}
	g.cond = sync.NewCond(&g.mu)
	return g
}

func c02Goid() int64 {
	var buf [64]byte
	n := runtime.Stack(buf[:], false)
	var id int64
	for _, c := range buf[len("goroutine "):n] {
		if c < '0' || c > '9' {
			break
		}
		id = id*10 + int64(c-'0')
	}
	return id
}

func (g *c02Gate) admit() {
	if g.consumer != 0 && c02Goid() != g.consumer && g.bases[g.pos] {
		for g.budget == 0 {
			g.held++
			g.cond.Wait()
			g.held--
		}
		g.budget--
	}
}

func (g *c02Gate) Read(p []byte) (int, error) {
	g.mu.Lock()
	defer g.mu.Unlock()
	g.admit()
	n, err := g.r.Read(p)
	g.pos += int64(n)
	return n, err
}

func (g *c02Gate) ReadByte() (byte, error) {
	g.mu.Lock()
	defer g.mu.Unlock()
	g.admit()
	b, err := g.r.ReadByte()
	if err == nil {
		g.pos++
	}
	return b, err
}

func (g *c02Gate) Seek(off int64, whence int) (int64, error) {
	g.mu.Lock()
	defer g.mu.Unlock()
	n, err := g.r.Seek(off, whence)
	if err == nil {
		g.pos = n
	}
	return n, err
}

// grant adds k members to the budget.
func (g *c02Gate) grant(k int) {
	g.mu.Lock()
	g.budget += k
	g.cond.Broadcast()
	g.mu.Unlock()
}

// cancel withdraws what is left of the budget.
func (g *c02Gate) cancel() {
	g.mu.Lock()
	g.budget = 0
	g.mu.Unlock()
}

// unblock is called by the deadlock detector: one member for a held read-ahead.
func (g *c02Gate) unblock() bool {
	g.mu.Lock()
	defer g.mu.Unlock()
	if g.held > 0 && g.budget == 0 {
		g.budget = 1
		g.cond.Broadcast()
		return true
	}
	return false
}

// c02Quiesce waits until every goroutine but the caller is blocked.
func c02Quiesce() {
	for i := 0; i < 200000; i++ {
		if ok, _ := c02AllBlocked(); ok {
			return
		}
		runtime.Gosched()
	}
}

var c02OnBlocked func() bool

type c02Case struct {
	Members [][]int         `json:"members"`
	Datas   []string        `json:"datas"`
	EOF     bool            `json:"eof"`
	Rd      int             `json:"rd"`
	Ops     [][]interface{} `json:"ops"`
	Full    bool            `json:"full"` // report every byte read (hex), not only short reads
	Gate    bool            `json:"gate"`   // gated underlying reader (rd > 1)
	Budget  []int           `json:"budget"` // members granted to the read-ahead before each call
}

type c02Obs struct {
	N    int    `json:"n"`
	Ad   uint32 `json:"ad"`
	Hex  string `json:"hex,omitempty"`
	Err  int    `json:"err"`
	Msg  string `json:"msg,omitempty"`
	LC   [4]int `json:"lc"`
	BLen int    `json:"blen"`
}

func c02Int(v interface{}) int {
	if f, ok := v.(float64); ok {
		return int(f)
	}
	return 0
}

func c02LC(bg *bgzf.Reader) [4]int {
	c := bg.LastChunk()
	return [4]int{int(c.Begin.File), int(c.Begin.Block), int(c.End.File), int(c.End.Block)}
}

// c02RunOps applies the history to the reader.
func c02RunOps(bg *bgzf.Reader, f *c02File, ops [][]interface{}, full bool) []c02Obs {
	return c02RunOpsGated(bg, f, ops, full, nil, nil)
}

func c02RunOpsGated(bg *bgzf.Reader, f *c02File, ops [][]interface{}, full bool, g *c02Gate, budget []int) []c02Obs {
	var out []c02Obs
	c02Partial.Lock()
	c02Partial.obs = nil
	c02Partial.Unlock()
	for k, op := range ops {
		if g != nil {
			if k < len(budget) && budget[k] > 0 {
				g.grant(budget[k])
			}
			c02Quiesce()
			g.cancel()
		}
		var o c02Obs
		o.Ad = 1 // Adler-32 of no bytes
		name, _ := op[0].(string)
		switch name {
		case "seek":
			i, off := c02Int(op[1]), c02Int(op[2])
			var base int64
			if i >= 0 && i < len(f.bases) {
				base = f.bases[i]
			} else {
				base = int64(len(f.raw))
			}
			err := bg.Seek(bgzf.Offset{File: base, Block: uint16(off)})
			o.Err = c02Err(err)
			if o.Err == 2 {
				o.Msg = err.Error()
			}
		case "reseek":
			err := bg.Seek(bg.LastChunk().Begin)
			o.Err = c02Err(err)
			if o.Err == 2 {
				o.Msg = err.Error()
			}
		case "read":
			p := make([]byte, c02Int(op[1]))
			n, err := bg.Read(p)
			o.N, o.Err = n, c02Err(err)
			if o.Err == 2 {
				o.Msg = err.Error()
			}
			o.Ad = adler32.Checksum(p[:n])
			if n <= 48 || full {
				o.Hex = hex.EncodeToString(p[:n])
			}
		case "byte":
			b, err := bg.ReadByte()
			o.Err = c02Err(err)
			if o.Err == 2 {
				o.Msg = err.Error()
			}
			if err == nil {
				o.N = 1
				o.Ad = adler32.Checksum([]byte{b})
				o.Hex = hex.EncodeToString([]byte{b})
			}
		case "blocked":
			bg.Blocked = c02Int(op[1]) != 0
		case "setcache":
			kind, _ := op[1].(string)
			bg.SetCache(c02Cache(kind, c02Int(op[2])))
		default:
			o.Err = 2
			o.Msg = "bad op"
		}
		o.LC = c02LC(bg)
		o.BLen = bg.BlockLen()
		out = append(out, o)
		c02Partial.Lock()
		c02Partial.obs = append(c02Partial.obs, o)
		c02Partial.Unlock()
	}
	return out
}

// c02Partial holds the observations made so far by the running history, so
// that a panic or deadlock can be reported together with what preceded it.
var c02Partial struct {
	sync.Mutex
	obs  []c02Obs
	info map[string]interface{}
}

func c02TakePartial() ([]c02Obs, map[string]interface{}) {
	c02Partial.Lock()
	defer c02Partial.Unlock()
	o, i := c02Partial.obs, c02Partial.info
	c02Partial.obs, c02Partial.info = nil, nil
	return o, i
}

var c02GoRe = regexp.MustCompile(`^goroutine (\d+) \[([^\],]*)`)

// c02AllBlocked reports whether every goroutine other than the caller and
// the main goroutine is parked on a channel / lock / condition, i.e. nobody is
// left who could wake anybody: a deadlock.  runtime.Stack(all) stops the
// world, so the snapshot is consistent; nothing here depends on timing.
func c02AllBlocked() (bool, string) {
	buf := make([]byte, 1<<18)
	buf = buf[:runtime.Stack(buf, true)]
	for i, g := range bytes.Split(buf, []byte("\n\n")) {
		m := c02GoRe.FindSubmatch(g)
		if m == nil || i == 0 || string(m[1]) == "1" { // the caller comes first
			continue
		}
		// a goroutine that is itself taking a stack dump (the consumer waiting
		// for quiescence) is running, whatever the runtime calls its state
		if bytes.Contains(g, []byte("main.c02AllBlocked")) || bytes.Contains(g, []byte("main.c02Quiesce")) {
			return false, ""
		}
		switch string(m[2]) {
		case "chan receive", "chan send", "select", "semacquire", "sync.Cond.Wait", "sync.WaitGroup.Wait",
			"sync.Mutex.Lock", "sync.RWMutex.RLock", "sync.RWMutex.Lock", "chan receive (nil chan)", "chan send (nil chan)", "select (no cases)":
		default:
			return false, ""
		}
	}
	return true, string(buf)
}

// c02Guard runs f; a panic becomes {"panic":...}, a deadlock {"hang":true}.
func c02Guard(f func() interface{}) interface{} {
	done := make(chan interface{}, 1)
	go func() {
		defer func() {
			if r := recover(); r != nil {
				buf := make([]byte, 2048)
				buf = buf[:runtime.Stack(buf, false)]
				po, pi := c02TakePartial()
				done <- map[string]interface{}{"panic": fmt.Sprint(r), "stack": string(buf), "partial": po, "info": pi}
			}
		}()
		done <- f()
	}()
	wait := 200 * time.Microsecond
	seen := 0
	for {
		select {
		case v := <-done:
			return v
		case <-time.After(wait):
		}
		if wait < 20*time.Millisecond {
			wait *= 2
		}
		if ok, st := c02AllBlocked(); ok {
			if h := c02OnBlocked; h != nil && h() {
				seen = 0
				continue
			}
			seen++
			if seen >= 3 {
				select {
				case v := <-done:
					return v
				default:
				}
				if len(st) > 6000 {
					st = st[:6000]
				}
				po, pi := c02TakePartial()
				return map[string]interface{}{"hang": true, "stack": st, "partial": po, "info": pi}
			}
		} else {
			seen = 0
		}
	}
}

func c02(raw json.RawMessage) interface{} {
	return c02Guard(func() interface{} { return c02Run(raw) })
}

func c02Run(raw json.RawMessage) interface{} {
	c02OnBlocked = nil
	var c c02Case
	if err := json.Unmarshal(raw, &c); err != nil {
		return map[string]interface{}{"bad_case": err.Error()}
	}
	f, err := c02Build(c.Members, c.Datas, c.EOF)
	if err != nil {
		return map[string]interface{}{"bad_case": err.Error()}
	}
	res := map[string]interface{}{"bases": f.bases, "sizes": f.sizes, "fsize": len(f.raw)}
	var under io.Reader = sourceFor(f.raw)
	var gate *c02Gate
	if c.Gate && c.Rd > 1 {
		gate = c02NewGate(f.raw, f.bases)
		gate.consumer = c02Goid()
		under = gate
		c02OnBlocked = gate.unblock
		defer func() { c02OnBlocked = nil; gate.grant(1 << 30) }()
	}
	bg, err := bgzf.NewReader(under, c.Rd)
	if err != nil {
		res["new_err"] = c02Err(err)
		res["new_msg"] = err.Error()
		return res
	}
	res["new_err"] = 0
	c02Partial.Lock()
	c02Partial.info = map[string]interface{}{"bases": f.bases, "sizes": f.sizes, "fsize": len(f.raw)}
	c02Partial.Unlock()
	res["lc0"] = c02LC(bg)
	res["blen0"] = bg.BlockLen()
	res["ops"] = c02RunOpsGated(bg, f, c.Ops, c.Full, gate, c.Budget)
	if gate != nil {
		gate.grant(1 << 30)
	}
	cerr := bg.Close()
	res["close_err"] = c02Err(cerr)
	return res
}
