package main

// C04 / C15: coordinate indexes (BAI, CSI, tabix): Add, Chunks, MergeChunks,
// write/read round trip, statistics.  One case builds one index from a record
// list (or reads a foreign byte string), and reports every observable the two
// properties talk about.

import (
	"bytes"
	"encoding/json"
	"fmt"
	"io"
	"strings"

	"github.com/biogo/hts/bam"
	"github.com/biogo/hts/bgzf"
	"github.com/biogo/hts/bgzf/index"
	"github.com/biogo/hts/csi"
	"github.com/biogo/hts/sam"
	"github.com/biogo/hts/tabix"
)

func init() {
	register("c04", c04)
	register("c15", c04)
}

type c04rec struct {
	Rid    int      `json:"rid"`
	Pos    int      `json:"pos"`
	End    int      `json:"end"`
	Cig    [][2]int `json:"cig"`
	Flags  int      `json:"flags"`
	Placed bool     `json:"placed"`
	Mapped bool     `json:"mapped"`
	Cb     int64    `json:"cb"`
	Ce     int64    `json:"ce"`
	Flush  bool     `json:"fl"`
}

type c04case struct {
	Kind    string   `json:"kind"`
	Nref    int      `json:"nref"`
	Names   []string `json:"names"`
	Ms      int      `json:"ms"`
	Dp      int      `json:"dp"`
	Ver     int      `json:"ver"`
	Aux     []int    `json:"aux"`
	Tbx     []int    `json:"tbx"`
	Real    bool     `json:"real"`
	Recs    []c04rec `json:"recs"`
	Queries [][3]int `json:"queries"`
	Strat   string   `json:"strat"`
	Qstrat  string   `json:"qstrat"`
	Hist    [][2]int `json:"hist"` // interleaved history: [number of records, action after them]; action bit 1 = run the queries, bit 2 = write the index
	Foreign []int    `json:"foreign"`
	HasFor  bool     `json:"hasforeign"`
}

func c04off(v int64) bgzf.Offset  { return bgzf.Offset{File: v >> 16, Block: uint16(v)} }
func c04v(o bgzf.Offset) int64    { return o.File<<16 | int64(o.Block) }
func c04chunk(b, e int64) bgzf.Chunk {
	return bgzf.Chunk{Begin: c04off(b), End: c04off(e)}
}
func c04chunks(cs []bgzf.Chunk) [][2]int64 {
	r := make([][2]int64, 0, len(cs))
	for _, c := range cs {
		r = append(r, [2]int64{c04v(c.Begin), c04v(c.End)})
	}
	return r
}

func c04adderr(err error) int {
	if err == nil {
		return 0
	}
	s := err.Error()
	switch {
	case strings.Contains(s, "outside indexable range"):
		return 1
	case strings.Contains(s, "reference ID sort order"):
		return 2
	case strings.Contains(s, "position sort order"):
		return 3
	case strings.Contains(s, "without a valid reference ID"):
		return 4
	}
	return 9
}

func c04qerr(err error) int {
	switch err {
	case nil:
		return 0
	case index.ErrNoReference:
		return 1
	case index.ErrInvalid:
		return 2
	}
	return 9
}

// c04hash is an Adler-style pair of running sums without reduction (the
// Coq model computes the same number).
func c04hash(b []byte) int64 {
	var s1, s2 int64
	for _, c := range b {
		s1 += int64(c) + 1
		s2 += s1
	}
	return s2
}

func c04rle(offs []bgzf.Offset) [][2]int64 {
	var r [][2]int64
	for _, o := range offs {
		v := c04v(o)
		if n := len(r); n > 0 && r[n-1][0] == v {
			r[n-1][1]++
		} else {
			r = append(r, [2]int64{v, 1})
		}
	}
	if r == nil {
		r = [][2]int64{}
	}
	return r
}

type c04shim struct {
	id, start, end int
	name           string
}

func (r c04shim) RefID() int      { return r.id }
func (r c04shim) Start() int      { return r.start }
func (r c04shim) End() int        { return r.end }
func (r c04shim) RefName() string { return r.name }

// c04idx is the common face of the three index kinds.
type c04idx interface {
	query(rid, beg, end int) map[string]interface{}
	stats() map[string]interface{}
	dump() interface{}
	write() ([]byte, error)
	merge(s index.MergeStrategy)
}

// ---- BAI

type c04bai struct {
	idx  *bam.Index
	refs []*sam.Reference
}

func (b *c04bai) query(rid, beg, end int) map[string]interface{} {
	o := map[string]interface{}{}
	raw, err := b.idx.VerifRawChunks(rid, beg, end)
	o["e"] = c04qerr(err)
	o["raw"] = c04chunks(raw)
	if rid >= 0 && rid < len(b.refs) {
		pub, err := b.idx.Chunks(b.refs[rid], beg, end)
		o["pe"] = c04qerr(err)
		o["pub"] = c04chunks(pub)
	} else {
		o["pe"] = o["e"]
		o["pub"] = [][2]int64{}
	}
	return o
}

func c04statrow(ok bool, c bgzf.Chunk, m, u uint64) []interface{} {
	return []interface{}{ok, c04v(c.Begin), c04v(c.End), m, u}
}

func (b *c04bai) stats() map[string]interface{} {
	n := b.idx.NumRefs()
	rows := make([]interface{}, 0, n)
	for i := 0; i < n; i++ {
		s, ok := b.idx.ReferenceStats(i)
		rows = append(rows, c04statrow(ok, s.Chunk, s.Mapped, s.Unmapped))
	}
	un, ok := b.idx.Unmapped()
	return map[string]interface{}{"nrefs": n, "stats": rows, "unm": []interface{}{ok, un}}
}

func c04dumpInternal(refs []bam.VerifRef, sorted bool, last int) interface{} {
	rs := make([]interface{}, 0, len(refs))
	for _, r := range refs {
		bins := make([]interface{}, 0, len(r.Bins))
		for _, b := range r.Bins {
			bins = append(bins, []interface{}{b.Bin, c04chunks(b.Chunks)})
		}
		rs = append(rs, map[string]interface{}{
			"bins": bins,
			"st":   c04statrow(r.HasStats, r.Stats.Chunk, r.Stats.Mapped, r.Stats.Unmapped),
			"intv": c04rle(r.Intervals),
		})
	}
	if last > 1<<40 {
		last = -2 // max int marker
	}
	return map[string]interface{}{"refs": rs, "sorted": sorted, "last": last}
}

func (b *c04bai) dump() interface{} { return c04dumpInternal(b.idx.VerifDump()) }
func (b *c04bai) write() ([]byte, error) {
	var buf bytes.Buffer
	err := bam.WriteIndex(&buf, b.idx)
	return buf.Bytes(), err
}
func (b *c04bai) merge(s index.MergeStrategy) { b.idx.MergeChunks(s) }

// ---- tabix

type c04tbx struct {
	idx   *tabix.Index
	names []string
}

func (t *c04tbx) name(rid int) string {
	if rid >= 0 && rid < len(t.names) {
		return t.names[rid]
	}
	return fmt.Sprintf("\x01none%d", rid)
}

func (t *c04tbx) query(rid, beg, end int) map[string]interface{} {
	o := map[string]interface{}{}
	raw, err := t.idx.VerifRawChunks(t.name(rid), beg, end)
	o["e"] = c04qerr(err)
	o["raw"] = c04chunks(raw)
	pub, err := t.idx.Chunks(t.name(rid), beg, end)
	o["pe"] = c04qerr(err)
	o["pub"] = c04chunks(pub)
	return o
}

func (t *c04tbx) stats() map[string]interface{} {
	n := t.idx.NumRefs()
	rows := make([]interface{}, 0, n)
	for i := 0; i < n; i++ {
		s, ok := t.idx.ReferenceStats(i)
		rows = append(rows, c04statrow(ok, s.Chunk, s.Mapped, s.Unmapped))
	}
	un, ok := t.idx.Unmapped()
	ids := t.idx.IDs()
	idl := make([]interface{}, 0, len(ids))
	for _, nm := range t.idx.Names() {
		id, ok := ids[nm]
		if !ok {
			id = -1
		}
		idl = append(idl, id)
	}
	return map[string]interface{}{"nrefs": n, "stats": rows, "unm": []interface{}{ok, un},
		"names": t.idx.Names(), "ids": idl, "nids": len(ids),
		"hdr": []interface{}{int(t.idx.Format), t.idx.ZeroBased, t.idx.NameColumn, t.idx.BeginColumn, t.idx.EndColumn, int32(t.idx.MetaChar), t.idx.Skip}}
}

func (t *c04tbx) dump() interface{} {
	return c04dumpInternal(bam.VerifDumpInternal(t.idx.VerifInternal()))
}
func (t *c04tbx) write() ([]byte, error) {
	var buf bytes.Buffer
	err := tabix.WriteTo(&buf, t.idx)
	return buf.Bytes(), err
}
func (t *c04tbx) merge(s index.MergeStrategy) { t.idx.MergeChunks(s) }

// ---- CSI

type c04csi struct{ idx *csi.Index }

func (c *c04csi) query(rid, beg, end int) map[string]interface{} {
	o := map[string]interface{}{"e": 0, "pe": 0}
	o["raw"] = c04chunks(c.idx.VerifRawChunks(rid, beg, end))
	o["pub"] = c04chunks(c.idx.Chunks(rid, beg, end))
	return o
}

func (c *c04csi) stats() map[string]interface{} {
	n := c.idx.NumRefs()
	rows := make([]interface{}, 0, n)
	for i := 0; i < n; i++ {
		s, ok := c.idx.ReferenceStats(i)
		rows = append(rows, c04statrow(ok, s.Chunk, s.Mapped, s.Unmapped))
	}
	un, ok := c.idx.Unmapped()
	return map[string]interface{}{"nrefs": n, "stats": rows, "unm": []interface{}{ok, un},
		"ver": int(c.idx.Version), "aux": ints(c.idx.Auxilliary)}
}

func (c *c04csi) dump() interface{} {
	refs, sorted, last, ms, dp := c.idx.VerifDump()
	rs := make([]interface{}, 0, len(refs))
	for _, r := range refs {
		bins := make([]interface{}, 0, len(r.Bins))
		for _, b := range r.Bins {
			bins = append(bins, []interface{}{b.Bin, c04v(b.Left), b.Records, c04chunks(b.Chunks)})
		}
		rs = append(rs, map[string]interface{}{
			"bins": bins,
			"st":   c04statrow(r.HasStats, r.Stats.Chunk, r.Stats.Mapped, r.Stats.Unmapped),
		})
	}
	return map[string]interface{}{"refs": rs, "sorted": sorted, "last": last, "ms": ms, "dp": dp}
}
func (c *c04csi) write() ([]byte, error) {
	var buf bytes.Buffer
	err := csi.WriteTo(&buf, c.idx)
	return buf.Bytes(), err
}
func (c *c04csi) merge(s index.MergeStrategy) { c.idx.MergeChunks(s) }

// ---- driver

func c04strategy(s string) (index.MergeStrategy, bool) {
	switch {
	case s == "identity":
		return index.Identity, true
	case s == "adjacent":
		return index.Adjacent, true
	case s == "squash":
		return index.Squash, true
	case strings.HasPrefix(s, "comp:"):
		var n int64
		fmt.Sscanf(s[5:], "%d", &n)
		return index.CompressorStrategy(n), true
	case s == "nil":
		return nil, true
	}
	return nil, false
}

func c04bytesObs(o map[string]interface{}, key string, b []byte) {
	o[key+"len"] = len(b)
	o[key+"hash"] = c04hash(b)
	if len(b) <= 3000 {
		o[key] = ints(b)
	}
}

// c04guard runs f and reports a panic as a string.
func c04guard(f func()) (p string) {
	defer func() {
		if r := recover(); r != nil {
			p = fmt.Sprint(r)
		}
	}()
	f()
	return ""
}

// c04read reads an index twice: from a reader that fills every Read request
// (bytes.Reader) and from one that delivers the same bytes in pieces, as the
// io.Reader contract allows. Both must give the same outcome and, when they
// succeed, indexes that write to the same bytes; otherwise the result is an
// error whose text starts with "short-reads:" (which the oracle, expecting the
// read to succeed, reports).
func c04read(kind string, b []byte, qstrat string) (c04idx, bool, error) {
	ix, isnil, err := c04read1(kind, bytes.NewReader(b), qstrat)
	ix2, isnil2, err2 := c04read1(kind, newDribble(b), qstrat)
	if (err == nil) != (err2 == nil) || isnil != isnil2 {
		return nil, false, fmt.Errorf("short-reads: outcome differs: full reads: %v, short reads: %v", err, err2)
	}
	if err == nil && ix != nil && ix2 != nil {
		w1, e1 := ix.write()
		w2, e2 := ix2.write()
		if (e1 == nil) != (e2 == nil) || !bytes.Equal(w1, w2) {
			return nil, false, fmt.Errorf("short-reads: the index read through short reads differs from the one read with full reads")
		}
		// write() sorts; read again so that the returned index is in the state a single read leaves it in
		ix, isnil, err = c04read1(kind, bytes.NewReader(b), qstrat)
	}
	return ix, isnil, err
}

func c04read1(kind string, rd io.Reader, qstrat string) (c04idx, bool, error) {
	switch kind {
	case "bai":
		idx, err := bam.ReadIndex(rd)
		if err != nil || idx == nil {
			return nil, idx == nil, err
		}
		n := idx.NumRefs()
		refs := make([]*sam.Reference, n)
		var rs []*sam.Reference
		for i := 0; i < n; i++ {
			r, _ := sam.NewReference(fmt.Sprintf("ref%d", i), "", "", 1<<29-1, nil, nil)
			rs = append(rs, r)
		}
		if n > 0 {
			if _, err := sam.NewHeader(nil, rs); err != nil {
				return nil, false, err
			}
		}
		copy(refs, rs)
		if qs, ok := c04strategy(qstrat); ok {
			idx.MergeStrategy = qs
		}
		return &c04bai{idx: idx, refs: refs}, false, nil
	case "tabix":
		idx, err := tabix.ReadFrom(rd)
		if err != nil || idx == nil {
			return nil, idx == nil, err
		}
		return &c04tbx{idx: idx, names: idx.Names()}, false, nil
	case "csi":
		idx, err := csi.ReadFrom(rd)
		if err != nil || idx == nil {
			return nil, idx == nil, err
		}
		return &c04csi{idx: idx}, false, nil
	}
	return nil, false, fmt.Errorf("kind")
}

func c04queries(ix c04idx, qs [][3]int) (res []interface{}, pan string) {
	res = []interface{}{}
	for _, q := range qs {
		var o map[string]interface{}
		if p := c04guard(func() { o = ix.query(q[0], q[1], q[2]) }); p != "" {
			return res, p
		}
		res = append(res, o)
	}
	return res, ""
}

func c04(raw json.RawMessage) interface{} {
	var c c04case
	if err := json.Unmarshal(raw, &c); err != nil {
		return map[string]interface{}{"bad_case": err.Error()}
	}
	obs := map[string]interface{}{}
	var ix c04idx

	if c.HasFor {
		var nilidx bool
		var err error
		if p := c04guard(func() { ix, nilidx, err = c04read(c.Kind, bytesOf(c.Foreign), c.Qstrat) }); p != "" {
			obs["rdpanic"] = p
			return obs
		}
		obs["frderr"] = err != nil
		obs["frdnil"] = nilidx && err == nil
		if err != nil || ix == nil {
			if err != nil {
				obs["frdmsg"] = err.Error()
			}
			return obs
		}
	} else {
		// ---- build the index
		var (
			refs  []*sam.Reference
			bai   *bam.Index
			tbx   *tabix.Index
			cs    *csi.Index
			srecs []*sam.Record
		)
		switch c.Kind {
		case "bai":
			for i := 0; i < c.Nref; i++ {
				r, err := sam.NewReference(fmt.Sprintf("ref%d", i), "", "", 1<<29-1, nil, nil)
				if err != nil {
					return map[string]interface{}{"bad_case": err.Error()}
				}
				refs = append(refs, r)
			}
			h, err := sam.NewHeader(nil, refs)
			if err != nil {
				return map[string]interface{}{"bad_case": err.Error()}
			}
			for i, r := range c.Recs {
				rec := &sam.Record{Name: fmt.Sprintf("r%d", i), Pos: r.Pos, MapQ: 30, Flags: sam.Flags(r.Flags), MatePos: -1}
				if r.Rid >= 0 && r.Rid < len(refs) {
					rec.Ref = refs[r.Rid]
				}
				for _, co := range r.Cig {
					rec.Cigar = append(rec.Cigar, sam.NewCigarOp(sam.CigarOpType(co[0]), co[1]))
				}
				srecs = append(srecs, rec)
			}
			if c.Real {
				var buf bytes.Buffer
				bg := bgzf.NewWriter(&buf, 1)
				bw, err := bam.NewWriter(bg, h, 1)
				if err != nil {
					return map[string]interface{}{"bad_case": err.Error()}
				}
				for i, rec := range srecs {
					if err := bw.Write(rec); err != nil {
						return map[string]interface{}{"bad_case": "bam write: " + err.Error()}
					}
					if c.Recs[i].Flush {
						bg.Flush()
					}
				}
				bw.Close()
				data := buf.Bytes()
				br, err := bam.NewReader(bytes.NewReader(data), 1)
				if err != nil {
					return map[string]interface{}{"bad_case": "bam read: " + err.Error()}
				}
				for i := range srecs {
					_, err := br.Read()
					if err != nil {
						return map[string]interface{}{"bad_case": "bam read: " + err.Error()}
					}
					lc := br.LastChunk()
					c.Recs[i].Cb, c.Recs[i].Ce = c04v(lc.Begin), c04v(lc.End)
				}
				obs["bamlen"] = len(data)
				c04iterData = data
			}
			bai = &bam.Index{}
			if qs, ok := c04strategy(c.Qstrat); ok {
				bai.MergeStrategy = qs // the strategy Chunks applies to the collected chunks (nil = Adjacent)
			}
			ix = &c04bai{idx: bai, refs: refs}
		case "tabix":
			tbx = tabix.New()
			if len(c.Tbx) == 7 {
				tbx.Format = byte(c.Tbx[0])
				tbx.ZeroBased = c.Tbx[1] != 0
				tbx.NameColumn, tbx.BeginColumn, tbx.EndColumn = int32(c.Tbx[2]), int32(c.Tbx[3]), int32(c.Tbx[4])
				tbx.MetaChar, tbx.Skip = rune(c.Tbx[5]), int32(c.Tbx[6])
			}
			ix = &c04tbx{idx: tbx, names: c.Names}
		case "csi":
			cs = csi.New(c.Ms, c.Dp)
			if c.Ver != 0 {
				cs.Version = byte(c.Ver)
			}
			if c.Aux != nil {
				cs.Auxilliary = bytesOf(c.Aux)
			}
			ix = &c04csi{idx: cs}
		default:
			return map[string]interface{}{"bad_case": "kind"}
		}

		recinfo := make([]interface{}, 0, len(c.Recs))
		mid := []interface{}{}
		adderr := []int{}
		stopped := false
		for i, r := range c.Recs {
			ch := c04chunk(r.Cb, r.Ce)
			var err error
			var info []interface{}
			p := c04guard(func() {
				switch c.Kind {
				case "bai":
					rec := srecs[i]
					placed := rec.Ref != nil && rec.Pos != -1
					mapped := rec.Flags&sam.Unmapped == 0
					info = []interface{}{rec.Ref.ID(), rec.Start(), rec.End(), rec.Bin(), placed, mapped, r.Cb, r.Ce}
					if !stopped {
						err = bai.Add(rec, ch)
					}
				case "tabix":
					nm := (&c04tbx{names: c.Names}).name(r.Rid)
					info = []interface{}{r.Rid, r.Pos, r.End, -1, r.Placed, r.Mapped, r.Cb, r.Ce}
					if !stopped {
						err = tbx.Add(c04shim{name: nm, start: r.Pos, end: r.End}, ch, r.Placed, r.Mapped)
					}
				case "csi":
					info = []interface{}{r.Rid, r.Pos, r.End, -1, r.Placed, r.Mapped, r.Cb, r.Ce}
					if !stopped {
						err = cs.Add(c04shim{id: r.Rid, start: r.Pos, end: r.End}, ch, r.Mapped, r.Placed)
					}
				}
			})
			recinfo = append(recinfo, info)
			if stopped {
				continue
			}
			if p != "" {
				obs["addpanic"] = p
				obs["addpanic_at"] = i
				stopped = true
				continue
			}
			e := c04adderr(err)
			adderr = append(adderr, e)
			if e != 0 {
				stopped = true
				continue
			}
			// interleaved history: after the last record of a segment (not the last segment)
			// query and/or write the index built so far, then carry on adding
			if act, ok := c04boundary(c.Hist, i, len(c.Recs)); ok {
				m := map[string]interface{}{"at": i + 1, "act": act}
				if act&1 != 0 {
					q, p := c04queries(ix, c.Queries)
					m["q"] = q
					if p != "" {
						m["panic"] = p
					}
				}
				if act&2 != 0 {
					if p := c04guard(func() { _, _ = ix.write() }); p != "" {
						m["panic"] = p
					}
				}
				m["dump"] = ix.dump()
				mid = append(mid, m)
			}
		}
		obs["mid"] = mid
		obs["recs"] = recinfo
		obs["adderr"] = adderr
		if _, bad := obs["addpanic"]; bad {
			return obs
		}
	}

	// ---- observe
	for k, v := range ix.stats() {
		obs[k] = v
	}
	obs["dump"] = ix.dump()
	q1, p := c04queries(ix, c.Queries)
	obs["q1"] = q1
	if p != "" {
		obs["q1panic"] = p
		return obs
	}
	if c.Kind == "bai" && c.Real && !c.HasFor {
		obs["iter"] = c04iterate(ix.(*c04bai), c.Queries)
	}

	// ---- write / read / write
	var w1 []byte
	var werr error
	if p := c04guard(func() { w1, werr = ix.write() }); p != "" {
		obs["w1panic"] = p
		return obs
	}
	obs["w1err"] = werr != nil
	c04bytesObs(obs, "w1", w1)
	obs["dumpw"] = ix.dump()
	var ix2 c04idx
	var rnil bool
	var rerr error
	if p := c04guard(func() { ix2, rnil, rerr = c04read(c.Kind, w1, c.Qstrat) }); p != "" {
		obs["rdpanic"] = p
		return obs
	}
	obs["rderr"] = rerr != nil
	if rerr != nil {
		obs["rdmsg"] = rerr.Error()
	}
	obs["rdnil"] = rnil && rerr == nil
	if ix2 != nil && rerr == nil {
		st2 := ix2.stats()
		obs["st2"] = st2
		obs["dump2"] = ix2.dump()
		q2, p := c04queries(ix2, c.Queries)
		obs["q2"] = q2
		if p != "" {
			obs["q2panic"] = p
		}
		var w2 []byte
		if p := c04guard(func() { w2, werr = ix2.write() }); p != "" {
			obs["w2panic"] = p
		} else {
			obs["w2err"] = werr != nil
			obs["w2eq"] = bytes.Equal(w1, w2)
			obs["w2len"] = len(w2)
		}
	} else if rnil && rerr == nil {
		// the library handed back a nil index without an error: writing it is the next thing a caller does
		if p := c04guard(func() {
			switch c.Kind {
			case "bai":
				var b bytes.Buffer
				werr = bam.WriteIndex(&b, nil)
			case "tabix":
				var b bytes.Buffer
				werr = tabix.WriteTo(&b, nil)
			}
		}); p != "" {
			obs["w2panic"] = p
		}
	}

	// ---- merge strategy applied to the stored bins, then the same queries
	if s, ok := c04strategy(c.Strat); ok {
		if p := c04guard(func() { ix.merge(s) }); p != "" {
			obs["mpanic"] = p
			return obs
		}
		obs["dump3"] = ix.dump()
		q3, p := c04queries(ix, c.Queries)
		obs["q3"] = q3
		if p != "" {
			obs["q3panic"] = p
		}
	}
	return obs
}

// c04boundary reports the action after record i when i ends a segment of the
// history that is not the last one.
func c04boundary(hist [][2]int, i, n int) (int, bool) {
	end := 0
	for k, h := range hist {
		end += h[0]
		if k == len(hist)-1 || end >= n {
			return 0, false
		}
		if end == i+1 {
			return h[1], h[0] > 0
		}
	}
	return 0, false
}

var c04iterData []byte

// c04iterate reads the real BAM through the chunks returned for each query and
// lists the record numbers seen.
func c04iterate(b *c04bai, qs [][3]int) []interface{} {
	res := []interface{}{}
	for _, q := range qs {
		if q[0] < 0 || q[0] >= len(b.refs) {
			res = append(res, map[string]interface{}{"skip": true})
			continue
		}
		chunks, err := b.idx.Chunks(b.refs[q[0]], q[1], q[2])
		if err != nil {
			res = append(res, map[string]interface{}{"err": c04qerr(err)})
			continue
		}
		br, err := bam.NewReader(bytes.NewReader(c04iterData), 1)
		if err != nil {
			res = append(res, map[string]interface{}{"fail": err.Error()})
			continue
		}
		it, err := bam.NewIterator(br, chunks)
		if err != nil {
			res = append(res, map[string]interface{}{"fail": err.Error()})
			continue
		}
		seen := []int{}
		for it.Next() {
			var n int
			fmt.Sscanf(it.Record().Name, "r%d", &n)
			seen = append(seen, n)
		}
		o := map[string]interface{}{"seen": seen}
		if err := it.Close(); err != nil && err != io.EOF {
			o["fail"] = err.Error()
		}
		res = append(res, o)
	}
	return res
}
