package main

// C05: BAM record codec. Ops:
//
//	rt   build header and records from typed values, write them with
//	     bam.NewWriterLevel at several wc (optionally through a caller-owned
//	     bgzf.Writer that is flushed after chosen records), report the
//	     uncompressed stream, then read the file back with several rd and
//	     Omit modes. Records are retained until the stream has ended and only
//	     then inspected, so a field that aliases the reader's shared buffer
//	     shows up as corrupted.
//	dec  one record given as raw bytes behind a header with nrefs references.
//	seq  sam.NewSeq / Seq.Expand.

import (
	"bytes"
	"encoding/json"
	"fmt"
	"io"
	"math"

	"github.com/biogo/hts/bam"
	"github.com/biogo/hts/bgzf"
	"github.com/biogo/hts/sam"
)

func init() { register("c05", c05) }

type c05aux struct {
	Tag string  `json:"tag"`
	T   string  `json:"t"`             // A c C s S i I f Z H B, or "raw"
	Sub string  `json:"sub,omitempty"` // B subtype
	V   int64   `json:"v"`             // scalar (f: bit pattern)
	L   []int64 `json:"l,omitempty"`   // Z/H text bytes, B elements (f: bit patterns), raw bytes
	Via string  `json:"via,omitempty"` // "newaux" (default) or "raw": build the byte string directly
}

type c05rec struct {
	Name      []int    `json:"name"`
	Ref       int      `json:"ref"`
	Pos       int      `json:"pos"`
	MapQ      int      `json:"mapq"`
	Cigar     []uint32 `json:"cigar"`
	Flags     int      `json:"flags"`
	MRef      int      `json:"mref"`
	MPos      int      `json:"mpos"`
	TLen      int      `json:"tlen"`
	Bases     []int    `json:"bases"` // ASCII bases for sam.NewSeq; nil with Dbl set: raw doublets
	LSeq      int      `json:"lseq"`  // used with Dbl
	Dbl       []int    `json:"dbl"`
	Qual      []int    `json:"qual"` // nil: absent
	NoQ       bool     `json:"noq"`
	Aux       []c05aux `json:"aux"`
	NewRecord bool     `json:"newrecord"` // build through sam.NewRecord
}

type c05ref struct {
	Name string `json:"name"`
	Len  int    `json:"len"`
}

type c05case struct {
	Op    string   `json:"op"`
	Text  string   `json:"text"`
	Refs  []c05ref `json:"refs"`
	Recs  []c05rec `json:"recs"`
	WC    []int    `json:"wc"`
	Level int      `json:"level"`
	Flush []int    `json:"flush"` // record indices after which the caller flushes its bgzf.Writer (nil: plain io.Writer)
	Reads [][2]int `json:"reads"` // (rd, omit)
	// dec
	NRefs int   `json:"nrefs"`
	Omit  int   `json:"omit"`
	Data  []int `json:"data"`
	// seq
	S []int `json:"s"`
}

func c05buildAux(a c05aux) (sam.Aux, error) {
	if len(a.Tag) != 2 {
		return nil, fmt.Errorf("tag")
	}
	tag := sam.NewTag(a.Tag)
	if a.T == "raw" {
		b := make([]byte, len(a.L))
		for i, x := range a.L {
			b[i] = byte(x)
		}
		return sam.Aux(b), nil
	}
	if a.Via == "raw" {
		// the in-memory form a record read from a BAM file has: tag, type, value bytes
		b := []byte{a.Tag[0], a.Tag[1], a.T[0]}
		for _, x := range a.L {
			b = append(b, byte(x))
		}
		return sam.Aux(b), nil
	}
	bs := func() []byte {
		b := make([]byte, len(a.L))
		for i, x := range a.L {
			b[i] = byte(x)
		}
		return b
	}
	switch a.T {
	case "A":
		return sam.NewAux(tag, sam.ASCII(byte(a.V)))
	case "c":
		return sam.NewAux(tag, int8(a.V))
	case "C":
		return sam.NewAux(tag, uint8(a.V))
	case "s":
		return sam.NewAux(tag, int16(a.V))
	case "S":
		return sam.NewAux(tag, uint16(a.V))
	case "i":
		return sam.NewAux(tag, int32(a.V))
	case "I":
		return sam.NewAux(tag, uint32(a.V))
	case "f":
		return sam.NewAux(tag, math.Float32frombits(uint32(a.V)))
	case "Z":
		return sam.NewAux(tag, sam.Text(bs()))
	case "H":
		return sam.NewAux(tag, sam.Hex(bs()))
	case "B":
		switch a.Sub {
		case "c":
			v := make([]int8, len(a.L))
			for i, x := range a.L {
				v[i] = int8(x)
			}
			return sam.NewAux(tag, v)
		case "C":
			v := make([]uint8, len(a.L))
			for i, x := range a.L {
				v[i] = uint8(x)
			}
			return sam.NewAux(tag, v)
		case "s":
			v := make([]int16, len(a.L))
			for i, x := range a.L {
				v[i] = int16(x)
			}
			return sam.NewAux(tag, v)
		case "S":
			v := make([]uint16, len(a.L))
			for i, x := range a.L {
				v[i] = uint16(x)
			}
			return sam.NewAux(tag, v)
		case "i":
			v := make([]int32, len(a.L))
			for i, x := range a.L {
				v[i] = int32(x)
			}
			return sam.NewAux(tag, v)
		case "I":
			v := make([]uint32, len(a.L))
			for i, x := range a.L {
				v[i] = uint32(x)
			}
			return sam.NewAux(tag, v)
		case "f":
			v := make([]float32, len(a.L))
			for i, x := range a.L {
				v[i] = math.Float32frombits(uint32(x))
			}
			return sam.NewAux(tag, v)
		}
	}
	return nil, fmt.Errorf("aux type %q/%q", a.T, a.Sub)
}

// c05value renders Aux.Value() (the library's accessor) as JSON-able data.
func c05value(a sam.Aux) (out map[string]interface{}) {
	out = map[string]interface{}{}
	defer func() {
		if r := recover(); r != nil {
			out = map[string]interface{}{"panic": fmt.Sprint(r)}
		}
	}()
	if len(a) < 3 {
		out["short"] = true
		return
	}
	out["tag"] = string(a[:2])
	out["t"] = string(a[2:3])
	switch v := a.Value().(type) {
	case uint8:
		out["v"] = int64(v)
	case int8:
		out["v"] = int64(v)
	case int16:
		out["v"] = int64(v)
	case uint16:
		out["v"] = int64(v)
	case int32:
		out["v"] = int64(v)
	case uint32:
		out["v"] = int64(v)
	case float32:
		out["v"] = int64(math.Float32bits(v))
	case string:
		out["l"] = ints([]byte(v))
	case []byte:
		out["l"] = ints(v)
		if a[2] == 'B' {
			out["sub"] = "C"
		}
	case []int8:
		l := make([]int64, len(v))
		for i, x := range v {
			l[i] = int64(x)
		}
		out["l"], out["sub"] = l, "c"
	case []int16:
		l := make([]int64, len(v))
		for i, x := range v {
			l[i] = int64(x)
		}
		out["l"], out["sub"] = l, "s"
	case []uint16:
		l := make([]int64, len(v))
		for i, x := range v {
			l[i] = int64(x)
		}
		out["l"], out["sub"] = l, "S"
	case []int32:
		l := make([]int64, len(v))
		for i, x := range v {
			l[i] = int64(x)
		}
		out["l"], out["sub"] = l, "i"
	case []uint32:
		l := make([]int64, len(v))
		for i, x := range v {
			l[i] = int64(x)
		}
		out["l"], out["sub"] = l, "I"
	case []float32:
		l := make([]int64, len(v))
		for i, x := range v {
			l[i] = int64(math.Float32bits(x))
		}
		out["l"], out["sub"] = l, "f"
	default:
		out["other"] = fmt.Sprint(v)
	}
	return
}

func c05refIndex(h *sam.Header, r *sam.Reference) int {
	if r == nil {
		return -1
	}
	for i, x := range h.Refs() {
		if x == r {
			return i
		}
	}
	return -2
}

// c05view is the in-memory form of a record: what the model's rec type holds.
func c05view(h *sam.Header, r *sam.Record) map[string]interface{} {
	m := map[string]interface{}{
		"name": ints([]byte(r.Name)), "ref": c05refIndex(h, r.Ref), "pos": r.Pos, "mapq": int(r.MapQ),
		"flags": int(r.Flags), "mref": c05refIndex(h, r.MateRef), "mpos": r.MatePos, "tlen": r.TempLen,
		"lseq": r.Seq.Length,
	}
	cg := make([]uint32, len(r.Cigar))
	for i, c := range r.Cigar {
		cg[i] = uint32(c)
	}
	m["cigar"] = cg
	d := make([]int, len(r.Seq.Seq))
	for i, x := range r.Seq.Seq {
		d[i] = int(x)
	}
	m["dbl"] = d
	if r.Qual != nil {
		m["qual"] = ints(r.Qual)
	} else {
		m["qual"] = nil
	}
	aux := make([][]int, len(r.AuxFields))
	vals := make([]map[string]interface{}, len(r.AuxFields))
	for i, a := range r.AuxFields {
		aux[i] = ints([]byte(a))
		vals[i] = c05value(a)
	}
	m["aux"] = aux
	m["vals"] = vals
	return m
}

func c05header(text string, refs []c05ref) (*sam.Header, error) {
	var rs []*sam.Reference
	for _, r := range refs {
		ref, err := sam.NewReference(r.Name, "", "", r.Len, nil, nil)
		if err != nil {
			return nil, err
		}
		rs = append(rs, ref)
	}
	var t []byte
	if text != "" {
		t = []byte(text)
	}
	return sam.NewHeader(t, rs)
}

func c05build(h *sam.Header, c c05rec) (*sam.Record, error) {
	var aux []sam.Aux
	for _, a := range c.Aux {
		x, err := c05buildAux(a)
		if err != nil {
			return nil, err
		}
		aux = append(aux, x)
	}
	ref := func(i int) *sam.Reference {
		if i < 0 || i >= len(h.Refs()) {
			return nil
		}
		return h.Refs()[i]
	}
	cg := make([]sam.CigarOp, len(c.Cigar))
	for i, o := range c.Cigar {
		cg[i] = sam.CigarOp(o)
	}
	var qual []byte
	if !c.NoQ {
		qual = bytesOf(c.Qual)
	}
	if c.NewRecord {
		r, err := sam.NewRecord(string(bytesOf(c.Name)), ref(c.Ref), ref(c.MRef), c.Pos, c.MPos, c.TLen, byte(c.MapQ), cg, bytesOf(c.Bases), qual, aux)
		if err != nil {
			return nil, err
		}
		r.Flags = sam.Flags(c.Flags)
		return r, nil
	}
	r := &sam.Record{
		Name: string(bytesOf(c.Name)), Ref: ref(c.Ref), Pos: c.Pos, MapQ: byte(c.MapQ), Cigar: cg,
		Flags: sam.Flags(c.Flags), MateRef: ref(c.MRef), MatePos: c.MPos, TempLen: c.TLen,
		Qual: qual, AuxFields: aux,
	}
	if c.Dbl != nil {
		d := make([]sam.Doublet, len(c.Dbl))
		for i, x := range c.Dbl {
			d[i] = sam.Doublet(x)
		}
		r.Seq = sam.Seq{Length: c.LSeq, Seq: d}
	} else if len(c.Bases) > 0 {
		r.Seq = sam.NewSeq(bytesOf(c.Bases))
	}
	return r, nil
}

func c05inflate(file []byte) ([]byte, error) {
	bg, err := bgzf.NewReader(bytes.NewReader(file), 1)
	if err != nil {
		return nil, err
	}
	defer bg.Close()
	return io.ReadAll(bg)
}

func c05write(h *sam.Header, recs []*sam.Record, level, wc int, flush []int) (file []byte, refused []string, err error) {
	var buf bytes.Buffer
	var w io.Writer = &buf
	var own *bgzf.Writer
	if flush != nil {
		own, err = bgzf.NewWriterLevel(&buf, level, wc)
		if err != nil {
			return nil, nil, err
		}
		w = own
	}
	bw, err := bam.NewWriterLevel(w, h, level, wc)
	if err != nil {
		return nil, nil, err
	}
	fl := map[int]bool{}
	for _, i := range flush {
		fl[i] = true
	}
	refused = make([]string, len(recs))
	for i, r := range recs {
		if e := bw.Write(r); e != nil {
			refused[i] = e.Error()
		}
		if own != nil && fl[i] {
			if e := own.Flush(); e != nil {
				return nil, nil, e
			}
		}
	}
	if err = bw.Close(); err != nil {
		return nil, nil, err
	}
	return buf.Bytes(), refused, nil
}

func c05read(file []byte, rd, omit int) map[string]interface{} {
	out := map[string]interface{}{"rd": rd, "omit": omit}
	br, err := bam.NewReader(sourceFor(file), rd)
	if err != nil {
		out["open_err"] = err.Error()
		return out
	}
	defer br.Close()
	br.Omit(omit)
	h := br.Header()
	var recs []*sam.Record
	for {
		r, err := br.Read()
		if err != nil {
			if err == io.EOF {
				out["end"] = "EOF"
			} else {
				out["end"] = "err:" + err.Error()
			}
			break
		}
		recs = append(recs, r)
		if len(recs) > 1<<20 {
			out["end"] = "runaway"
			break
		}
	}
	// one more Read after EOF must still say EOF
	if out["end"] == "EOF" {
		if _, err := br.Read(); err != io.EOF {
			out["end"] = fmt.Sprintf("EOF-then:%v", err)
		}
	}
	vs := make([]map[string]interface{}, len(recs))
	for i, r := range recs {
		vs[i] = c05view(h, r)
	}
	out["recs"] = vs
	var refs []c05ref
	for _, r := range h.Refs() {
		refs = append(refs, c05ref{Name: r.Name(), Len: r.Len()})
	}
	out["refs"] = refs
	t, _ := h.MarshalText()
	out["text"] = string(t)
	return out
}

func c05(raw json.RawMessage) interface{} {
	var c c05case
	if err := json.Unmarshal(raw, &c); err != nil {
		return map[string]interface{}{"bad_case": err.Error()}
	}
	switch c.Op {
	case "seq":
		s := sam.NewSeq(bytesOf(c.S))
		d := make([]int, len(s.Seq))
		for i, x := range s.Seq {
			d[i] = int(x)
		}
		return map[string]interface{}{"len": s.Length, "dbl": d, "exp": ints(s.Expand())}
	case "dec":
		refs := make([]c05ref, c.NRefs)
		for i := range refs {
			refs[i] = c05ref{Name: fmt.Sprintf("r%d", i), Len: 1000 + i}
		}
		h, err := c05header("", refs)
		if err != nil {
			return map[string]interface{}{"bad_case": err.Error()}
		}
		var buf bytes.Buffer
		bg := bgzf.NewWriter(&buf, 1)
		if err := h.EncodeBinary(bg); err != nil {
			return map[string]interface{}{"bad_case": err.Error()}
		}
		n := len(c.Data)
		bg.Write([]byte{byte(n), byte(n >> 8), byte(n >> 16), byte(n >> 24)})
		bg.Write(bytesOf(c.Data))
		bg.Close()
		br, err := bam.NewReader(bytes.NewReader(buf.Bytes()), 1)
		if err != nil {
			return map[string]interface{}{"bad_case": err.Error()}
		}
		defer br.Close()
		br.Omit(c.Omit)
		r, err := br.Read()
		if err != nil {
			return map[string]interface{}{"err": err.Error()}
		}
		return map[string]interface{}{"rec": c05view(br.Header(), r)}
	case "rt":
		h, err := c05header(c.Text, c.Refs)
		if err != nil {
			return map[string]interface{}{"bad_case": "header: " + err.Error()}
		}
		recs := make([]*sam.Record, len(c.Recs))
		built := make([]map[string]interface{}, len(c.Recs))
		for i, cr := range c.Recs {
			r, err := c05build(h, cr)
			if err != nil {
				return map[string]interface{}{"bad_case": fmt.Sprintf("record %d: %v", i, err)}
			}
			recs[i] = r
			built[i] = c05view(h, r)
		}
		out := map[string]interface{}{"built": built}
		ht, _ := h.MarshalText()
		out["text"] = string(ht)
		var first []byte
		var file0 []byte
		same := true
		for k, wc := range c.WC {
			var fl []int
			if k%2 == 1 || len(c.WC) == 1 {
				fl = c.Flush
			}
			file, refused, err := c05write(h, recs, c.Level, wc, fl)
			if err != nil {
				return map[string]interface{}{"write_err": err.Error()}
			}
			rawb, err := c05inflate(file)
			if err != nil {
				return map[string]interface{}{"inflate_err": err.Error()}
			}
			if k == 0 {
				first, file0 = rawb, file
				out["refused"] = refused
			} else if !bytes.Equal(first, rawb) {
				same = false
				out["raw_other"] = ints(rawb)
				out["raw_other_wc"] = wc
			}
			if k == len(c.WC)-1 {
				file0 = file // read back the file of the last configuration
			}
		}
		out["raw"] = ints(first)
		out["raw_same"] = same
		out["file_len"] = len(file0)
		var reads []map[string]interface{}
		for _, ro := range c.Reads {
			reads = append(reads, c05read(file0, ro[0], ro[1]))
		}
		out["reads"] = reads
		return out
	}
	return map[string]interface{}{"bad_case": "op"}
}
