package main

// C06: SAM text round trip, SAM/BAM agreement, sam.Reader line handling.

import (
	"bytes"
	"encoding/json"
	"fmt"
	"io"
	"math"
	"strconv"

	"github.com/biogo/hts/bam"
	"github.com/biogo/hts/sam"
)

func init() { register("c06", c06) }

type c06ref struct {
	Name []int `json:"name"`
	Len  int   `json:"len"`
}

type c06aux struct {
	Tag []int   `json:"tag"`
	T   string  `json:"t"`   // A c C s S i I f Z H B
	Sub string  `json:"sub"` // element type of B
	V   int64   `json:"v"`   // scalar (float: bits)
	Vs  []int64 `json:"vs"`  // bytes of Z/H, elements of B (float: bits)
}

type c06rec struct {
	Name   []int    `json:"name"`
	Flags  int      `json:"flags"`
	Ref    int      `json:"ref"`
	Pos    int      `json:"pos"`
	MapQ   int      `json:"mapq"`
	Cigar  []uint32 `json:"cigar"`
	MRef   int      `json:"mref"`
	MPos   int      `json:"mpos"`
	TLen   int      `json:"tlen"`
	SeqLen int      `json:"seqlen"`
	Seq    []int    `json:"seq"`
	Qual   *[]int   `json:"qual"`
	Aux    []c06aux `json:"aux"`
}

type c06case struct {
	Op     string   `json:"op"`
	Refs   []c06ref `json:"refs"`
	Rec    *c06rec  `json:"rec"`
	Line   []int    `json:"line"`
	Input  []int    `json:"input"`
	Header bool     `json:"header"`
	Bits   []uint32 `json:"bits"`
	Texts  [][]int  `json:"texts"`
}

func c06header(refs []c06ref) (*sam.Header, []*sam.Reference, error) {
	var rs []*sam.Reference
	for _, r := range refs {
		ref, err := sam.NewReference(string(bytesOf(r.Name)), "", "", r.Len, nil, nil)
		if err != nil {
			return nil, nil, err
		}
		rs = append(rs, ref)
	}
	h, err := sam.NewHeader(nil, rs)
	if err != nil {
		return nil, nil, err
	}
	return h, h.Refs(), nil
}

func c06mkaux(a c06aux) (sam.Aux, error) {
	tag := sam.Tag{byte(a.Tag[0]), byte(a.Tag[1])}
	var v interface{}
	switch a.T {
	case "A":
		v = sam.ASCII(byte(a.V))
	case "c":
		v = int8(a.V)
	case "C":
		v = uint8(a.V)
	case "s":
		v = int16(a.V)
	case "S":
		v = uint16(a.V)
	case "i":
		v = int32(a.V)
	case "I":
		v = uint32(a.V)
	case "f":
		v = math.Float32frombits(uint32(a.V))
	case "Z":
		b := make([]byte, len(a.Vs))
		for i, x := range a.Vs {
			b[i] = byte(x)
		}
		v = sam.Text(b)
	case "H":
		b := make([]byte, len(a.Vs))
		for i, x := range a.Vs {
			b[i] = byte(x)
		}
		v = sam.Hex(b)
	case "B":
		switch a.Sub {
		case "c":
			s := make([]int8, len(a.Vs))
			for i, x := range a.Vs {
				s[i] = int8(x)
			}
			v = s
		case "C":
			s := make([]uint8, len(a.Vs))
			for i, x := range a.Vs {
				s[i] = uint8(x)
			}
			v = s
		case "s":
			s := make([]int16, len(a.Vs))
			for i, x := range a.Vs {
				s[i] = int16(x)
			}
			v = s
		case "S":
			s := make([]uint16, len(a.Vs))
			for i, x := range a.Vs {
				s[i] = uint16(x)
			}
			v = s
		case "i":
			s := make([]int32, len(a.Vs))
			for i, x := range a.Vs {
				s[i] = int32(x)
			}
			v = s
		case "I":
			s := make([]uint32, len(a.Vs))
			for i, x := range a.Vs {
				s[i] = uint32(x)
			}
			v = s
		case "f":
			s := make([]float32, len(a.Vs))
			for i, x := range a.Vs {
				s[i] = math.Float32frombits(uint32(x))
			}
			v = s
		default:
			return nil, fmt.Errorf("bad sub type %q", a.Sub)
		}
	default:
		return nil, fmt.Errorf("bad type %q", a.T)
	}
	return sam.NewAux(tag, v)
}

func c06mkrec(c *c06rec, refs []*sam.Reference) (*sam.Record, error) {
	r := &sam.Record{
		Name:    string(bytesOf(c.Name)),
		Flags:   sam.Flags(c.Flags),
		Pos:     c.Pos,
		MapQ:    byte(c.MapQ),
		MatePos: c.MPos,
		TempLen: c.TLen,
	}
	if c.Ref >= 0 {
		r.Ref = refs[c.Ref]
	}
	if c.MRef >= 0 {
		r.MateRef = refs[c.MRef]
	}
	for _, co := range c.Cigar {
		r.Cigar = append(r.Cigar, sam.CigarOp(co))
	}
	r.Seq.Length = c.SeqLen
	if c.Seq != nil {
		r.Seq.Seq = make([]sam.Doublet, len(c.Seq))
		for i, d := range c.Seq {
			r.Seq.Seq[i] = sam.Doublet(d)
		}
	}
	if c.Qual != nil {
		r.Qual = bytesOf(*c.Qual)
		if r.Qual == nil {
			r.Qual = []byte{}
		}
	}
	for _, a := range c.Aux {
		x, err := c06mkaux(a)
		if err != nil {
			return nil, err
		}
		r.AuxFields = append(r.AuxFields, x)
	}
	return r, nil
}

func c06refidx(r *sam.Reference, refs []*sam.Reference) int {
	if r == nil {
		return -1
	}
	for i, x := range refs {
		if x == r {
			return i
		}
	}
	// not one of the header's references: report by name, far out of range
	for i, x := range refs {
		if x.Name() == r.Name() {
			return 1000 + i
		}
	}
	return 9999
}

func c06dump(r *sam.Record, refs []*sam.Reference) map[string]interface{} {
	cg := make([]uint32, len(r.Cigar))
	for i, co := range r.Cigar {
		cg[i] = uint32(co)
	}
	sq := make([]int, len(r.Seq.Seq))
	for i, d := range r.Seq.Seq {
		sq[i] = int(d)
	}
	aux := make([][]int, len(r.AuxFields))
	for i, a := range r.AuxFields {
		aux[i] = ints([]byte(a))
	}
	m := map[string]interface{}{
		"name": ints([]byte(r.Name)), "flags": int(r.Flags), "ref": c06refidx(r.Ref, refs), "pos": r.Pos,
		"mapq": int(r.MapQ), "cigar": cg, "mref": c06refidx(r.MateRef, refs), "mpos": r.MatePos, "tlen": r.TempLen,
		"seqlen": r.Seq.Length, "seq": sq, "aux": aux,
	}
	if r.Qual == nil {
		m["qual"] = nil
	} else {
		m["qual"] = ints(r.Qual)
	}
	return m
}

// c06try runs f and converts a panic into an observation.
func c06try(f func() map[string]interface{}) (out map[string]interface{}) {
	defer func() {
		if r := recover(); r != nil {
			out = map[string]interface{}{"panic": fmt.Sprint(r)}
		}
	}()
	return f()
}

func c06parse(h *sam.Header, refs []*sam.Reference, line []byte) map[string]interface{} {
	return c06try(func() map[string]interface{} {
		var r sam.Record
		// the caller owns the line buffer: it checks that the parser left it
		// alone and then recycles it (a bufio.Scanner loop does), so a record
		// that still points into it changes under the caller's feet
		buf := append([]byte(nil), line...)
		err := r.UnmarshalSAM(h, buf)
		if err != nil {
			return map[string]interface{}{"err": err.Error()}
		}
		if !bytes.Equal(buf, line) {
			return map[string]interface{}{"panic": "UnmarshalSAM modified the line it was given"}
		}
		for i := range buf {
			buf[i] = '#'
		}
		o := map[string]interface{}{"rec": c06dump(&r, refs)}
		for k, ff := range []int{sam.FlagDecimal, sam.FlagHex} {
			key := []string{"re", "rehex"}[k]
			ff := ff
			o[key] = c06try(func() map[string]interface{} {
				b, err := r.MarshalSAM(ff)
				if err != nil {
					return map[string]interface{}{"err": err.Error()}
				}
				return map[string]interface{}{"line": ints(b)}
			})
		}
		return o
	})
}

func c06bam(h *sam.Header, rec *sam.Record) map[string]interface{} {
	return c06try(func() map[string]interface{} {
		var buf bytes.Buffer
		w, err := bam.NewWriter(&buf, h, 1)
		if err != nil {
			return map[string]interface{}{"err": "writer: " + err.Error()}
		}
		if err := w.Write(rec); err != nil {
			return map[string]interface{}{"err": "write: " + err.Error()}
		}
		if err := w.Close(); err != nil {
			return map[string]interface{}{"err": "close: " + err.Error()}
		}
		rd, err := bam.NewReader(&buf, 1)
		if err != nil {
			return map[string]interface{}{"err": "reader: " + err.Error()}
		}
		r2, err := rd.Read()
		if err != nil {
			return map[string]interface{}{"err": "read: " + err.Error()}
		}
		o := map[string]interface{}{"rec": c06dump(r2, rd.Header().Refs())}
		b, err := r2.MarshalSAM(sam.FlagDecimal)
		if err != nil {
			o["err"] = "marshal: " + err.Error()
			return o
		}
		o["line"] = ints(b)
		if _, err := rd.Read(); err != io.EOF {
			o["extra"] = fmt.Sprint(err)
		}
		return o
	})
}

func c06f32(bits uint32) map[string]interface{} {
	f := math.Float32frombits(bits)
	txt := fmt.Sprintf("%v", f)
	o := map[string]interface{}{"bits": bits, "text": ints([]byte(txt)), "nan": f != f}
	g, err := strconv.ParseFloat(txt, 32)
	if err != nil {
		o["perr"] = err.Error()
	} else {
		o["back"] = math.Float32bits(float32(g))
	}
	return o
}

func c06(raw json.RawMessage) interface{} {
	var c c06case
	if err := json.Unmarshal(raw, &c); err != nil {
		return map[string]interface{}{"bad_case": err.Error()}
	}
	switch c.Op {
	case "f32":
		var out []interface{}
		for _, b := range c.Bits {
			out = append(out, c06f32(b))
		}
		return map[string]interface{}{"f": out}
	case "ftext":
		var out []interface{}
		for _, t := range c.Texts {
			g, err := strconv.ParseFloat(string(bytesOf(t)), 32)
			if err != nil {
				out = append(out, nil)
			} else {
				out = append(out, math.Float32bits(float32(g)))
			}
		}
		return map[string]interface{}{"bits": out}
	}
	h, refs, err := c06header(c.Refs)
	if err != nil {
		return map[string]interface{}{"bad_case": "header: " + err.Error()}
	}
	switch c.Op {
	case "rt":
		rec, err := c06mkrec(c.Rec, refs)
		if err != nil {
			return map[string]interface{}{"bad_case": "record: " + err.Error()}
		}
		o := map[string]interface{}{}
		var fm []interface{}
		for ff := 0; ff < 3; ff++ {
			ff := ff
			m := c06try(func() map[string]interface{} {
				b, err := rec.MarshalSAM(ff)
				if err != nil {
					return map[string]interface{}{"err": err.Error()}
				}
				return map[string]interface{}{"line": ints(b)}
			})
			if l, ok := m["line"]; ok && ff < 2 {
				m["parse"] = c06parse(h, refs, bytesOf(l.([]int)))
			}
			fm = append(fm, m)
		}
		o["fmt"] = fm
		o["bam"] = c06bam(h, rec)
		// raw aux bytes of the record as built (what NewAux made of the case)
		o["built"] = c06dump(rec, refs)
		return o
	case "parse":
		return c06parse(h, refs, bytesOf(c.Line))
	case "reader":
		// The input is the record part; with Header the @SQ lines of the
		// references are put in front (Reader in header mode).
		var in []byte
		if c.Header {
			text, err := h.MarshalText()
			if err != nil {
				return map[string]interface{}{"bad_case": "header text: " + err.Error()}
			}
			in = append(in, text...)
		}
		in = append(in, bytesOf(c.Input)...)
		rd, err := sam.NewReader(textSource(in))
		if err != nil {
			return map[string]interface{}{"newreader_err": err.Error()}
		}
		rrefs := rd.Header().Refs()
		var reads []interface{}
		for k := 0; k < len(c.Input)+3; k++ {
			eof := false
			m := c06try(func() map[string]interface{} {
				r, err := rd.Read()
				if err == io.EOF {
					eof = true
					return nil
				}
				if err != nil {
					return map[string]interface{}{"err": err.Error()}
				}
				rrefs = rd.Header().Refs()
				o := map[string]interface{}{"rec": c06dump(r, rrefs)}
				b, err := r.MarshalSAM(sam.FlagDecimal)
				if err != nil {
					o["merr"] = err.Error()
				} else {
					o["line"] = ints(b)
				}
				return o
			})
			if eof {
				break
			}
			reads = append(reads, m)
		}
		var names [][]int
		for _, r := range rd.Header().Refs() {
			names = append(names, ints([]byte(r.Name())))
		}
		return map[string]interface{}{"reads": reads, "refs": names}
	}
	return map[string]interface{}{"bad_case": "op"}
}
