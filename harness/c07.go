package main

// C07: SAM/BAM header edit histories. One case is a list of operations on a
// small world of headers, references, read groups and programs (addressed by
// the order in which they became visible to the caller). After every
// operation the handler reports the error class, a snapshot of every header
// (text, binary, identity fields, name tables) and the verdicts of an
// independent oracle that checks the invariants of the property statement
// directly on the real objects.

import (
	"bytes"
	"encoding/base64"
	"encoding/hex"
	"encoding/json"
	"fmt"
	"net/url"
	"sort"
	"strings"
	"time"

	"github.com/biogo/hts/sam"
)

func init() { register("c07", c07) }

type c07op struct {
	Op   string  `json:"op"`
	H    int     `json:"h"`
	R    int     `json:"r"`
	Hs   []int   `json:"hs"`
	Rs   []int   `json:"rs"`
	Name string  `json:"name"`
	Len  int     `json:"len"`
	MD5  string  `json:"md5"`
	AS   string  `json:"as"`
	SP   string  `json:"sp"`
	URI  string  `json:"uri"`
	Text *string `json:"text"`
	// read group
	CN, DS, LB, PG, PL, PU, SM, FO, KS, DT string
	PI                                     int
	// program
	PN, CL, PP, VN string
	// header fields
	SO, GO int
}

type c07case struct {
	Ops []c07op  `json:"ops"`
	Lib []string `json:"lib"`
}

type c07world struct {
	viol []string // verdicts of per-operation expectations
	hs   []*sam.Header
	rs   []*sam.Reference
	gs   []*sam.ReadGroup
	ps   []*sam.Program
}

type c07snap struct {
	Text  string          `json:"text"`
	Bin   string          `json:"bin"`
	Refs  [][]interface{} `json:"refs"`
	RGs   [][]interface{} `json:"rgs"`
	PGs   [][]interface{} `json:"pgs"`
	SeenR [][]interface{} `json:"seenr"`
	SeenG [][]interface{} `json:"seeng"`
	SeenP [][]interface{} `json:"seenp"`
	Alias int             `json:"alias"`
}

type c07step struct {
	E     int               `json:"e"`
	Msg   string            `json:"msg,omitempty"`
	Panic string            `json:"panic,omitempty"`
	N     []int             `json:"n"`
	H     []c07snap         `json:"H"`
	Viol  []string          `json:"viol,omitempty"`
	Links [][][]interface{} `json:"links,omitempty"`
}

func c07errcode(err error) int {
	if err == nil {
		return 0
	}
	m := err.Error()
	table := []struct {
		p string
		c int
	}{
		{"sam: duplicate reference name", 1},
		{"sam: duplicate read group name", 2},
		{"sam: duplicate program name", 3},
		{"sam: reference already used", 4},
		{"sam: read group already used", 5},
		{"sam: program already used", 6},
		{"sam: reference not owned by header", 7},
		{"sam: read group not owned by header", 8},
		{"sam: program not owned by header", 9},
		{"sam: reference length out of range", 10},
		{"sam: malformed header line", 11},
		{"sam: duplicate field", 12},
		{"sam: name exists", 13},
		{"sam: uid exists", 13},
	}
	for _, t := range table {
		if strings.HasPrefix(m, t.p) {
			return t.c
		}
	}
	return 14
}

func c07sortedSeen(m map[string]int32) [][]interface{} {
	ks := make([]string, 0, len(m))
	for k := range m {
		ks = append(ks, k)
	}
	sort.Strings(ks)
	r := make([][]interface{}, 0, len(ks))
	for _, k := range ks {
		r = append(r, []interface{}{k, int(m[k])})
	}
	return r
}

func c07b(b bool) int {
	if b {
		return 1
	}
	return 0
}

func c07snapshot(w *c07world, hi int) c07snap {
	h := w.hs[hi]
	s := c07snap{Alias: -1}
	for j := 0; j < hi; j++ {
		if w.hs[j] == h {
			s.Alias = j
			return s
		}
	}
	t, _ := h.MarshalText()
	b, _ := h.MarshalBinary()
	s.Text = string(t)
	s.Bin = base64.StdEncoding.EncodeToString(b)
	s.Refs = [][]interface{}{}
	s.RGs = [][]interface{}{}
	s.PGs = [][]interface{}{}
	for _, r := range h.Refs() {
		s.Refs = append(s.Refs, []interface{}{r.ID(), r.Name(), r.Len(), c07b(sam.VerifRefOwner(r) == h)})
	}
	for _, r := range h.RGs() {
		s.RGs = append(s.RGs, []interface{}{r.ID(), r.Name(), c07b(sam.VerifRGOwner(r) == h)})
	}
	for _, r := range h.Progs() {
		s.PGs = append(s.PGs, []interface{}{r.ID(), r.UID(), c07b(sam.VerifProgOwner(r) == h)})
	}
	sr, sg, sp := sam.VerifSeen(h)
	s.SeenR, s.SeenG, s.SeenP = c07sortedSeen(sr), c07sortedSeen(sg), c07sortedSeen(sp)
	return s
}

// c07expose makes the items of h that the caller has not seen yet addressable.
func c07expose(w *c07world, h *sam.Header) {
	if h == nil {
		return
	}
	for _, r := range h.Refs() {
		found := false
		for _, x := range w.rs {
			if x == r {
				found = true
				break
			}
		}
		if !found {
			w.rs = append(w.rs, r)
		}
	}
	for _, r := range h.RGs() {
		found := false
		for _, x := range w.gs {
			if x == r {
				found = true
				break
			}
		}
		if !found {
			w.gs = append(w.gs, r)
		}
	}
	for _, r := range h.Progs() {
		found := false
		for _, x := range w.ps {
			if x == r {
				found = true
				break
			}
		}
		if !found {
			w.ps = append(w.ps, r)
		}
	}
}

// ---- oracle: the invariants of the property statement on the real objects ----

func c07seenExact(seen map[string]int32, names []string) bool {
	if len(seen) != len(names) {
		return false
	}
	for i, n := range names {
		if id, ok := seen[n]; !ok || int(id) != i {
			return false
		}
	}
	return true
}

func c07dup(names []string) bool {
	m := map[string]bool{}
	for _, n := range names {
		if m[n] {
			return true
		}
		m[n] = true
	}
	return false
}

type c07tagged interface {
	Tags(func(t sam.Tag, value string))
}

func c07tags(x c07tagged) string {
	var sb strings.Builder
	x.Tags(func(t sam.Tag, v string) { fmt.Fprintf(&sb, "%s=%q;", t.String(), v) })
	return sb.String()
}

// c07values lists the values a header exposes through its public API.
func c07values(h *sam.Header) []string {
	var v []string
	v = append(v, "HD "+c07tags(h))
	for _, r := range h.Refs() {
		v = append(v, "SQ "+c07tags(r))
	}
	for _, r := range h.RGs() {
		v = append(v, "RG "+c07tags(r))
	}
	for _, r := range h.Progs() {
		v = append(v, "PG "+c07tags(r))
	}
	for _, c := range h.Comments {
		v = append(v, "CO "+c)
	}
	return v
}

func c07eqs(a, b []string) bool {
	if len(a) != len(b) {
		return false
	}
	for i := range a {
		if a[i] != b[i] {
			return false
		}
	}
	return true
}

func c07representable(h *sam.Header) bool {
	if h.Version != "" {
		return true
	}
	n := 0
	h.Tags(func(t sam.Tag, v string) {
		if s := t.String(); s != "VN" && s != "SO" && s != "GO" {
			n++
		}
	})
	return n == 0 && h.SortOrder == sam.UnknownOrder && h.GroupOrder == sam.GroupUnspecified
}

func c07oracle(w *c07world) (viol []string) {
	add := func(f string, a ...interface{}) { viol = append(viol, fmt.Sprintf(f, a...)) }
	listedR := map[*sam.Reference]bool{}
	listedG := map[*sam.ReadGroup]bool{}
	listedP := map[*sam.Program]bool{}
	for hi, h := range w.hs {
		if h == nil {
			continue
		}
		alias := false
		for j := 0; j < hi; j++ {
			if w.hs[j] == h {
				alias = true
			}
		}
		if alias {
			continue
		}
		sr, sg, sp := sam.VerifSeen(h)
		var names []string
		for i, r := range h.Refs() {
			if r == nil {
				add("ref-nil h%d", hi)
				continue
			}
			listedR[r] = true
			if r.ID() != i {
				add("ref-id h%d index %d has id %d", hi, i, r.ID())
			}
			if sam.VerifRefOwner(r) != h {
				add("ref-owner h%d index %d", hi, i)
			}
			names = append(names, r.Name())
		}
		if c07dup(names) {
			add("ref-dupname h%d %q", hi, names)
		}
		if !c07seenExact(sr, names) {
			add("ref-seen h%d names %q table %v", hi, names, sr)
		}
		names = nil
		for i, r := range h.RGs() {
			listedG[r] = true
			if r.ID() != i {
				add("rg-id h%d index %d has id %d", hi, i, r.ID())
			}
			if sam.VerifRGOwner(r) != h {
				add("rg-owner h%d index %d", hi, i)
			}
			names = append(names, r.Name())
		}
		if c07dup(names) {
			add("rg-dupname h%d %q", hi, names)
		}
		if !c07seenExact(sg, names) {
			add("rg-seen h%d names %q table %v", hi, names, sg)
		}
		names = nil
		for i, r := range h.Progs() {
			listedP[r] = true
			if r.ID() != i {
				add("pg-id h%d index %d has id %d", hi, i, r.ID())
			}
			if sam.VerifProgOwner(r) != h {
				add("pg-owner h%d index %d", hi, i)
			}
			names = append(names, r.UID())
		}
		if c07dup(names) {
			add("pg-dupname h%d %q", hi, names)
		}
		if !c07seenExact(sp, names) {
			add("pg-seen h%d names %q table %v", hi, names, sp)
		}
		// serialisation round trips
		if !c07representable(h) {
			// the histories never set an @HD field without a version themselves
			add("hd-unrepresentable h%d: SO %v GO %v or other @HD tags are set but there is no version to carry them", hi, h.SortOrder, h.GroupOrder)
			continue
		}
		t, _ := h.MarshalText()
		b, _ := h.MarshalBinary()
		vals := c07values(h)
		func() {
			defer func() {
				if r := recover(); r != nil {
					add("text-reparse-panic h%d %v", hi, r)
				}
			}()
			h2, err := sam.NewHeader(t, nil)
			if err != nil {
				add("text-reparse-error h%d %v", hi, err)
				return
			}
			t2, _ := h2.MarshalText()
			b2, _ := h2.MarshalBinary()
			if !bytes.Equal(t, t2) {
				add("text-rt h%d %q became %q", hi, t, t2)
			} else if !bytes.Equal(b, b2) {
				add("text-rt-bin h%d", hi)
			} else if !c07eqs(vals, c07values(h2)) {
				add("text-rt-values h%d %q became %q", hi, vals, c07values(h2))
			}
		}()
		func() {
			defer func() {
				if r := recover(); r != nil {
					add("bin-reparse-panic h%d %v", hi, r)
				}
			}()
			h3 := &sam.Header{}
			if err := h3.UnmarshalBinary(b); err != nil {
				add("bin-reparse-error h%d %v", hi, err)
				return
			}
			// DecodeBinary takes any io.Reader: the same bytes delivered in
			// pieces (a pipe, a network stream) must decode to the same header
			h4 := &sam.Header{}
			if err := h4.DecodeBinary(newDribble(b)); err != nil {
				add("bin-reparse-short-reads h%d %v", hi, err)
				return
			}
			if b4, _ := h4.MarshalBinary(); !bytes.Equal(b, b4) {
				add("bin-reparse-short-reads h%d differs", hi)
				return
			}
			t3, _ := h3.MarshalText()
			b3, _ := h3.MarshalBinary()
			if !bytes.Equal(b, b3) || !bytes.Equal(t, t3) {
				add("bin-rt h%d %q became %q", hi, t, t3)
			} else if !c07eqs(vals, c07values(h3)) {
				add("bin-rt-values h%d %q became %q", hi, vals, c07values(h3))
			} else {
				for i, r := range h3.Refs() {
					if r.ID() != i || sam.VerifRefOwner(r) != h3 {
						add("bin-rt-identity h%d index %d id %d owned %v", hi, i, r.ID(), sam.VerifRefOwner(r) == h3)
						break
					}
				}
			}
		}()
	}
	for i, r := range w.rs {
		if !listedR[r] {
			if sam.VerifRefOwner(r) != nil {
				add("ref-stale-owner r%d", i)
			} else if r.ID() != -1 {
				add("ref-stale-id r%d id %d", i, r.ID())
			}
		}
	}
	for i, r := range w.gs {
		if !listedG[r] {
			if sam.VerifRGOwner(r) != nil {
				add("rg-stale-owner g%d", i)
			} else if r.ID() != -1 {
				add("rg-stale-id g%d id %d", i, r.ID())
			}
		}
	}
	for i, r := range w.ps {
		if !listedP[r] {
			if sam.VerifProgOwner(r) != nil {
				add("pg-stale-owner p%d", i)
			} else if r.ID() != -1 {
				add("pg-stale-id p%d id %d", i, r.ID())
			}
		}
	}
	return viol
}

func c07time(s string) (time.Time, bool) {
	if s == "" {
		return time.Time{}, true
	}
	t, err := time.Parse(time.RFC3339, s)
	return t, err == nil
}

// c07lib answers questions about the external libraries the model treats as
// opaque (time formats, URL normalisation), used to validate the tables the
// driver gives to the model.
func c07lib(q string) string {
	switch {
	case strings.HasPrefix(q, "dt:"):
		// through the package: an @RG line with the date
		h, err := sam.NewHeader([]byte("@RG\tID:x\tDT:"+q[3:]+"\n"), nil)
		if err != nil {
			return "error"
		}
		s := ""
		h.RGs()[0].Tags(func(t sam.Tag, v string) {
			if t.String() == "DT" {
				s = v
			}
		})
		return "ok:" + s
	case strings.HasPrefix(q, "ur:"):
		h, err := sam.NewHeader([]byte("@SQ\tSN:x\tLN:1\tUR:"+q[3:]+"\n"), nil)
		if err != nil {
			return "error"
		}
		return "ok:" + h.Refs()[0].Get(sam.NewTag("UR"))
	}
	return "?"
}

func c07(raw json.RawMessage) interface{} {
	time.Local = time.UTC
	var c c07case
	if err := json.Unmarshal(raw, &c); err != nil {
		return map[string]interface{}{"bad_case": err.Error()}
	}
	if c.Lib != nil {
		out := make([]string, len(c.Lib))
		for i, q := range c.Lib {
			out[i] = c07lib(q)
		}
		return map[string]interface{}{"lib": out}
	}
	w := &c07world{}
	steps := []c07step{}
	for _, op := range c.Ops {
		st := c07step{}
		stop := false
		func() {
			defer func() {
				if r := recover(); r != nil {
					st.Panic = fmt.Sprint(r)
					st.E = -2
					stop = true
				}
			}()
			st.E, st.Msg, st.Links = c07apply(w, op)
		}()
		st.N = []int{len(w.hs), len(w.rs), len(w.gs), len(w.ps)}
		if !stop {
			func() {
				defer func() {
					if r := recover(); r != nil {
						st.Viol = append(st.Viol, fmt.Sprintf("observe-panic %v", r))
						stop = true
					}
				}()
				for hi := range w.hs {
					st.H = append(st.H, c07snapshot(w, hi))
				}
				st.Viol = append(st.Viol, w.viol...)
				w.viol = nil
				st.Viol = append(st.Viol, c07oracle(w)...)
			}()
		}
		steps = append(steps, st)
		if stop {
			break
		}
	}
	return map[string]interface{}{"steps": steps}
}

// c07expectRemove: removing a listed item succeeds and shortens the list by
// one; removing anything else is refused and changes nothing.
func c07expectRemove(w *c07world, kind string, listed bool, err error, before, after int) {
	switch {
	case listed && err != nil:
		w.viol = append(w.viol, fmt.Sprintf("%s-remove-refused %v", kind, err))
	case listed && after != before-1:
		w.viol = append(w.viol, fmt.Sprintf("%s-remove-length %d -> %d", kind, before, after))
	case !listed && err == nil:
		w.viol = append(w.viol, fmt.Sprintf("%s-remove-foreign accepted", kind))
	case !listed && after != before:
		w.viol = append(w.viol, fmt.Sprintf("%s-remove-foreign changed the list", kind))
	}
}

const c07bad = -1 // the operation names something that does not exist: skipped

func c07apply(w *c07world, op c07op) (code int, msg string, links [][][]interface{}) {
	// handles are taken modulo the number of objects that exist (-1 = newest)
	norm := func(i *int, n int) bool {
		if n == 0 {
			return false
		}
		*i = ((*i % n) + n) % n
		return true
	}
	hOK := func(i *int) bool { return norm(i, len(w.hs)) && w.hs[*i] != nil }
	ret := func(err error) (int, string, [][][]interface{}) {
		if err != nil {
			return c07errcode(err), err.Error(), nil
		}
		return 0, "", nil
	}
	switch op.Op {
	case "newref":
		var md5 []byte
		if op.MD5 != "" {
			md5, _ = hex.DecodeString(op.MD5)
		}
		var u *url.URL
		if op.URI != "" {
			var err error
			u, err = url.Parse(op.URI)
			if err != nil {
				return c07bad, "uri", nil
			}
		}
		r, err := sam.NewReference(op.Name, op.AS, op.SP, op.Len, md5, u)
		if err != nil {
			return 14, err.Error(), nil
		}
		w.rs = append(w.rs, r)
		return 0, "", nil
	case "newrg":
		t, ok := c07time(op.DT)
		if !ok {
			return c07bad, "dt", nil
		}
		g, err := sam.NewReadGroup(op.Name, op.CN, op.DS, op.LB, op.PG, op.PL, op.PU, op.SM, op.FO, op.KS, t, op.PI)
		if err != nil {
			return 14, err.Error(), nil
		}
		w.gs = append(w.gs, g)
		return 0, "", nil
	case "newpg":
		w.ps = append(w.ps, sam.NewProgram(op.Name, op.PN, op.CL, op.PP, op.VN))
		return 0, "", nil
	case "cloneref":
		if !norm(&op.R, len(w.rs)) {
			return c07bad, "", nil
		}
		w.rs = append(w.rs, w.rs[op.R].Clone())
		return 0, "", nil
	case "clonerg":
		if !norm(&op.R, len(w.gs)) {
			return c07bad, "", nil
		}
		w.gs = append(w.gs, w.gs[op.R].Clone())
		return 0, "", nil
	case "clonepg":
		if !norm(&op.R, len(w.ps)) {
			return c07bad, "", nil
		}
		w.ps = append(w.ps, w.ps[op.R].Clone())
		return 0, "", nil
	case "newhdr":
		var refs []*sam.Reference
		for _, i := range op.Rs {
			if !norm(&i, len(w.rs)) {
				return c07bad, "", nil
			}
			refs = append(refs, w.rs[i])
		}
		var text []byte
		if op.Text != nil {
			text = []byte(*op.Text)
		}
		h, err := sam.NewHeader(text, refs)
		for i := range text { // the caller recycles its buffer: the header must not point into it
			text[i] = '#'
		}
		if err != nil {
			return ret(err)
		}
		w.hs = append(w.hs, h)
		c07expose(w, h)
		return 0, "", nil
	case "sethd":
		if !hOK(&op.H) {
			return c07bad, "", nil
		}
		h := w.hs[op.H]
		h.Version = op.VN
		h.SortOrder = sam.SortOrder(op.SO)
		h.GroupOrder = sam.GroupOrder(op.GO)
		return 0, "", nil
	case "addco":
		if !hOK(&op.H) {
			return c07bad, "", nil
		}
		w.hs[op.H].Comments = append(w.hs[op.H].Comments, *op.Text)
		return 0, "", nil
	case "addref", "rmref":
		if !hOK(&op.H) || !norm(&op.R, len(w.rs)) {
			return c07bad, "", nil
		}
		if op.Op == "addref" {
			return ret(w.hs[op.H].AddReference(w.rs[op.R]))
		}
		listed := false
		for _, x := range w.hs[op.H].Refs() {
			listed = listed || x == w.rs[op.R]
		}
		n := len(w.hs[op.H].Refs())
		err := w.hs[op.H].RemoveReference(w.rs[op.R])
		c07expectRemove(w, "ref", listed, err, n, len(w.hs[op.H].Refs()))
		return ret(err)
	case "addrg", "rmrg":
		if !hOK(&op.H) || !norm(&op.R, len(w.gs)) {
			return c07bad, "", nil
		}
		if op.Op == "addrg" {
			return ret(w.hs[op.H].AddReadGroup(w.gs[op.R]))
		}
		listed := false
		for _, x := range w.hs[op.H].RGs() {
			listed = listed || x == w.gs[op.R]
		}
		n := len(w.hs[op.H].RGs())
		err := w.hs[op.H].RemoveReadGroup(w.gs[op.R])
		c07expectRemove(w, "rg", listed, err, n, len(w.hs[op.H].RGs()))
		return ret(err)
	case "addpg", "rmpg":
		if !hOK(&op.H) || !norm(&op.R, len(w.ps)) {
			return c07bad, "", nil
		}
		if op.Op == "addpg" {
			return ret(w.hs[op.H].AddProgram(w.ps[op.R]))
		}
		listed := false
		for _, x := range w.hs[op.H].Progs() {
			listed = listed || x == w.ps[op.R]
		}
		n := len(w.hs[op.H].Progs())
		err := w.hs[op.H].RemoveProgram(w.ps[op.R])
		c07expectRemove(w, "pg", listed, err, n, len(w.hs[op.H].Progs()))
		return ret(err)
	case "setname":
		if !norm(&op.R, len(w.rs)) {
			return c07bad, "", nil
		}
		return ret(w.rs[op.R].SetName(op.Name))
	case "setrgname":
		if !norm(&op.R, len(w.gs)) {
			return c07bad, "", nil
		}
		return ret(w.gs[op.R].SetName(op.Name))
	case "setuid":
		if !norm(&op.R, len(w.ps)) {
			return c07bad, "", nil
		}
		return ret(w.ps[op.R].SetUID(op.Name))
	case "clone":
		if !hOK(&op.H) {
			return c07bad, "", nil
		}
		h := w.hs[op.H].Clone()
		w.hs = append(w.hs, h)
		c07expose(w, h)
		return 0, "", nil
	case "unmarshal":
		if !hOK(&op.H) {
			return c07bad, "", nil
		}
		h := w.hs[op.H]
		var err error
		func() {
			// items created before a panic stay reachable through h
			defer c07expose(w, h)
			text := []byte(*op.Text)
			err = h.UnmarshalText(text)
			for i := range text { // as above
				text[i] = '#'
			}
		}()
		return ret(err)
	case "decode":
		if !hOK(&op.H) {
			return c07bad, "", nil
		}
		b, err := w.hs[op.H].MarshalBinary()
		if err != nil {
			return c07bad, "", nil
		}
		h := &sam.Header{}
		err = h.UnmarshalBinary(b)
		if err != nil {
			return ret(err)
		}
		w.hs = append(w.hs, h)
		c07expose(w, h)
		return 0, "", nil
	case "merge":
		var src []*sam.Header
		for _, i := range op.Hs {
			if !hOK(&i) {
				return c07bad, "", nil
			}
			src = append(src, w.hs[i])
		}
		if len(src) == 0 {
			return c07bad, "", nil
		}
		h, lk, err := sam.MergeHeaders(src)
		if err != nil {
			return ret(err)
		}
		w.hs = append(w.hs, h)
		c07expose(w, h)
		for i, l := range lk {
			var row [][]interface{}
			for j, r := range l {
				listed := r.ID() >= 0 && r.ID() < len(h.Refs()) && h.Refs()[r.ID()] == r
				row = append(row, []interface{}{c07b(sam.VerifRefOwner(r) == h && listed), r.ID(), r.Name(), r.Len(),
					src[i].Refs()[j].Name(), src[i].Refs()[j].Len()})
			}
			if row == nil {
				row = [][]interface{}{}
			}
			links = append(links, row)
		}
		return 0, "", links
	}
	return c07bad, "op", nil
}
