package main

// C09: I/O faults never hang and are never swallowed by the BGZF reader or
// writer.  The doubles below inject a fault at a chosen underlying call and
// can hold a call until the controller releases it.  Hangs are recognised
// from a goroutine census (every goroutine of the case is parked on a
// channel / wait group and nothing is held by a double), never from timing:
// a parked goroutine stays parked unless another goroutine of the case moves.

import (
	"bytes"
	"compress/gzip"
	"encoding/json"
	"errors"
	"fmt"
	"io"
	"regexp"
	"runtime"
	"strconv"
	"strings"
	"sync"
	"sync/atomic"
	"time"

	"github.com/biogo/hts/bgzf"
	"github.com/biogo/hts/bgzf/cache"
)

func init() { register("c09", c09) }

var c09Fault = errors.New("c09: injected fault")

// ---------------------------------------------------------------- census

type c09g struct {
	id    int
	state string
	body  string
}

var c09hdr = regexp.MustCompile(`^goroutine (\d+) \[([^\]]*)\]:`)

func c09dump() []c09g {
	sz := 1 << 18
	var buf []byte
	for {
		buf = make([]byte, sz)
		n := runtime.Stack(buf, true)
		if n < sz {
			buf = buf[:n]
			break
		}
		sz *= 4
	}
	var gs []c09g
	for _, part := range strings.Split(string(buf), "\n\n") {
		m := c09hdr.FindStringSubmatch(part)
		if m == nil {
			continue
		}
		id, _ := strconv.Atoi(m[1])
		gs = append(gs, c09g{id: id, state: m[2], body: part})
	}
	return gs
}

func c09relevant(g c09g) bool {
	return strings.Contains(g.body, "github.com/biogo/hts/") || strings.Contains(g.body, "main.c09api(")
}

func c09lib(g c09g) bool { return strings.Contains(g.body, "github.com/biogo/hts/") }

func c09parked(g c09g) bool {
	for _, p := range []string{"chan receive", "chan send", "select"} {
		if strings.HasPrefix(g.state, p) {
			return true
		}
	}
	// semaphore waits count only when they come from package sync (the
	// runtime uses semaphores of its own, e.g. while starting a GC cycle)
	for _, p := range []string{"semacquire", "sync."} {
		if strings.HasPrefix(g.state, p) {
			lines := strings.SplitN(g.body, "\n", 3)
			return len(lines) > 1 && strings.HasPrefix(lines[1], "sync.")
		}
	}
	return false
}

// c09ctl is shared between the doubles of one case and the controller.
type c09ctl struct {
	base    map[int]bool  // goroutines that existed before the case
	held    int32         // goroutines parked inside a double
	release chan struct{} // controller -> held double
	holdAll bool
}

func (c *c09ctl) hold() {
	if !c.holdAll {
		return
	}
	atomic.AddInt32(&c.held, 1)
	<-c.release
	atomic.AddInt32(&c.held, -1)
}

func c09newctl(holdAll bool) *c09ctl {
	c := &c09ctl{base: map[int]bool{}, release: make(chan struct{}), holdAll: holdAll}
	for _, g := range c09dump() {
		c.base[g.id] = true
	}
	return c
}

// snapshot takes two censuses a little apart; the case is quiescent only when
// both find every goroutine parked in the same place.
func (c *c09ctl) snapshot() (bool, bool, int, string) {
	q1, api1, lib1, d1, s1 := c.snapshot1()
	if !q1 {
		return q1, api1, lib1, d1
	}
	h := atomic.LoadInt32(&c.held)
	runtime.Gosched()
	time.Sleep(200 * time.Microsecond)
	q2, api2, lib2, d2, s2 := c.snapshot1()
	return q2 && s1 == s2 && h == atomic.LoadInt32(&c.held), api2, lib2, d2
}

func (c *c09ctl) snapshot1() (bool, bool, int, string, string) {
	q, api, lib := true, false, 0
	var sb, sig strings.Builder
	for _, g := range c09dump() {
		if c.base[g.id] || !c09relevant(g) {
			continue
		}
		fmt.Fprintf(&sig, "%d:%s;", g.id, g.state)
		if strings.Contains(g.body, "main.c09api(") {
			api = true
		}
		if c09lib(g) {
			lib++
		}
		if !c09parked(g) {
			q = false
		}
		if sb.Len() < 6000 {
			sb.WriteString(g.body)
			sb.WriteString("\n\n")
		}
	}
	return q, api, lib, sb.String(), sig.String()
}

type c09res struct {
	Cls int    `json:"c"` // 0 nil, 1 injected fault, 2 ErrClosed, 3 io.EOF, 4 other error
	N   int    `json:"n"`
	Msg string `json:"m,omitempty"`
	Hex string `json:"d,omitempty"`
	F   int    `json:"f"` // underlying calls that had failed when the call returned
}

func c09class(err error) (int, string) {
	switch {
	case err == nil:
		return 0, ""
	case errors.Is(err, c09Fault):
		return 1, ""
	case err == bgzf.ErrClosed:
		return 2, ""
	case err == io.EOF:
		return 3, ""
	}
	return 4, err.Error()
}

func c09api(f func() c09res, done chan c09res) {
	defer func() {
		if r := recover(); r != nil {
			done <- c09res{Cls: 5, Msg: "panic: " + fmt.Sprint(r)}
		}
	}()
	done <- f()
}

// call runs one API call.  While it has not returned the controller takes a
// census; when everything of the case is parked it releases one held double,
// and when nothing is held it reports the deadlock.
func (c *c09ctl) call(f func() c09res) (c09res, bool, string) {
	done := make(chan c09res, 1)
	go c09api(f, done)
	deadline := time.Now().Add(caseTimeout / 2)
	wait := 20 * time.Microsecond
	for {
		select {
		case r := <-done:
			return r, false, ""
		case <-time.After(wait):
		}
		if wait < 2*time.Millisecond {
			wait *= 2
		}
		q, api, _, dump := c.snapshot()
		if q && api {
			if atomic.LoadInt32(&c.held) > 0 {
				c.release <- struct{}{}
				wait = 20 * time.Microsecond
				continue
			}
			select {
			case r := <-done:
				return r, false, ""
			default:
			}
			return c09res{}, true, dump
		}
		if time.Now().After(deadline) {
			return c09res{}, true, "watchdog (not quiescent)\n" + dump
		}
	}
}

// settle lets the background goroutines run until everything is parked;
// with drain, held doubles are released one at a time until none is held.
func (c *c09ctl) settle(drain bool) {
	deadline := time.Now().Add(caseTimeout / 2)
	wait := 20 * time.Microsecond
	for time.Now().Before(deadline) {
		q, _, _, _ := c.snapshot()
		if q {
			if drain && atomic.LoadInt32(&c.held) > 0 {
				c.release <- struct{}{}
				continue
			}
			return
		}
		time.Sleep(wait)
		if wait < 2*time.Millisecond {
			wait *= 2
		}
	}
}

// ---------------------------------------------------------------- writer

type c09W struct {
	ctl     *c09ctl
	k       int // index of the first failing call; <0 never
	partial bool
	trans   bool // only call k fails; later calls would succeed
	calls   int
	lens    []int
	ok      bytes.Buffer
	failed  int
	after   int // calls started after the first failure
}

func (w *c09W) Write(p []byte) (int, error) {
	i := w.calls
	w.calls++
	w.lens = append(w.lens, len(p))
	if w.failed > 0 {
		w.after++
	}
	w.ctl.hold()
	if w.k >= 0 && (i == w.k || (i > w.k && !w.trans)) {
		w.failed++
		n := 0
		if w.partial {
			n = len(p) / 2
		}
		w.ok.Write(p[:n])
		return n, c09Fault
	}
	w.ok.Write(p)
	return len(p), nil
}

type c09case struct {
	Kind    string  `json:"kind"`
	Wc      int     `json:"wc"`
	Script  [][]int `json:"script"`
	K       int     `json:"k"`
	Partial bool    `json:"partial"`
	WTrans  bool    `json:"wtrans"`
	Policy  string  `json:"policy"`
	// reader
	Rd     int     `json:"rd"`
	Cache  int     `json:"cache"`
	Blocks []int   `json:"blocks"`
	XM     int     `json:"xm"`   // member in which the fault offset lies (-1: none)
	XOff   int     `json:"xoff"` // offset within that member (clamped)
	Trans  int     `json:"trans"`
	SeekK  int     `json:"seekk"` // index of the failing Seek call of the double (-1 none)
	SeekN  int     `json:"seekn"` // how many consecutive Seek calls fail (0: one; <0: until op 3)
	Ops    [][]int `json:"ops"`
	Seeker bool    `json:"seeker"`
}

func c09pattern(block, i int) byte { return byte(block*37 + i*11 + (i>>8)*7 + 5) }

func c09writer(c c09case) interface{} {
	ctl := c09newctl(c.Policy != "free")
	w := &c09W{ctl: ctl, k: c.K, partial: c.Partial, trans: c.WTrans}
	var want []byte
	bg := bgzf.NewWriter(w, c.Wc)
	var res []c09res
	hang := -1
	dump := ""
	blk := 0
	for i, op := range c.Script {
		if c.Policy == "eager" {
			ctl.settle(true)
		}
		var f func() c09res
		switch op[0] {
		case 0:
			b := make([]byte, op[1])
			for j := range b {
				b[j] = c09pattern(blk, j)
			}
			blk++
			f = func() c09res {
				n, err := bg.Write(b)
				want = append(want, b[:n]...)
				for j := range b { // the caller recycles its buffer (io.Writer: p must not be retained)
					b[j] ^= 0xa5
				}
				cl, m := c09class(err)
				return c09res{Cls: cl, N: n, Msg: m, F: w.failed}
			}
		case 1:
			f = func() c09res { cl, m := c09class(bg.Flush()); return c09res{Cls: cl, Msg: m, F: w.failed} }
		case 2:
			f = func() c09res { cl, m := c09class(bg.Wait()); return c09res{Cls: cl, Msg: m, F: w.failed} }
		case 3:
			f = func() c09res { cl, m := c09class(bg.Close()); return c09res{Cls: cl, Msg: m, F: w.failed} }
		case 4, 5:
			// change the gzip header between calls, with every compressor idle
			ctl.settle(false)
			if op[0] == 4 {
				bg.Header.Name = "世" // not Latin-1: gzip.Writer refuses it
			} else {
				bg.Header.Name = ""
			}
			res = append(res, c09res{})
			continue
		default:
			return map[string]interface{}{"bad_case": "op"}
		}
		r, h, d := ctl.call(f)
		if h {
			hang, dump = i, d
			break
		}
		res = append(res, r)
	}
	leak := 0
	if hang < 0 {
		ctl.settle(true)
		_, _, leak, dump = ctl.snapshot()
		if leak == 0 {
			dump = ""
		}
	} else {
		// let whatever can still move finish, so that later cases start clean
		ctl.holdAll = false
		for atomic.LoadInt32(&ctl.held) > 0 {
			select {
			case ctl.release <- struct{}{}:
			case <-time.After(time.Millisecond):
			}
		}
	}
	prefixOK := true
	if hang < 0 {
		prefixOK = c09prefix(w.ok.Bytes(), want)
	}
	return map[string]interface{}{
		"prefix_ok": prefixOK,
		"res": res, "hang": hang, "leak": leak, "wcalls": w.calls, "wfailed": w.failed, "wafter": w.after,
		"wlens": w.lens, "okbytes": w.ok.Len(), "stack": dump, "stream": c09members(w.ok.Bytes()),
	}
}

// c09prefix decodes the whole members among the bytes accepted by the
// underlying writer (independently of the library: BSIZE framing + compress/gzip)
// and reports whether they hold a prefix of the data accepted by Write.
func c09prefix(out, want []byte) bool {
	off := 0
	var got []byte
	for off+18 <= len(out) {
		sz := (int(out[off+16]) | int(out[off+17])<<8) + 1
		if out[off] != 0x1f || out[off+1] != 0x8b || off+sz > len(out) {
			break
		}
		zr, err := gzip.NewReader(bytes.NewReader(out[off : off+sz]))
		if err != nil {
			return false
		}
		zr.Multistream(false)
		d, err := io.ReadAll(zr)
		if err != nil {
			return false
		}
		got = append(got, d...)
		off += sz
	}
	return bytes.HasPrefix(want, got)
}

// c09members parses the bytes accepted by the underlying writer as a sequence
// of BGZF members using BSIZE only; returns the member sizes and the number of
// trailing bytes that do not form a whole member.
func c09members(b []byte) map[string]interface{} {
	var sizes []int
	off := 0
	for off+18 <= len(b) {
		if b[off] != 0x1f || b[off+1] != 0x8b {
			break
		}
		sz := int(b[off+16]) | int(b[off+17])<<8
		sz++
		if off+sz > len(b) {
			break
		}
		sizes = append(sizes, sz)
		off += sz
	}
	return map[string]interface{}{"sizes": sizes, "tail": len(b) - off}
}

// ---------------------------------------------------------------- reader

type c09R struct {
	ctl    *c09ctl
	data   []byte
	pos    int64
	x      int64 // reads reaching offset >= x fail after delivering the bytes below x; <0 never
	trans  int   // number of failing calls before the source recovers; 0 = forever
	fails  int
	seekK  int
	seekN  int  // number of consecutive failing Seek calls from seekK on (0: one; <0: until recovered)
	sfails int
	recov  bool // the seeker works again
	seeks  int
	reads  int
	holdAt bool
}

func (r *c09R) faulty() bool {
	return r.x >= 0 && (r.trans == 0 || r.fails < r.trans)
}

func (r *c09R) Read(p []byte) (int, error) {
	r.reads++
	if len(p) == 0 {
		return 0, nil
	}
	if r.faulty() && r.pos+int64(len(p)) > r.x {
		if r.pos >= r.x {
			r.ctl.hold()
			r.fails++
			return 0, c09Fault
		}
		p = p[:r.x-r.pos]
	}
	if r.pos >= int64(len(r.data)) {
		return 0, io.EOF
	}
	n := copy(p, r.data[r.pos:])
	r.pos += int64(n)
	return n, nil
}

type c09RS struct{ *c09R }

func (r c09RS) Seek(off int64, whence int) (int64, error) {
	i := r.seeks
	r.seeks++
	if r.seekK >= 0 && i >= r.seekK && !r.recov {
		n := r.seekN
		if n == 0 {
			n = 1
		}
		if n < 0 || i < r.seekK+n {
			r.sfails++
			return 0, c09Fault
		}
	}
	np := off
	switch whence {
	case 1:
		np = r.pos + off
	case 2:
		np = int64(len(r.data)) + off
	}
	if np < 0 {
		return 0, errors.New("c09: negative position")
	}
	r.pos = np
	return r.pos, nil
}

func c09file(blocks []int) ([]byte, []int) {
	var buf bytes.Buffer
	w := bgzf.NewWriter(&buf, 1)
	for i, n := range blocks {
		b := make([]byte, n)
		for j := range b {
			b[j] = c09pattern(i, j)
		}
		w.Write(b)
		w.Flush()
		w.Wait()
	}
	w.Close()
	file := buf.Bytes()
	var offs []int
	off := 0
	for off+18 <= len(file) {
		offs = append(offs, off)
		off += (int(file[off+16]) | int(file[off+17])<<8) + 1
	}
	offs = append(offs, off)
	return file, offs
}

func c09reader(c c09case) interface{} {
	file, offs := c09file(c.Blocks)
	nm := len(offs) - 1 // members incl. the empty ones written by Close
	x := int64(-1)
	if c.XM >= 0 && c.XM < nm {
		sz := offs[c.XM+1] - offs[c.XM]
		o := c.XOff
		if o >= sz {
			o = sz - 1
		}
		x = int64(offs[c.XM] + o)
	}
	ctl := c09newctl(false)
	src := &c09R{ctl: ctl, data: file, x: x, trans: c.Trans, seekK: c.SeekK, seekN: c.SeekN}
	var rd io.Reader = src
	if c.Seeker {
		rd = c09RS{src}
	}
	out := map[string]interface{}{"offs": offs, "x": x}
	var bg *bgzf.Reader
	r0, h, d := ctl.call(func() c09res {
		var err error
		bg, err = bgzf.NewReader(rd, c.Rd)
		cl, m := c09class(err)
		return c09res{Cls: cl, Msg: m}
	})
	out["open"] = r0
	hang := -1
	var res []c09res
	if h {
		hang = 0
		out["stack"] = d
	} else if r0.Cls == 0 {
		switch c.Cache {
		case 1:
			bg.SetCache(cache.NewLRU(2))
		case 2:
			bg.SetCache(cache.NewFIFO(2))
		case 3:
			bg.SetCache(cache.NewRandom(2))
		}
		for i, op := range c.Ops {
			var f func() c09res
			switch op[0] {
			case 0:
				p := make([]byte, op[1])
				f = func() c09res {
					n, err := bg.Read(p)
					cl, m := c09class(err)
					return c09res{Cls: cl, N: n, Msg: m, Hex: fmt.Sprintf("%x", p[:n])}
				}
			case 1:
				m := op[1]
				if m >= nm {
					m = nm - 1
				}
				o := bgzf.Offset{File: int64(offs[m]), Block: uint16(op[2])}
				f = func() c09res { cl, msg := c09class(bg.Seek(o)); return c09res{Cls: cl, Msg: msg} }
			case 2:
				f = func() c09res { cl, msg := c09class(bg.Close()); return c09res{Cls: cl, Msg: msg} }
			case 3:
				// not an API call: the underlying seeker recovers (between calls, everything parked)
				ctl.settle(false)
				src.recov = true
				res = append(res, c09res{})
				continue
			default:
				return map[string]interface{}{"bad_case": "op"}
			}
			r, h, d := ctl.call(f)
			if h {
				hang = i + 1
				out["stack"] = d
				break
			}
			res = append(res, r)
		}
	}
	leak := 0
	if hang < 0 {
		ctl.settle(true)
		var dump string
		_, _, leak, dump = ctl.snapshot()
		if leak > 0 {
			out["stack"] = dump
		}
	}
	out["res"] = res
	out["hang"] = hang
	out["leak"] = leak
	out["reads"] = src.reads
	out["seeks"] = src.seeks
	out["fails"] = src.fails
	out["sfails"] = src.sfails
	return out
}

func c09(raw json.RawMessage) interface{} {
	var c c09case
	c.K, c.XM, c.SeekK = -1, -1, -1
	if err := json.Unmarshal(raw, &c); err != nil {
		return map[string]interface{}{"bad_case": err.Error()}
	}
	var mu sync.Mutex
	mu.Lock()
	defer mu.Unlock()
	switch c.Kind {
	case "w":
		return c09writer(c)
	case "r":
		return c09reader(c)
	}
	return map[string]interface{}{"bad_case": "kind"}
}
