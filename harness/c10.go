package main

// C10: truncated or corrupted streams are never read as different valid data.
// One case carries a workload (a small closed BGZF or BAM stream built with
// the library's writer) and a list of mutations (truncation length, or
// position+value substitution); every mutated stream is read with the library
// and the projected observation is returned.

import (
	"bytes"
	"compress/gzip"
	"encoding/binary"
	"encoding/hex"
	"encoding/json"
	"fmt"
	"io"

	"github.com/biogo/hts/bam"
	"github.com/biogo/hts/bgzf"
	"github.com/biogo/hts/sam"
)

func init() { register("c10", c10) }

type c10case struct {
	Kind   string  `json:"kind"` // "bgzf" | "bam"
	Blocks [][]int `json:"blocks"` // bgzf: per Write+Flush the data (empty list = Flush without data)
	Level  int     `json:"level"`
	Wc     int     `json:"wc"`
	Split  []int   `json:"split"` // bam: re-block the uncompressed stream with a Flush at these offsets (negative: relative to the start of the last record)
	Recs   []int   `json:"recs"`  // bam: per record the sequence length; negative = Flush after the record
	Rd     int     `json:"rd"`
	Muts   [][]int `json:"muts"` // [0, n] truncate to n bytes; [1, pos, val] substitute
	Full   bool    `json:"full"` // return the bytes read
	Reseek bool    `json:"reseek"`
	Raw    [][]int `json:"raw"` // bgzf: members framed by hand, [payload length, seed] each (lengths up to 65536, which bgzf.Writer never produces), then the EOF marker
}

type c10obs struct {
	N     int    `json:"n"`             // bytes (bgzf) or records (bam) returned before the end
	Pre   bool   `json:"pre"`           // what was returned is a prefix of the original
	Eq    bool   `json:"eq"`            // ... is exactly the original
	E     int    `json:"e"`             // 0 clean end, 1 error, 2 panic
	Msg   string `json:"m,omitempty"`
	EOF   int    `json:"eof"`           // HasEOF: 1 true, 0 false, -1 error
	D     string `json:"d,omitempty"`
	Stale bool   `json:"stale,omitempty"` // after an error, Seek to the failing block and Read returned data
}

func c10buildBgzf(c c10case) ([]byte, []byte) {
	if c.Raw != nil {
		f, err := c02Build(c.Raw, nil, true)
		if err != nil {
			panic(err)
		}
		var orig []byte
		for _, m := range c.Raw {
			orig = append(orig, c02Data(m[0], m[1])...)
		}
		return f.raw, orig
	}
	var buf bytes.Buffer
	w, err := bgzf.NewWriterLevel(&buf, c.Level, c.Wc)
	if err != nil {
		panic(err)
	}
	var orig []byte
	for _, b := range c.Blocks {
		d := bytesOf(b)
		if len(b) == 3 && b[0] > 255 {
			// [n, seed, period]: n bytes of a periodic pattern
			d = make([]byte, b[0])
			for j := range d {
				d[j] = byte(b[1]*29 + (j%b[2])*7 + j/b[2]/64)
			}
		}
		orig = append(orig, d...)
		w.Write(d)
		w.Flush()
		w.Wait()
	}
	w.Close()
	return buf.Bytes(), orig
}

func c10buildBam(c c10case) ([]byte, []string) {
	var buf bytes.Buffer
	ref, _ := sam.NewReference("chr1", "", "", 1000, nil, nil)
	h, _ := sam.NewHeader(nil, []*sam.Reference{ref})
	bgw, err := bgzf.NewWriterLevel(&buf, c.Level, c.Wc)
	if err != nil {
		panic(err)
	}
	w, err := bam.NewWriter(bgw, h, c.Wc)
	if err != nil {
		panic(err)
	}
	var want []string
	for i, n := range c.Recs {
		flush := n < 0
		if flush {
			n = -n
		}
		seq := make([]byte, n)
		qual := make([]byte, n)
		for j := range seq {
			seq[j] = "ACGT"[(i+j)%4]
			qual[j] = byte(20 + (i+j)%20)
		}
		r, err := sam.NewRecord(fmt.Sprintf("r%d", i), ref, nil, 10+i, -1, 0, 30, []sam.CigarOp{sam.NewCigarOp(sam.CigarMatch, n)}, seq, qual, nil)
		if err != nil {
			panic(err)
		}
		if err := w.Write(r); err != nil {
			panic(err)
		}
		t, _ := r.MarshalSAM(sam.FlagDecimal)
		want = append(want, string(t))
		if flush {
			bgw.Flush()
			bgw.Wait()
		}
	}
	w.Close()
	bgw.Close()
	if len(c.Split) == 0 {
		return buf.Bytes(), want
	}
	// Same BAM data, other block boundaries: decompress (compress/gzip,
	// multistream) and write again with a Flush at each requested offset.
	zr, err := gzip.NewReader(bytes.NewReader(buf.Bytes()))
	if err != nil {
		panic(err)
	}
	flat, err := io.ReadAll(zr)
	if err != nil {
		panic(err)
	}
	lay := c10layout(buf.Bytes(), true)
	recb := lay["recbounds"].([]int)
	lastStart := recb[len(recb)-2]
	var out bytes.Buffer
	w2, _ := bgzf.NewWriterLevel(&out, c.Level, c.Wc)
	prev := 0
	for _, sp := range c.Split {
		if sp < 0 {
			sp = lastStart - sp
		}
		if sp <= prev || sp >= len(flat) {
			continue
		}
		w2.Write(flat[prev:sp])
		w2.Flush()
		w2.Wait()
		prev = sp
	}
	w2.Write(flat[prev:])
	w2.Close()
	return out.Bytes(), want
}

func c10mutate(stream []byte, m []int) []byte {
	if m[0] == 0 {
		n := m[1]
		if n > len(stream) {
			n = len(stream)
		}
		return append([]byte(nil), stream[:n]...)
	}
	b := append([]byte(nil), stream...)
	if m[1] < len(b) {
		b[m[1]] = byte(m[2])
	}
	return b
}

func c10hasEOF(b []byte) int {
	ok, err := bgzf.HasEOF(bytes.NewReader(b))
	if err != nil {
		return -1
	}
	if ok {
		return 1
	}
	return 0
}

func c10readBgzf(b, orig []byte, rd int, full, reseek bool) (o c10obs) {
	defer func() {
		if r := recover(); r != nil {
			o.E, o.Msg = 2, fmt.Sprint(r)
		}
	}()
	o.EOF = c10hasEOF(b)
	r, err := bgzf.NewReader(sourceFor(b), rd)
	var got []byte
	if err == nil {
		defer r.Close()
		buf := make([]byte, 97)
		for {
			var n int
			n, err = r.Read(buf)
			got = append(got, buf[:n]...)
			if err != nil {
				break
			}
			if len(got) > 1<<22 {
				err = fmt.Errorf("runaway")
				break
			}
		}
		if reseek && err != io.EOF && rd == 1 {
			// position of the block that failed, as the reader reports it
			off := r.LastChunk().End
			if e2 := r.Seek(bgzf.Offset{File: off.File}); e2 == nil {
				n, _ := r.Read(buf)
				if n > 0 {
					o.Stale = true
				}
			}
		}
	}
	o.N = len(got)
	o.Pre = bytes.HasPrefix(orig, got)
	o.Eq = bytes.Equal(orig, got)
	if err != io.EOF {
		o.E = 1
		if err != nil {
			o.Msg = err.Error()
		}
	}
	if full {
		o.D = hex.EncodeToString(got)
	}
	return o
}

func c10readBam(b []byte, want []string, hdr string, rd int) (o c10obs) {
	defer func() {
		if r := recover(); r != nil {
			o.E, o.Msg = 2, fmt.Sprint(r)
		}
	}()
	o.EOF = c10hasEOF(b)
	r, err := bam.NewReader(sourceFor(b), rd)
	n := 0
	o.Pre = true
	if err == nil {
		defer r.Close()
		ht, _ := r.Header().MarshalText()
		if string(ht) != hdr {
			o.Pre = false
		}
		for {
			var rec *sam.Record
			rec, err = r.Read()
			if err != nil {
				break
			}
			t, _ := rec.MarshalSAM(sam.FlagDecimal)
			if n >= len(want) || string(t) != want[n] {
				o.Pre = false
			}
			n++
			if n > 10000 {
				err = fmt.Errorf("runaway")
				break
			}
		}
	} else if err == io.EOF {
		// nothing could be read at all: an empty stream
		n = -1
	}
	o.N = n
	o.Eq = o.Pre && n == len(want)
	if err != io.EOF {
		o.E = 1
		if err != nil {
			o.Msg = err.Error()
		}
	}
	return o
}

// c10layout parses the untouched stream with BSIZE framing and compress/gzip
// (not with the library): member offsets, the uncompressed offset at each
// member start, and for BAM the uncompressed offsets at which the header and
// each record end (from the SAM specification's layout).
func c10layout(stream []byte, isBam bool) map[string]interface{} {
	var bounds, ubounds []int
	var flat []byte
	off := 0
	for off+18 <= len(stream) {
		bounds = append(bounds, off)
		ubounds = append(ubounds, len(flat))
		sz := (int(stream[off+16]) | int(stream[off+17])<<8) + 1
		zr, err := gzip.NewReader(bytes.NewReader(stream[off : off+sz]))
		if err != nil {
			break
		}
		d, _ := io.ReadAll(zr)
		flat = append(flat, d...)
		off += sz
	}
	bounds = append(bounds, off)
	ubounds = append(ubounds, len(flat))
	out := map[string]interface{}{"bounds": bounds, "ubounds": ubounds}
	if isBam && len(flat) >= 12 {
		var recb []int
		p := 4
		lt := int(binary.LittleEndian.Uint32(flat[p:]))
		p += 4 + lt
		nref := int(binary.LittleEndian.Uint32(flat[p:]))
		p += 4
		for i := 0; i < nref; i++ {
			ln := int(binary.LittleEndian.Uint32(flat[p:]))
			p += 4 + ln + 4
		}
		recb = append(recb, p)
		for p+4 <= len(flat) {
			bs := int(binary.LittleEndian.Uint32(flat[p:]))
			p += 4 + bs
			recb = append(recb, p)
		}
		out["recbounds"] = recb
	}
	return out
}

func c10(raw json.RawMessage) interface{} {
	var c c10case
	if err := json.Unmarshal(raw, &c); err != nil {
		return map[string]interface{}{"bad_case": err.Error()}
	}
	var stream, orig []byte
	var want []string
	hdr := ""
	if c.Kind == "bam" {
		stream, want = c10buildBam(c)
		r, err := bam.NewReader(bytes.NewReader(stream), 1)
		if err != nil {
			return map[string]interface{}{"bad_case": err.Error()}
		}
		ht, _ := r.Header().MarshalText()
		hdr = string(ht)
	} else {
		stream, orig = c10buildBgzf(c)
	}
	out := c10layout(stream, c.Kind == "bam")
	out["len"] = len(stream)
	out["norig"] = len(orig)
	if c.Kind == "bam" {
		out["norig"] = len(want)
	}
	if c.Full || len(c.Muts) == 0 {
		out["stream"] = ints(stream)
		out["orig"] = ints(orig)
	}
	obs := make([]c10obs, 0, len(c.Muts))
	for _, m := range c.Muts {
		b := c10mutate(stream, m)
		if c.Kind == "bam" {
			obs = append(obs, c10readBam(b, want, hdr, c.Rd))
		} else {
			obs = append(obs, c10readBgzf(b, orig, c.Rd, c.Full, c.Reseek))
		}
	}
	out["obs"] = obs
	return out
}
