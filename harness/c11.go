package main

// C11 — decoders are total. Every case names a decoder ("op") and carries the
// input bytes in hex; the decoder call runs under the recover()/watchdog of
// main.go, every accessor / formatter / writer / index builder that is applied
// to a returned value ("post") runs under its own recover() so that the
// observation says which one panicked.

import (
	"bytes"
	"encoding/hex"
	"encoding/json"
	"fmt"
	"io"
	"os"
	"strings"
	"sync/atomic"
	"time"

	"github.com/biogo/hts/bam"
	"github.com/biogo/hts/bgzf"
	"github.com/biogo/hts/bgzf/cache"
	"github.com/biogo/hts/bgzf/index"
	"github.com/biogo/hts/cram"
	"github.com/biogo/hts/csi"
	"github.com/biogo/hts/fai"
	"github.com/biogo/hts/sam"
	"github.com/biogo/hts/tabix"
)

func init() {
	register("c11", c11)
	if d, err := time.ParseDuration(os.Getenv("VERIF_POST_TIMEOUT")); err == nil && d > 0 {
		c11postTimeout = d
	}
}

type c11case struct {
	Op   string `json:"op"`
	X    string `json:"x"`    // input bytes, hex
	H    string `json:"h"`    // SAM header text for ops that take one, hex
	Omit int    `json:"omit"` // bam.Reader.Omit
	Rd   int    `json:"rd"`   // bgzf read concurrency
	Ops  [][]int64 `json:"ops"`  // bgzfops: [0, file, block] = Seek, [1, n] = Read of n bytes
	Cache int   `json:"cache"` // bgzfops: 0 none, 1 LRU(2), 2 FIFO(2), 3 Random(2)
	N    int    `json:"n"`    // small integer parameter (sequence length for IsValid, ...)
}

type c11post struct {
	Name string `json:"name"`
	R    string `json:"r"`
}

// c11busy is set while a case runs. main.go abandons a hung case but its
// goroutine keeps running; the next case then finds the flag set and ends the
// process so that the driver restarts the harness with the remaining cases.
var c11busy int32

var c11postTimeout = 15 * time.Second

// c11try runs f under recover() and a watchdog.
func c11try(posts *[]c11post, name string, f func()) bool {
	done := make(chan string, 1)
	go func() {
		defer func() {
			if r := recover(); r != nil {
				done <- "panic: " + c11short(fmt.Sprint(r))
			}
		}()
		f()
		done <- "ok"
	}()
	select {
	case r := <-done:
		*posts = append(*posts, c11post{name, r})
		return r == "ok"
	case <-time.After(c11postTimeout):
		*posts = append(*posts, c11post{name, "hang"})
		atomic.StoreInt32(&c11busy, 2)
		return false
	}
}

func c11short(s string) string {
	if len(s) > 160 {
		s = s[:160]
	}
	return s
}

func c11cls(err error) string {
	if err == nil {
		return "ok"
	}
	return "err"
}

func c11errs(err error) string {
	if err == nil {
		return ""
	}
	return c11short(err.Error())
}

func c11(raw json.RawMessage) interface{} {
	if atomic.LoadInt32(&c11busy) != 0 {
		os.Stdout.Sync()
		os.Exit(3)
	}
	atomic.StoreInt32(&c11busy, 1)
	var c c11case
	if err := json.Unmarshal(raw, &c); err != nil {
		atomic.StoreInt32(&c11busy, 0)
		return map[string]interface{}{"bad_case": err.Error()}
	}
	x, err := hex.DecodeString(c.X)
	if err != nil {
		atomic.StoreInt32(&c11busy, 0)
		return map[string]interface{}{"bad_case": err.Error()}
	}
	// also runs while a decoder panic unwinds; a hung decoder never gets here
	defer atomic.CompareAndSwapInt32(&c11busy, 1, 0)
	return c11run(&c, x)
}

func c11run(c *c11case, x []byte) map[string]interface{} {
	posts := []c11post{}
	o := map[string]interface{}{}
	switch c.Op {
	case "optype":
		// table lookups of CigarOpType for the type byte x[0]
		t := sam.CigarOpType(x[0])
		var con sam.Consume
		var s string
		c11try(&posts, "Consumes", func() { con = t.Consumes() })
		c11try(&posts, "String", func() { s = t.String() })
		o["cls"] = "ok"
		o["q"], o["r"], o["s"] = con.Query, con.Reference, s
	case "cigar":
		cg, err := sam.ParseCigar(x)
		o["cls"], o["err"] = c11cls(err), c11errs(err)
		if err == nil {
			ops := make([]uint32, len(cg))
			for i, co := range cg {
				ops[i] = uint32(co)
			}
			if len(ops) > 64 {
				ops = ops[:64]
			}
			o["nops"] = len(cg)
			o["ops"] = ops
			c11postCigar(&posts, cg, c.N)
		}
	case "cigarops":
		// a binary CIGAR (4 bytes per op, as in a BAM record) on a mapped record
		cg := make(sam.Cigar, len(x)/4)
		for i := range cg {
			cg[i] = sam.CigarOp(uint32(x[4*i]) | uint32(x[4*i+1])<<8 | uint32(x[4*i+2])<<16 | uint32(x[4*i+3])<<24)
		}
		o["cls"] = "ok"
		c11postCigar(&posts, cg, c.N)
		rec := &sam.Record{Name: "r", Pos: c.N, Cigar: cg}
		var end int
		if c11try(&posts, "End", func() { end = rec.End() }) {
			o["end"] = end
		}
	case "aux":
		a, err := sam.ParseAux(x)
		o["cls"], o["err"] = c11cls(err), c11errs(err)
		if err == nil {
			o["aux"] = hex.EncodeToString(a)
			c11postAux(&posts, "", a)
		}
	case "auxval":
		// accessors on raw Aux bytes (as bam.parseAux hands them out)
		o["cls"] = "ok"
		c11postAux(&posts, "", sam.Aux(x))
	case "hdrtext":
		var h sam.Header
		err := h.UnmarshalText(x)
		o["cls"], o["err"] = c11cls(err), c11errs(err)
		if err == nil {
			o["nref"], o["nrg"], o["npg"], o["nco"] = len(h.Refs()), len(h.RGs()), len(h.Progs()), len(h.Comments)
			c11postHeader(&posts, &h)
		}
	case "hdrbin":
		h, _ := sam.NewHeader(nil, nil)
		err := h.DecodeBinary(bytes.NewReader(x))
		o["cls"], o["err"] = c11cls(err), c11errs(err)
		if err == nil {
			o["nref"] = len(h.Refs())
			c11postHeader(&posts, h)
		}
	case "samrec":
		var h *sam.Header
		if c.H != "" {
			ht, _ := hex.DecodeString(c.H)
			var err error
			h, err = sam.NewHeader(ht, nil)
			if err != nil {
				return map[string]interface{}{"bad_case": "header: " + err.Error()}
			}
		}
		var rec sam.Record
		err := rec.UnmarshalSAM(h, x)
		o["cls"], o["err"] = c11cls(err), c11errs(err)
		if err == nil {
			o["rec"] = c11recSummary(&rec)
			c11postRecord(&posts, &rec, h)
		}
	case "samreader":
		r, err := sam.NewReader(bytes.NewReader(x))
		o["cls"], o["err"] = c11cls(err), c11errs(err)
		if err != nil {
			break
		}
		c11postHeader(&posts, r.Header())
		var recs []interface{}
		for i := 0; i < 64; i++ {
			rec, err := r.Read()
			if err != nil {
				if err == io.EOF {
					o["final"] = "eof"
				} else {
					o["final"] = "err"
					o["err"] = c11errs(err)
				}
				break
			}
			recs = append(recs, c11recSummary(rec))
			c11postRecord(&posts, rec, r.Header())
		}
		o["recs"] = recs
	case "bam":
		// x is the uncompressed BAM stream; it is wrapped into BGZF here.
		var buf bytes.Buffer
		w := bgzf.NewWriter(&buf, 1)
		w.Write(x)
		w.Close()
		rd := c.Rd
		if rd == 0 {
			rd = 1
		}
		r, err := bam.NewReader(&buf, rd)
		o["cls"], o["err"] = c11cls(err), c11errs(err)
		if err != nil {
			break
		}
		defer r.Close()
		r.Omit(c.Omit)
		o["nref"] = len(r.Header().Refs())
		c11postHeader(&posts, r.Header())
		var recs []interface{}
		for i := 0; i < 64; i++ {
			rec, err := r.Read()
			if err != nil {
				if err == io.EOF {
					o["final"] = "eof"
				} else {
					o["final"] = "err"
					o["err"] = c11errs(err)
				}
				break
			}
			recs = append(recs, c11recSummary(rec))
			c11postRecord(&posts, rec, r.Header())
		}
		o["recs"] = recs
	case "bgzf":
		rd := c.Rd
		if rd == 0 {
			rd = 1
		}
		r, err := bgzf.NewReader(bytes.NewReader(x), rd)
		o["cls"], o["err"] = c11cls(err), c11errs(err)
		if err != nil {
			break
		}
		defer r.Close()
		tmp := make([]byte, 1024)
		total := 0
		for total < 1<<24 {
			n, err := r.Read(tmp)
			total += n
			if err != nil {
				if err == io.EOF {
					o["final"] = "eof"
				} else {
					o["final"] = "err"
					o["err"] = c11errs(err)
				}
				break
			}
		}
		o["total"] = total
	case "bai":
		idx, err := bam.ReadIndex(bytes.NewReader(x))
		o["cls"], o["err"] = c11cls(err), c11errs(err)
		if err == nil {
			o["nil"] = idx == nil
			var n int
			if c11try(&posts, "NumRefs", func() { n = idx.NumRefs() }) {
				o["nref"] = n
			}
			c11try(&posts, "Unmapped", func() { idx.Unmapped() })
			c11try(&posts, "WriteIndex", func() { bam.WriteIndex(io.Discard, idx) })
			c11try(&posts, "MergeChunks", func() { idx.MergeChunks(index.Adjacent) })
			c11try(&posts, "WriteIndex2", func() { bam.WriteIndex(io.Discard, idx) })
			if n > 0 {
				refs := make([]*sam.Reference, 0, 2)
				for i := 0; i < n && i < 2; i++ {
					rf, _ := sam.NewReference(fmt.Sprintf("r%d", i), "", "", 1<<29-1, nil, nil)
					refs = append(refs, rf)
				}
				sam.NewHeader(nil, refs)
				for i, rf := range refs {
					rf := rf
					c11try(&posts, "ReferenceStats", func() { idx.ReferenceStats(i) })
					for _, q := range c11queries {
						q := q
						c11try(&posts, fmt.Sprintf("Chunks(%d,%d)", q[0], q[1]), func() { idx.Chunks(rf, q[0], q[1]) })
					}
				}
			}
		}
	case "csi":
		idx, err := csi.ReadFrom(bytes.NewReader(x))
		o["cls"], o["err"] = c11cls(err), c11errs(err)
		if err == nil {
			var n int
			if c11try(&posts, "NumRefs", func() { n = idx.NumRefs() }) {
				o["nref"] = n
			}
			c11try(&posts, "Unmapped", func() { idx.Unmapped() })
			c11try(&posts, "WriteTo", func() { csi.WriteTo(io.Discard, idx) })
			ok := true
			for i := 0; i < n && i < 2 && ok; i++ {
				i := i
				c11try(&posts, "ReferenceStats", func() { idx.ReferenceStats(i) })
				for _, q := range c11queriesCsi {
					q := q
					ok = ok && c11try(&posts, fmt.Sprintf("Chunks(%d,%d)", q[0], q[1]), func() { idx.Chunks(i, q[0], q[1]) })
				}
			}
			if ok {
				c11try(&posts, "MergeChunks", func() { idx.MergeChunks(index.Adjacent) })
				c11try(&posts, "WriteTo2", func() { csi.WriteTo(io.Discard, idx) })
			}
		}
	case "tbi":
		idx, err := tabix.ReadFrom(bytes.NewReader(x))
		o["cls"], o["err"] = c11cls(err), c11errs(err)
		if err == nil {
			o["nil"] = idx == nil
			var names []string
			if c11try(&posts, "Names", func() { names = idx.Names() }) {
				o["nnames"] = len(names)
			}
			c11try(&posts, "NumRefs", func() { idx.NumRefs() })
			c11try(&posts, "IDs", func() { idx.IDs() })
			c11try(&posts, "Unmapped", func() { idx.Unmapped() })
			c11try(&posts, "WriteTo", func() { tabix.WriteTo(io.Discard, idx) })
			for i, nm := range names {
				if i >= 2 {
					break
				}
				i, nm := i, nm
				c11try(&posts, "ReferenceStats", func() { idx.ReferenceStats(i) })
				for _, q := range c11queries {
					q := q
					c11try(&posts, fmt.Sprintf("Chunks(%d,%d)", q[0], q[1]), func() { idx.Chunks(nm, q[0], q[1]) })
				}
			}
			c11try(&posts, "MergeChunks", func() { idx.MergeChunks(index.Adjacent) })
			c11try(&posts, "WriteTo2", func() { tabix.WriteTo(io.Discard, idx) })
		}
	case "fai":
		idx, err := fai.ReadFrom(bytes.NewReader(x))
		o["cls"], o["err"] = c11cls(err), c11errs(err)
		if err == nil {
			o["n"] = len(idx)
			c11postFai(&posts, idx, x)
		}
	case "fasta":
		idx, err := fai.NewIndex(bytes.NewReader(x))
		o["cls"], o["err"] = c11cls(err), c11errs(err)
		if err == nil {
			o["n"] = len(idx)
			c11postFai(&posts, idx, x)
		}
	case "cram":
		r, err := cram.NewReader(bytes.NewReader(x))
		o["cls"], o["err"] = c11cls(err), c11errs(err)
		if err != nil {
			break
		}
		nc, nb := 0, 0
		var kinds []string
		for nc < 32 && r.Next() {
			nc++
			ct := r.Container()
			for nb < 256 && ct.Next() {
				nb++
				b := ct.Block()
				var v interface{}
				var verr error
				if c11try(&posts, "Block.Value", func() { v, verr = b.Value() }) {
					kinds = append(kinds, fmt.Sprintf("%T/%s", v, c11cls(verr)))
					if h, ok := v.(*sam.Header); ok && verr == nil {
						c11postHeader(&posts, h)
					}
				}
			}
			c11try(&posts, "Container.Err", func() { ct.Err() })
		}
		o["containers"], o["blocks"], o["kinds"] = nc, nb, kinds
		o["final"] = c11cls(r.Err())
		o["err"] = c11errs(r.Err())
	case "bgzfops":
		// a short history of Seek / Read calls on one reader over a seekable source; every call is
		// observed on its own (value / error / panic / hang); the history ends at the first panic or hang
		rd := c.Rd
		if rd == 0 {
			rd = 1
		}
		r, err := bgzf.NewReader(bytes.NewReader(x), rd)
		o["cls"], o["err"] = c11cls(err), c11errs(err)
		if err != nil {
			break
		}
		defer r.Close()
		switch c.Cache {
		case 1:
			r.SetCache(cache.NewLRU(2))
		case 2:
			r.SetCache(cache.NewFIFO(2))
		case 3:
			r.SetCache(cache.NewRandom(2))
		}
		var calls []string
		for k, op := range c.Ops {
			op := op
			var res string
			name := fmt.Sprintf("call%d", k)
			ok := c11try(&posts, name, func() {
				if op[0] == 0 {
					e := r.Seek(bgzf.Offset{File: op[1], Block: uint16(op[2])})
					res = "seek:" + c11cls(e)
				} else {
					buf := make([]byte, op[1])
					n, e := io.ReadFull(r, buf)
					res = fmt.Sprintf("read:%s:%d", c11cls(e), n)
				}
			})
			if !ok {
				calls = append(calls, posts[len(posts)-1].R)
				break
			}
			calls = append(calls, res)
		}
		o["calls"] = calls
	case "itf8slice":
		// errorReader.itf8slice through the verif hook of package cram
		vs, err := cram.VerifReadITF8Slice(bytes.NewReader(x))
		o["cls"], o["err"] = c11cls(err), c11errs(err)
		o["n"] = len(vs)
	default:
		return map[string]interface{}{"bad_case": "op"}
	}
	o["post"] = posts
	return o
}

// c11queries are the intervals every index is asked for: ordinary, empty, reversed, negative, beyond the geometry.
var c11queries = [][2]int{{0, 1 << 20}, {100000, 100001}, {0, 0}, {5, 5}, {100, 50}, {-1, 10}, {-20000, 10}, {0, 1 << 40}, {1 << 35, 1 << 36}, {1<<29 - 1, 1 << 29}}

// c11queriesCsi: a CSI geometry can be 2^41 positions deep, where an interval of 2^40 positions legitimately
// lists 2^26 bins of the finest level; the far-away intervals are therefore short.
var c11queriesCsi = [][2]int{{0, 1 << 20}, {100000, 100001}, {0, 0}, {5, 5}, {100, 50}, {-1, 10}, {-20000, 10}, {1 << 40, 1<<40 + 10}, {1<<62 - 5, 1 << 62}, {1<<29 - 1, 1 << 29}}

func c11postCigar(posts *[]c11post, cg sam.Cigar, n int) {
	c11try(posts, "Cigar.String", func() { _ = cg.String() })
	c11try(posts, "Cigar.IsValid", func() { cg.IsValid(n) })
	c11try(posts, "Cigar.Lengths", func() { cg.Lengths() })
}

func c11postAux(posts *[]c11post, pre string, a sam.Aux) {
	c11try(posts, pre+"Aux.Tag", func() { a.Tag() })
	c11try(posts, pre+"Aux.Type", func() { a.Type() })
	c11try(posts, pre+"Aux.Kind", func() { a.Kind() })
	c11try(posts, pre+"Aux.Value", func() { a.Value() })
	c11try(posts, pre+"Aux.String", func() { _ = a.String() })
}

func c11postHeader(posts *[]c11post, h *sam.Header) {
	var text []byte
	c11try(posts, "Header.MarshalText", func() { text, _ = h.MarshalText() })
	c11try(posts, "Header.MarshalBinary", func() { h.MarshalBinary() })
	c11try(posts, "Header.Clone", func() { h.Clone() })
	c11try(posts, "Header.Tags", func() { h.Tags(func(sam.Tag, string) {}) })
	c11try(posts, "Header.refs", func() {
		for _, r := range h.Refs() {
			_ = r.String()
			r.Tags(func(sam.Tag, string) {})
			_, _, _, _, _, _ = r.ID(), r.Name(), r.Len(), r.MD5(), r.URI(), r.Clone()
		}
		for _, r := range h.RGs() {
			_ = r.String()
			r.Tags(func(sam.Tag, string) {})
			_, _, _ = r.ID(), r.Name(), r.Clone()
		}
		for _, r := range h.Progs() {
			_ = r.String()
			r.Tags(func(sam.Tag, string) {})
			_, _, _ = r.ID(), r.UID(), r.Clone()
		}
	})
	if text != nil {
		c11try(posts, "Header.reparse", func() {
			var h2 sam.Header
			h2.UnmarshalText(text)
		})
	}
}

func c11recSummary(r *sam.Record) map[string]interface{} {
	al := make([]int, len(r.AuxFields))
	for i, a := range r.AuxFields {
		al[i] = len(a)
	}
	return map[string]interface{}{
		"name": len(r.Name), "ref": r.Ref.ID(), "pos": r.Pos, "mapq": r.MapQ, "ncig": len(r.Cigar), "flags": int(r.Flags),
		"mref": r.MateRef.ID(), "mpos": r.MatePos, "tlen": r.TempLen, "lseq": r.Seq.Length, "nseq": len(r.Seq.Seq), "nqual": len(r.Qual), "aux": al,
	}
}

func c11postRecord(posts *[]c11post, r *sam.Record, h *sam.Header) {
	c11try(posts, "Record.End", func() { r.End() })
	c11try(posts, "Record.Bin", func() { r.Bin() })
	c11try(posts, "Record.Len", func() { r.Len() })
	c11try(posts, "Record.misc", func() { _, _, _, _ = r.Start(), r.Strand(), r.RefID(), sam.IsValidRecord(r) })
	c11postCigar(posts, r.Cigar, r.Seq.Length)
	c11try(posts, "Seq.Expand", func() { r.Seq.Expand() })
	for i, a := range r.AuxFields {
		if i >= 8 {
			break
		}
		c11postAux(posts, "", a)
	}
	c11try(posts, "Record.Tag", func() { r.Tag([]byte("NM")) })
	c11try(posts, "AuxFields.Get", func() { r.AuxFields.Get(sam.NewTag("NM")) })
	c11try(posts, "Record.String", func() { _ = r.String() })
	for f := 0; f < 3; f++ {
		f := f
		c11try(posts, "Record.MarshalSAM", func() { r.MarshalSAM(f) })
	}
	c11try(posts, "Record.MarshalText", func() { r.MarshalText() })
	if h != nil {
		c11try(posts, "Header.Validate", func() { h.Validate(r) })
		c11try(posts, "bam.Writer.Write", func() {
			w, err := bam.NewWriter(io.Discard, h, 1)
			if err != nil {
				return
			}
			w.Write(r)
			w.Close()
		})
		c11try(posts, "sam.Writer.Write", func() {
			w, err := sam.NewWriter(io.Discard, h, sam.FlagDecimal)
			if err != nil {
				return
			}
			w.Write(r)
		})
	}
	c11try(posts, "bam.Index.Add", func() {
		var idx bam.Index
		idx.Add(r, bgzf.Chunk{Begin: bgzf.Offset{File: 10}, End: bgzf.Offset{File: 20}})
	})
}

func c11postFai(posts *[]c11post, idx fai.Index, src []byte) {
	c11try(posts, "fai.WriteTo", func() { fai.WriteTo(io.Discard, idx) })
	n := 0
	for name, rec := range idx {
		if n >= 4 {
			break
		}
		n++
		rec := rec
		name := name
		if rec.Length > 0 {
			c11try(posts, "Record.Position", func() { rec.Position(0); rec.Position(rec.Length - 1); rec.Position(rec.Length / 2) })
		}
		c11try(posts, "File.Seq", func() {
			f := fai.NewFile(strings.NewReader(string(src)), idx)
			s, err := f.Seq(name)
			if err != nil {
				return
			}
			io.CopyN(io.Discard, s, 1<<16)
			if rec.Length > 1 {
				s, err = f.SeqRange(name, rec.Length/2, rec.Length)
				if err == nil {
					io.CopyN(io.Discard, s, 1<<16)
				}
			}
		})
	}
}
