package main

// C13: chunk-bounded reads.  (a) index.ChunkReader over files of the C02
// builder; (b) bam.Reader SetChunk / Iterator over BAM streams whose BGZF
// block boundaries are chosen by the case (the BAM bytes are written by hand
// from SAMv1 section 4.2, the members by the C02 builder).

import (
	"bytes"
	"encoding/binary"
	"encoding/hex"
	"encoding/json"
	"hash/adler32"
	"io"

	"github.com/biogo/hts/bam"
	"github.com/biogo/hts/bgzf"
	"github.com/biogo/hts/bgzf/index"
)

func init() { register("c13", c13) }

type c13Case struct {
	Mode    string   `json:"mode"` // "chunks" | "bam"
	Members [][]int  `json:"members"`
	Datas   []string `json:"datas"`
	EOF     bool     `json:"eof"`
	Rd      int      `json:"rd"`
	Blocked bool     `json:"blocked"`
	// chunks mode: chunk = [begin member, begin offset, end member, end offset]
	// (member index == number of members: end of file), bufs = read sizes.
	Chunks [][]int `json:"chunks"`
	Bufs   []int   `json:"bufs"`
	// bam mode: header text length, records [name length, sequence length],
	// cuts = payload length of each member (partition of the BAM byte stream),
	// pairs [i,j] for SetChunk, iters = lists of pairs for Iterator.
	Text    int       `json:"text"`
	Recs    [][]int   `json:"recs"`
	Cuts    []int     `json:"cuts"`
	Pairs   [][]int   `json:"pairs"`
	Abandon bool      `json:"abandon"` // before each SetChunk of a pair: a SetChunk to some other record that is never read from
	Iters   [][][]int `json:"iters"`
	Cache   string    `json:"cache"`
	CacheN  int       `json:"cachen"`
	ViaIter bool      `json:"viaiter"`
}

func c13Off(f *c02File, m, o int) bgzf.Offset {
	if m >= 0 && m < len(f.bases) {
		return bgzf.Offset{File: f.bases[m], Block: uint16(o)}
	}
	return bgzf.Offset{File: int64(len(f.raw)), Block: uint16(o)}
}

// c13BamBytes writes an uncompressed BAM stream: header without references
// and unmapped records named r<i> padded to the requested name length.
func c13BamBytes(text int, recs [][]int) ([]byte, []string) {
	var b bytes.Buffer
	b.WriteString("BAM\x01")
	txt := []byte("@HD\tVN:1.6\n")
	for len(txt) < text {
		txt = append(txt, []byte("@CO\tx\n")...)
	}
	binary.Write(&b, binary.LittleEndian, int32(len(txt)))
	b.Write(txt)
	binary.Write(&b, binary.LittleEndian, int32(0))
	var names []string
	for i, r := range recs {
		nl, sl := r[0], r[1]
		name := []byte{'r', byte('a' + i/26%26), byte('a' + i%26)}
		for len(name) < nl {
			name = append(name, byte('0'+len(name)%10))
		}
		name = name[:nl]
		names = append(names, string(name))
		size := 32 + nl + 1 + (sl+1)/2 + sl
		binary.Write(&b, binary.LittleEndian, int32(size))
		binary.Write(&b, binary.LittleEndian, int32(-1)) // refID
		binary.Write(&b, binary.LittleEndian, int32(-1)) // pos
		b.WriteByte(byte(nl + 1))                        // l_read_name
		b.WriteByte(0)                                   // mapq
		binary.Write(&b, binary.LittleEndian, uint16(4680))
		binary.Write(&b, binary.LittleEndian, uint16(0)) // n_cigar
		binary.Write(&b, binary.LittleEndian, uint16(4)) // flag: unmapped
		binary.Write(&b, binary.LittleEndian, int32(sl))
		binary.Write(&b, binary.LittleEndian, int32(-1))
		binary.Write(&b, binary.LittleEndian, int32(-1))
		binary.Write(&b, binary.LittleEndian, int32(0))
		b.Write(name)
		b.WriteByte(0)
		for k := 0; k < (sl+1)/2; k++ {
			b.WriteByte(byte(0x11 * (1 + (k+i)%4)))
		}
		for k := 0; k < sl; k++ {
			b.WriteByte(byte(20 + (k+i)%20))
		}
	}
	return b.Bytes(), names
}

func c13Chunk(c bgzf.Chunk) [4]int {
	return [4]int{int(c.Begin.File), int(c.Begin.Block), int(c.End.File), int(c.End.Block)}
}

func c13(raw json.RawMessage) interface{} {
	return c02Guard(func() interface{} { return c13Run(raw) })
}

func c13Run(raw json.RawMessage) interface{} {
	var c c13Case
	if err := json.Unmarshal(raw, &c); err != nil {
		return map[string]interface{}{"bad_case": err.Error()}
	}
	if c.Mode == "bam" {
		return c13Bam(&c)
	}
	f, err := c02Build(c.Members, c.Datas, c.EOF)
	if err != nil {
		return map[string]interface{}{"bad_case": err.Error()}
	}
	res := map[string]interface{}{"bases": f.bases, "sizes": f.sizes, "fsize": len(f.raw)}
	bg, err := bgzf.NewReader(sourceFor(f.raw), c.Rd)
	if err != nil {
		res["new_err"] = c02Err(err)
		return res
	}
	defer bg.Close()
	if c.Cache != "" {
		bg.SetCache(c02Cache(c.Cache, c.CacheN))
	}
	bg.Blocked = c.Blocked
	var chunks []bgzf.Chunk
	for _, ch := range c.Chunks {
		chunks = append(chunks, bgzf.Chunk{Begin: c13Off(f, ch[0], ch[1]), End: c13Off(f, ch[2], ch[3])})
	}
	cr, err := index.NewChunkReader(bg, chunks)
	res["new_err"] = c02Err(err)
	if err != nil {
		res["new_msg"] = err.Error()
		return res
	}
	var reads []c02Obs
	var all []byte
	for _, n := range c.Bufs {
		p := make([]byte, n)
		k, err := cr.Read(p)
		o := c02Obs{N: k, Err: c02Err(err), Ad: adler32.Checksum(p[:k])}
		if o.Err == 2 {
			o.Msg = err.Error()
		}
		if k <= 48 {
			o.Hex = hex.EncodeToString(p[:k])
		}
		o.LC = c02LC(bg)
		o.BLen = bg.BlockLen()
		reads = append(reads, o)
		all = append(all, p[:k]...)
		if err != nil {
			break
		}
	}
	res["reads"] = reads
	res["total"] = len(all)
	res["ad"] = adler32.Checksum(all)
	cr.Close()
	res["blocked_after"] = bg.Blocked
	return res
}

func c13Bam(c *c13Case) interface{} {
	stream, names := c13BamBytes(c.Text, c.Recs)
	var datas []string
	p := 0
	for _, n := range c.Cuts {
		if p+n > len(stream) {
			n = len(stream) - p
		}
		datas = append(datas, hex.EncodeToString(stream[p:p+n]))
		p += n
	}
	if p < len(stream) {
		datas = append(datas, hex.EncodeToString(stream[p:]))
	}
	f, err := c02Build(nil, datas, c.EOF)
	if err != nil {
		return map[string]interface{}{"bad_case": err.Error()}
	}
	res := map[string]interface{}{"bases": f.bases, "sizes": f.sizes, "fsize": len(f.raw), "lens": f.lens, "stream": len(stream), "names": names}
	br, err := bam.NewReader(sourceFor(f.raw), c.Rd)
	if err != nil {
		res["new_err"] = 2
		res["new_msg"] = err.Error()
		return res
	}
	defer br.Close()
	res["new_err"] = 0
	if c.Cache != "" {
		br.SetCache(c02Cache(c.Cache, c.CacheN))
	}
	// sequential pass
	var seq []map[string]interface{}
	var chunks []bgzf.Chunk
	for {
		r, err := br.Read()
		if err != nil {
			res["seq_err"] = c02Err(err)
			if err != io.EOF {
				res["seq_msg"] = err.Error()
			}
			break
		}
		ch := br.LastChunk()
		chunks = append(chunks, ch)
		seq = append(seq, map[string]interface{}{"name": r.Name, "chunk": c13Chunk(ch)})
	}
	res["seq"] = seq
	readAll := func() ([]string, int, string) {
		var got []string
		for {
			r, err := br.Read()
			if err != nil {
				msg := ""
				if err != io.EOF {
					msg = err.Error()
				}
				return got, c02Err(err), msg
			}
			got = append(got, r.Name)
			if len(got) > len(names)+3 {
				return got, 2, "runaway"
			}
		}
	}
	var pairs []map[string]interface{}
	for _, ij := range c.Pairs {
		i, j := ij[0], ij[1]
		if i < 0 || j >= len(chunks) || i > j {
			pairs = append(pairs, map[string]interface{}{"skip": true})
			continue
		}
		ch := bgzf.Chunk{Begin: chunks[i].Begin, End: chunks[j].End}
		if c.Abandon {
			// a chunk that is set and dropped without a read (an iterator that
			// is abandoned, a query that is superseded): the block it seeks
			// into goes to the cache positioned inside, untouched
			m := (i*7 + j*3 + 1) % len(chunks)
			if j > i {
				// a record inside the span that is replayed next, so that the
				// replay walks into the abandoned block from the one before it
				m = i + 1 + (i+j)%(j-i)
			}
			ab := bgzf.Chunk{Begin: chunks[m].Begin, End: chunks[m].End}
			br.SetChunk(&ab)
		}
		if err := br.SetChunk(&ch); err != nil {
			pairs = append(pairs, map[string]interface{}{"set_err": c02Err(err), "msg": err.Error()})
			continue
		}
		got, e, msg := readAll()
		pairs = append(pairs, map[string]interface{}{"names": got, "err": e, "msg": msg, "chunk": c13Chunk(ch)})
		br.SetChunk(nil)
	}
	res["pairs"] = pairs
	var iters []map[string]interface{}
	for _, lst := range c.Iters {
		var cl []bgzf.Chunk
		ok := true
		for _, ij := range lst {
			if ij[0] < 0 || ij[1] >= len(chunks) || ij[0] > ij[1] {
				ok = false
				break
			}
			cl = append(cl, bgzf.Chunk{Begin: chunks[ij[0]].Begin, End: chunks[ij[1]].End})
		}
		if !ok {
			iters = append(iters, map[string]interface{}{"skip": true})
			continue
		}
		it, err := bam.NewIterator(br, cl)
		if err != nil {
			iters = append(iters, map[string]interface{}{"set_err": c02Err(err), "msg": err.Error()})
			continue
		}
		var got []string
		for it.Next() {
			got = append(got, it.Record().Name)
			if len(got) > 4*len(names)*(len(lst)+1)+3 {
				break
			}
		}
		e := it.Close()
		iters = append(iters, map[string]interface{}{"names": got, "err": c02Err(e)})
	}
	res["iters"] = iters
	return res
}
