package main

// C14: block caches (bgzf/cache: LRU, FIFO, Random, StatsRecorder, Free)
// driven directly through the Cache interface with manufactured blocks.
//
// Modes of a case:
//   seq  - one history (symbolic or primitive ops); returns the resolved
//          primitive history, every result, a probe (Len, Cap, Peek of every
//          base) after every op and the verdicts of the reference oracle.
//   exh  - all histories of a given length over the symbolic alphabet, each
//          run on a fresh cache and judged by the same oracle; returns counts
//          and the first failing histories.
//   conc - 2..4 goroutines on one cache, invocation/response stamps, and a
//          linearizability search against the reference oracle.
//
// The oracle (c14Ref) is written from the Cache contract, not from the
// library: it keeps the set of held blocks in insertion order and says which
// results and successor states the contract allows.
//
// Every library call ticks a progress counter; a monitor reports a call that
// makes no progress as a hang together with the history that led to it.

import (
	"encoding/json"
	"fmt"
	"runtime"
	"sort"
	"sync"
	"sync/atomic"
	"time"

	"github.com/biogo/hts/bgzf"
	"github.com/biogo/hts/bgzf/cache"
)

func init() { register("c14", c14) }

const (
	c14Put = iota
	c14Get
	c14Peek
	c14Len
	c14Cap
	c14Resize
	c14Drop
	c14Free
	c14Rebase
	c14Stats
	c14Reset
	c14PutNew  = 20
	c14PutBack = 21
)

var c14OpName = map[int]string{c14Put: "put", c14Get: "get", c14Peek: "peek", c14Len: "len", c14Cap: "cap",
	c14Resize: "resize", c14Drop: "drop", c14Free: "free", c14Rebase: "rebase", c14Stats: "stats", c14Reset: "reset"}

type c14Case struct {
	Mode    string    `json:"mode"`
	Kind    string    `json:"kind"`
	Stats   bool      `json:"stats"`
	Cap     int       `json:"cap"`
	NB      int       `json:"nb"`
	Ops     [][]int   `json:"ops"`
	Depth   int       `json:"depth"`
	Alpha   string    `json:"alpha"`
	Threads [][][]int `json:"threads"`
	Rounds  int       `json:"rounds"`
	MaxFail int       `json:"maxfail"`
}

const c14MaxBlocks = 24

func c14Size(id int) int { return 100 + 10*id }

// ------------------------------------------------------------ blocks (client side)

type c14Blocks struct {
	b    [c14MaxBlocks]bgzf.Block
	base [c14MaxBlocks]int64
	used [c14MaxBlocks]bool
	id   map[bgzf.Block]int
}

func c14NewBlocks() *c14Blocks {
	bl := &c14Blocks{id: map[bgzf.Block]int{}}
	for i := range bl.b {
		bl.b[i] = bgzf.VerifC14NewBlock(-1, false, c14Size(i))
		bl.base[i] = -1
		bl.id[bl.b[i]] = i
	}
	return bl
}

func (bl *c14Blocks) reset() {
	for i := range bl.b {
		if bl.base[i] != -1 || bl.used[i] {
			bl.rebase(i, -1, false)
		}
	}
}

func (bl *c14Blocks) rebase(i int, base int64, used bool) {
	bgzf.VerifC14Rebase(bl.b[i], base, used, c14Size(i))
	bl.base[i] = base
	bl.used[i] = used
}

func (bl *c14Blocks) idOf(b bgzf.Block) int {
	if b == nil {
		return -1
	}
	if i, ok := bl.id[b]; ok {
		return i
	}
	return -2
}

// decodeNext finds the block whose NextBase() is next.
func (bl *c14Blocks) decodeNext(next int64, n int) int {
	for i := 0; i < n; i++ {
		if bl.base[i]+int64(c14Size(i)) == next {
			return i
		}
	}
	return -1
}

// Client protocol: which blocks the client may re-base (mine), which it holds
// but may only put back (borrowed: returned by FIFO.Get), which it gave away.
const (
	c14Mine = iota
	c14Borrowed
	c14Given
)

type c14Client struct {
	status  [c14MaxBlocks]int8
	stack   []int // mine, most recently acquired last
	fresh   int   // next never-used id
	limit   int   // ids < limit
	lastGot int
	strong  bool // Get transfers ownership (LRU, Random); FIFO: reader protocol
}

func (cl *c14Client) init(lo, hi int, strong bool) {
	for i := range cl.status {
		cl.status[i] = c14Mine
	}
	cl.stack = cl.stack[:0]
	cl.fresh, cl.limit, cl.lastGot, cl.strong = lo, hi, -1, strong
}

func (cl *c14Client) push(id int) {
	for i, x := range cl.stack {
		if x == id {
			cl.stack = append(cl.stack[:i], cl.stack[i+1:]...)
			break
		}
	}
	cl.stack = append(cl.stack, id)
}

func (cl *c14Client) drop(id int) {
	for i, x := range cl.stack {
		if x == id {
			cl.stack = append(cl.stack[:i], cl.stack[i+1:]...)
			return
		}
	}
}

// pick returns a block the client may overwrite, or -1.
func (cl *c14Client) pick() int {
	if n := len(cl.stack); n > 0 {
		return cl.stack[n-1]
	}
	if cl.fresh < cl.limit {
		id := cl.fresh
		cl.fresh++
		cl.push(id)
		return id
	}
	return -1
}

func (cl *c14Client) afterPut(id, ev int, ret bool) {
	if ret {
		cl.status[id] = c14Given
		cl.drop(id)
	}
	if ev >= 0 {
		cl.status[ev] = c14Mine
		cl.push(ev)
	}
}

func (cl *c14Client) afterGet(id int) {
	if id < 0 {
		return
	}
	cl.lastGot = id
	if cl.strong {
		cl.status[id] = c14Mine
		cl.push(id)
	} else if cl.status[id] == c14Given {
		cl.status[id] = c14Borrowed
	}
}

// ------------------------------------------------------------ system under test

type c14SUT struct {
	kind string
	c    cache.Cache
	s    *cache.StatsRecorder
	bc   bgzf.Cache
}

func c14NewSUT(kind string, n int, stats bool) *c14SUT {
	var c cache.Cache
	switch kind {
	case "lru":
		c = cache.NewLRU(n)
	case "fifo":
		c = cache.NewFIFO(n)
	case "random":
		c = cache.NewRandom(n)
	}
	if c == nil {
		return nil
	}
	s := &c14SUT{kind: kind, c: c, bc: c}
	if stats {
		s.s = &cache.StatsRecorder{Cache: c}
		s.bc = s.s
	}
	return s
}

// ------------------------------------------------------------ reference oracle

type c14Ent struct {
	id   int
	base int64
	used bool
}

func c14E(id int, base int64, used bool) c14Ent { return c14Ent{id, base, used} }

// c14Ref: what the contract lets a cache hold. ent[:n] is in insertion order
// (oldest first). A value type: copying it is the clone.
const c14MaxEnt = 16

type c14Ref struct {
	kind string
	cap  int
	// strict: for LRU and FIFO follow the code as it is (the intrusive list
	// order, what Get un-indexes, which blocks drop takes) instead of every
	// behaviour the contract admits; ent[:n] is then the list from root.next
	// to root.prev. Used by the linearizability search only: an order found
	// under the strict reading is one the Coq model of the code accepts too.
	strict bool
	n      int
	ent  [c14MaxEnt]c14Ent
	st   [5]int // gets misses puts retains evictions (StatsRecorder)
}

func (r *c14Ref) find(base int64) int {
	for i := 0; i < r.n; i++ {
		if r.ent[i].base == base {
			return i
		}
	}
	return -1
}

func (r *c14Ref) without(i int) c14Ref {
	n := *r
	copy(n.ent[i:], r.ent[i+1:r.n])
	n.n--
	return n
}

func (r *c14Ref) add(e c14Ent) bool {
	if r.n >= c14MaxEnt {
		return false
	}
	r.ent[r.n] = e
	r.n++
	return true
}

func (r *c14Ref) key() string {
	s := fmt.Sprint(r.cap, r.st)
	for _, e := range r.ent[:r.n] {
		s += fmt.Sprintf("|%d,%d,%v", e.id, e.base, e.used)
	}
	return s
}

// dropSets appends to out every state the eviction policy allows after
// evicting d blocks: unused blocks go first; among used blocks LRU and FIFO
// evict in insertion order, Random any.
func (r *c14Ref) dropSets(d int, out []c14Ref) []c14Ref {
	if d > r.n {
		d = r.n
	}
	if d <= 0 {
		return append(out, *r)
	}
	var un, us [c14MaxEnt]int
	nun, nus := 0, 0
	for i := 0; i < r.n; i++ {
		if r.ent[i].used {
			us[nus] = i
			nus++
		} else {
			un[nun] = i
			nun++
		}
	}
	build := func(out []c14Ref, gone uint32) []c14Ref {
		out = append(out, *r)
		n := &out[len(out)-1]
		n.n = 0
		for i := 0; i < r.n; i++ {
			if gone&(1<<uint(i)) == 0 {
				n.ent[n.n] = r.ent[i]
				n.n++
			}
		}
		return out
	}
	var unMask, usMask uint32
	for _, i := range un[:nun] {
		unMask |= 1 << uint(i)
	}
	for _, i := range us[:nus] {
		usMask |= 1 << uint(i)
	}
	popcnt := func(x uint32) int {
		c := 0
		for ; x != 0; x &= x - 1 {
			c++
		}
		return c
	}
	if d == nun {
		return build(out, unMask)
	}
	if d < nun {
		// any d of the unused blocks
		for m := uint32(0); m < 1<<uint(r.n); m++ {
			if m&^unMask == 0 && popcnt(m) == d {
				out = build(out, m)
			}
		}
		return out
	}
	rest := d - nun
	if r.kind == "random" && rest < nus {
		for m := uint32(0); m < 1<<uint(r.n); m++ {
			if m&^usMask == 0 && popcnt(m) == rest {
				out = build(out, unMask|m)
			}
		}
		return out
	}
	g := unMask
	for _, i := range us[:rest] {
		g |= 1 << uint(i)
	}
	return build(out, g)
}

// step appends to out the states the contract allows after op with the
// observed result, or gives a reason why the result is not allowed.
// base/used describe the block named by a put at the time of the call.
func (r *c14Ref) step(op []int, res []int, base int64, used bool, stats bool, out []c14Ref) ([]c14Ref, string) {
	if r.strict && r.kind != "random" {
		return r.stepStrict(op, res, base, used, out)
	}
	switch op[0] {
	case c14Put:
		id := op[1]
		if len(res) != 2 {
			return out, "no-result"
		}
		ev, ret := res[0], res[1] == 1
		n := *r
		if stats {
			n.st[2]++
			if ret {
				n.st[3]++
				if ev != -1 {
					n.st[4]++
				}
			}
		}
		if i := r.find(base); i >= 0 {
			if ret {
				return out, "retained-duplicate-base"
			}
			if !(ev == id || (ev == -1 && r.ent[i].id == id)) {
				return out, "not-retained-but-other-block-returned"
			}
			return append(out, n), ""
		}
		if r.n >= r.cap {
			if !used {
				if ret || ev != id {
					return out, "unused-accepted-when-full"
				}
				return append(out, n), ""
			}
			if !ret {
				return out, "used-refused-when-full"
			}
			vi := -1
			anyUnused := false
			for i := 0; i < r.n; i++ {
				if r.ent[i].id == ev {
					vi = i
				}
				if !r.ent[i].used {
					anyUnused = true
				}
			}
			if vi < 0 {
				return out, "no-or-unknown-victim"
			}
			if anyUnused && r.ent[vi].used {
				return out, "policy-used-evicted-while-unused-held"
			}
			if !anyUnused && r.kind != "random" && vi != 0 {
				return out, "policy-not-oldest"
			}
			n = n.without(vi)
			n.add(c14Ent{id, base, used})
			return append(out, n), ""
		}
		if !ret || ev != -1 {
			return out, "refused-or-evicted-with-room"
		}
		if !n.add(c14Ent{id, base, used}) {
			return out, "oracle-capacity"
		}
		return append(out, n), ""
	case c14Get:
		if len(res) != 2 {
			return out, "no-result"
		}
		n := *r
		i := r.find(int64(op[1]))
		if stats {
			n.st[0]++
			if res[0] == -1 {
				n.st[1]++
			}
		}
		if i < 0 {
			if res[0] != -1 {
				return out, "returned-block-not-held"
			}
			return append(out, n), ""
		}
		if res[0] != r.ent[i].id {
			return out, "miss-or-other-block"
		}
		if r.kind == "fifo" && r.ent[i].used {
			// FIFO keeps a used block indexed (the repo's TestCache fixes
			// this); both successors are admitted, the probe decides.
			out = append(out, n)
		}
		return append(out, n.without(i)), ""
	case c14Peek:
		if len(res) != 2 {
			return out, "no-result"
		}
		i := r.find(int64(op[1]))
		if i < 0 {
			if res[0] != 0 || res[1] != -1 {
				return out, "exists-but-not-held"
			}
		} else if res[0] != 1 || int64(res[1]) != r.ent[i].base+int64(c14Size(r.ent[i].id)) {
			return out, "missing-or-wrong-next"
		}
		return append(out, *r), ""
	case c14Len:
		if len(res) != 1 || res[0] != r.n {
			return out, "wrong-len"
		}
		return append(out, *r), ""
	case c14Cap:
		if len(res) != 1 || res[0] != r.cap {
			return out, "wrong-cap"
		}
		return append(out, *r), ""
	case c14Resize:
		k := len(out)
		out = r.dropSets(r.n-op[1], out)
		for i := k; i < len(out); i++ {
			out[i].cap = op[1]
		}
		return out, ""
	case c14Drop:
		return r.dropSets(op[1], out), ""
	case c14Free:
		n := op[1]
		if len(res) != 1 {
			return out, "no-result"
		}
		want := 0
		if n <= r.cap {
			want = 1
		}
		if res[0] != want {
			return out, "wrong-answer"
		}
		empty := r.cap - r.n
		if n <= empty {
			return append(out, *r), ""
		}
		return r.dropSets(n-empty, out), ""
	case c14Stats:
		if len(res) != 5 {
			return out, "no-result"
		}
		for i := 0; i < 5; i++ {
			if res[i] != r.st[i] {
				return out, "wrong-counters"
			}
		}
		return append(out, *r), ""
	case c14Reset:
		n := *r
		n.st = [5]int{}
		return append(out, n), ""
	case c14Rebase:
		return append(out, *r), ""
	}
	return out, "unknown-op"
}

// stepStrict: LRU and FIFO as coded (cache.go): used blocks are inserted at
// the front of the list, unused ones at the back; eviction and drop take
// root.prev; LRU.Get always un-indexes, FIFO.Get only an unused block; FIFO.Put
// of the block already indexed answers (nil, false).
func (r *c14Ref) stepStrict(op []int, res []int, base int64, used bool, out []c14Ref) ([]c14Ref, string) {
	insert := func(n *c14Ref, e c14Ent) bool {
		if n.n >= c14MaxEnt {
			return false
		}
		if e.used {
			copy(n.ent[1:n.n+1], n.ent[:n.n])
			n.ent[0] = e
		} else {
			n.ent[n.n] = e
		}
		n.n++
		return true
	}
	dropBack := func(n *c14Ref, d int) {
		for ; d > 0 && n.n > 0; d-- {
			n.n--
		}
	}
	switch op[0] {
	case c14Put:
		id := op[1]
		if len(res) != 2 {
			return out, "no-result"
		}
		ev, ret := res[0], res[1] == 1
		n := *r
		if i := r.find(base); i >= 0 {
			wantEv := id
			if r.kind == "fifo" && r.ent[i].id == id {
				wantEv = -1
			}
			if ret || ev != wantEv {
				return out, "strict:put-indexed-base"
			}
			return append(out, n), ""
		}
		if r.n == r.cap {
			if !used {
				if ret || ev != id {
					return out, "strict:unused-accepted-when-full"
				}
				return append(out, n), ""
			}
			if r.n == 0 {
				return out, "strict:empty-and-full"
			}
			if !ret || ev != r.ent[r.n-1].id {
				return out, "strict:victim-not-root-prev"
			}
			n.n--
			if !insert(&n, c14Ent{id, base, used}) {
				return out, "oracle-capacity"
			}
			return append(out, n), ""
		}
		if !ret || ev != -1 {
			return out, "strict:refused-or-evicted-with-room"
		}
		if !insert(&n, c14Ent{id, base, used}) {
			return out, "oracle-capacity"
		}
		return append(out, n), ""
	case c14Get:
		if len(res) != 2 {
			return out, "no-result"
		}
		i := r.find(int64(op[1]))
		if i < 0 {
			if res[0] != -1 {
				return out, "strict:returned-block-not-held"
			}
			return append(out, *r), ""
		}
		if res[0] != r.ent[i].id {
			return out, "strict:miss-or-other-block"
		}
		if r.kind == "fifo" && r.ent[i].used {
			return append(out, *r), ""
		}
		return append(out, r.without(i)), ""
	case c14Resize:
		n := *r
		if op[1] < n.n {
			dropBack(&n, n.n-op[1])
		}
		n.cap = op[1]
		return append(out, n), ""
	case c14Drop:
		n := *r
		dropBack(&n, op[1])
		return append(out, n), ""
	case c14Peek, c14Len, c14Cap, c14Rebase:
		// read-only: the contract reading is already deterministic
		s := *r
		s.strict = false
		o2, why := s.step(op, res, base, used, false, nil)
		if why != "" {
			return out, why
		}
		for range o2 {
			out = append(out, *r)
		}
		return out, ""
	}
	return out, "strict:unsupported-op"
}

// matches says whether the probe (len, cap, next per base) is the one state r shows.
func (r *c14Ref) matches(probe []int, nb int) bool {
	if probe[0] != r.n || probe[1] != r.cap {
		return false
	}
	for k := 0; k < nb; k++ {
		i := r.find(int64(k))
		want := -1
		if i >= 0 {
			want = int(r.ent[i].base) + c14Size(r.ent[i].id)
		}
		if probe[2+k] != want {
			return false
		}
	}
	return true
}

// ------------------------------------------------------------ progress / watchdog

type c14Progress struct {
	ticks atomic.Int64
	cur   atomic.Pointer[c14Rec]
}

var c14HangAfter = 15 * time.Second

// c14Watch runs f on its own goroutine and returns false if it stops making
// progress (no tick for c14HangAfter).
func c14Watch(p *c14Progress, f func()) (finished bool, pan interface{}) {
	done := make(chan interface{}, 1)
	go func() {
		defer func() { done <- recover() }()
		f()
	}()
	last := p.ticks.Load()
	idle := time.Duration(0)
	const tick = 100 * time.Millisecond
	t := time.NewTicker(tick)
	defer t.Stop()
	for {
		select {
		case r := <-done:
			return true, r
		case <-t.C:
			now := p.ticks.Load()
			if now != last {
				last, idle = now, 0
			} else if idle += tick; idle >= c14HangAfter {
				return false, nil
			}
		}
	}
}

// ------------------------------------------------------------ running one history

type c14Viol struct {
	Sig  string `json:"sig"`
	What string `json:"what"`
	At   int    `json:"at"`
}

// c14Rec is the record of one history.
type c14Rec struct {
	Kind  string    `json:"kind"`
	Cap   int       `json:"cap"`
	NB    int       `json:"nb"`
	Stats bool      `json:"stats"`
	Ops   [][]int   `json:"ops"`
	Res   [][]int   `json:"res"`
	Probe [][]int   `json:"probe"`
	Ch    [][]int   `json:"ch"`
	Viol  []c14Viol `json:"viol,omitempty"`
	Hang  bool      `json:"hang,omitempty"`
}

type c14Runner struct {
	bl    *c14Blocks
	cl    c14Client
	prog  *c14Progress
	nblk  int
	arena []int    // results and probes of the current history
	succ  []c14Ref // scratch: successor states
	rbuf  [2][]int // scratch: resolved operations
}

// ints copies v into the arena (one allocation per few thousand results).
func (rn *c14Runner) ints(v ...int) []int {
	if cap(rn.arena)-len(rn.arena) < len(v) {
		rn.arena = make([]int, 0, 1<<14)
	}
	k := len(rn.arena)
	rn.arena = append(rn.arena, v...)
	return rn.arena[k:len(rn.arena):len(rn.arena)]
}

func (rn *c14Runner) call(sut *c14SUT, op []int) []int {
	rn.prog.ticks.Add(1)
	switch op[0] {
	case c14Put:
		ev, ret := sut.bc.Put(rn.bl.b[op[1]])
		r := 0
		if ret {
			r = 1
		}
		return rn.ints(rn.bl.idOf(ev), r)
	case c14Get:
		b := sut.bc.Get(int64(op[1]))
		if b == nil {
			return rn.ints(-1, -1)
		}
		return rn.ints(rn.bl.idOf(b), int(b.Base()))
	case c14Peek:
		ok, next := sut.bc.Peek(int64(op[1]))
		r := 0
		if ok {
			r = 1
		}
		return rn.ints(r, int(next))
	case c14Len:
		return rn.ints(sut.c.Len())
	case c14Cap:
		return rn.ints(sut.c.Cap())
	case c14Resize:
		sut.c.Resize(op[1])
		return rn.ints()
	case c14Drop:
		sut.c.Drop(op[1])
		return rn.ints()
	case c14Free:
		if cache.Free(op[1], sut.c) {
			return rn.ints(1)
		}
		return rn.ints(0)
	case c14Stats:
		if sut.s == nil {
			return rn.ints(0, 0, 0, 0, 0)
		}
		st := sut.s.Stats()
		return rn.ints(st.Gets, st.Misses, st.Puts, st.Retains, st.Evictions)
	case c14Reset:
		if sut.s != nil {
			sut.s.Reset()
		}
		return rn.ints()
	}
	return nil
}

func (rn *c14Runner) probe(sut *c14SUT, nb int) []int {
	rn.prog.ticks.Add(1)
	var zero [2 + 16]int
	p := rn.ints(zero[:2+nb]...)
	p[0] = sut.c.Len()
	p[1] = sut.c.Cap()
	for k := 0; k < nb; k++ {
		ok, next := sut.bc.Peek(int64(k))
		if ok {
			p[2+k] = int(next)
		} else {
			p[2+k] = -1
		}
	}
	return p
}

// resolve turns a symbolic op into primitive ops using the client state.
func (rn *c14Runner) resolve(op []int) [][]int {
	switch op[0] {
	case c14PutNew:
		id := rn.cl.pick()
		if id < 0 {
			return nil
		}
		rn.rbuf[0], rn.rbuf[1] = rn.ints(c14Rebase, id, op[1], op[2]), rn.ints(c14Put, id)
		return rn.rbuf[:2]
	case c14PutBack:
		id := rn.cl.lastGot
		if id < 0 || rn.cl.status[id] == c14Given {
			return nil
		}
		rn.rbuf[0] = rn.ints(c14Put, id)
		return rn.rbuf[:1]
	}
	rn.rbuf[0] = op
	return rn.rbuf[:1]
}

// run executes one history on a fresh cache and judges it. rec.Ops receives
// the primitive history. It returns after the first violation.
func (rn *c14Runner) run(rec *c14Rec, sym [][]int, keep bool) {
	sut := c14NewSUT(rec.Kind, rec.Cap, rec.Stats)
	if sut == nil {
		rec.Viol = append(rec.Viol, c14Viol{rec.Kind + ":new:nil", "constructor returned nil", 0})
		return
	}
	rn.bl.reset()
	rn.cl.init(0, rn.nblk, rec.Kind != "fifo")
	ref := c14Ref{kind: rec.Kind, cap: rec.Cap}
	nb := rec.NB
	viol := func(at int, op []int, what, detail string) {
		rec.Viol = append(rec.Viol, c14Viol{rec.Kind + ":" + c14OpName[op[0]] + ":" + what, detail, at})
	}
	for _, sop := range sym {
		for _, op := range rn.resolve(sop) {
			at := len(rec.Ops)
			rec.Ops = append(rec.Ops, op)
			if op[0] == c14Rebase {
				if rn.cl.status[op[1]] != c14Mine {
					viol(at, op, "protocol", "history re-bases a block the client does not own (bad case)")
					return
				}
				rn.bl.rebase(op[1], int64(op[2]), op[3] == 1)
				rec.Res = append(rec.Res, rn.ints())
				rec.Probe = append(rec.Probe, nil)
				rec.Ch = append(rec.Ch, nil)
				continue
			}
			var base int64
			var used bool
			if op[0] == c14Put {
				if rn.cl.status[op[1]] == c14Given {
					viol(at, op, "protocol", "history puts a block the client gave away (bad case)")
					return
				}
				base, used = rn.bl.base[op[1]], rn.bl.used[op[1]]
			}
			res := rn.call(sut, op)
			rec.Res = append(rec.Res, res)
			pr := rn.probe(sut, nb)
			rec.Probe = append(rec.Probe, pr)
			// victims (for the model of Random): keys present before and absent now
			var ch []int
			for _, e := range ref.ent[:ref.n] {
				if pr[2+int(e.base)] == -1 {
					ch = append(ch, int(e.base))
				}
			}
			rec.Ch = append(rec.Ch, ch)
			// --- direct statements of the property
			switch op[0] {
			case c14Get:
				if res[0] == -2 {
					viol(at, op, "foreign-block", "Get returned a block that was never put")
					return
				}
				if res[0] >= 0 && res[1] != op[1] {
					viol(at, op, "wrong-base", fmt.Sprintf("Get(%d) returned block %d whose Base() is %d", op[1], res[0], res[1]))
					return
				}
			case c14Peek:
				if res[0] == 1 {
					if id := rn.bl.decodeNext(int64(res[1]), rn.nblk); id >= 0 && rn.bl.base[id] != int64(op[1]) {
						viol(at, op, "wrong-base", fmt.Sprintf("Peek(%d) answered with block %d whose Base() is %d", op[1], id, rn.bl.base[id]))
						return
					}
				}
			}
			if pr[0] > pr[1] {
				viol(at, op, "over-capacity", fmt.Sprintf("Len %d > Cap %d", pr[0], pr[1]))
				return
			}
			present := 0
			for k := 0; k < nb; k++ {
				if pr[2+k] != -1 {
					present++
					if id := rn.bl.decodeNext(int64(pr[2+k]), rn.nblk); id >= 0 && rn.bl.base[id] != int64(k) {
						viol(at, op, "stale-entry", fmt.Sprintf("after the call Peek(%d) answers with block %d whose Base() is %d", k, id, rn.bl.base[id]))
						return
					}
				}
			}
			if present != pr[0] {
				viol(at, op, "len-inconsistent", fmt.Sprintf("Len %d but %d bases answer Peek", pr[0], present))
				return
			}
			// --- contract as a state machine
			next, why := ref.step(op, res, base, used, rec.Stats, rn.succ[:0])
			rn.succ = next[:0]
			if why != "" {
				viol(at, op, why, fmt.Sprintf("result %v not allowed in state %s", res, ref.key()))
				return
			}
			var ok *c14Ref
			for i := range next {
				if next[i].matches(pr, nb) {
					ok = &next[i]
					break
				}
			}
			if ok == nil {
				viol(at, op, "state", fmt.Sprintf("state after the call (len,cap,next per base) %v is none of the allowed ones from %s", pr, ref.key()))
				return
			}
			if op[0] == c14Get && rec.Kind == "fifo" && res[0] >= 0 && ok.find(int64(op[1])) >= 0 {
				// bgzf.Cache: "The returned Block must be removed from the Cache."
				rec.Viol = append(rec.Viol, c14Viol{"fifo:get:used-block-not-removed", "FIFO.Get hands out a used block and keeps it indexed", at})
			}
			ref = *ok
			switch op[0] {
			case c14Put:
				rn.cl.afterPut(op[1], res[0], res[1] == 1)
			case c14Get:
				rn.cl.afterGet(res[0])
			}
		}
	}
}

func c14Fatal(v []c14Viol) *c14Viol {
	for i := range v {
		if v[i].Sig != "fifo:get:used-block-not-removed" {
			return &v[i]
		}
	}
	return nil
}

// ------------------------------------------------------------ exhaustive enumeration

func c14Alphabet(alpha string, nb, maxBase, cap int) [][]int {
	var a [][]int
	hi := maxBase + 1
	if hi >= nb {
		hi = nb - 1
	}
	for k := 0; k <= hi; k++ {
		a = append(a, []int{c14PutNew, k, 1}, []int{c14PutNew, k, 0})
	}
	a = append(a, []int{c14PutBack})
	for k := 0; k <= hi; k++ {
		a = append(a, []int{c14Get, k})
	}
	if alpha == "core" {
		a = append(a, []int{c14Drop, 1}, []int{c14Resize, 1}, []int{c14Resize, cap + 1})
		return a
	}
	a = append(a, []int{c14Drop, 1}, []int{c14Drop, 2}, []int{c14Free, 1}, []int{c14Free, 2},
		[]int{c14Resize, 1}, []int{c14Resize, 2}, []int{c14Resize, 3})
	return a
}

type c14ExhOut struct {
	Histories  int            `json:"histories"`
	Calls      int            `json:"calls"`
	Nontrivial int            `json:"nontrivial"`
	Buckets    map[string]int `json:"buckets"`
	Fail       []*c14Rec      `json:"fail,omitempty"`
	Known      map[string]int `json:"known,omitempty"`
	Hang       bool           `json:"hang,omitempty"`
	Panic      string         `json:"panic,omitempty"`
}

func c14Exh(c *c14Case) interface{} {
	out := &c14ExhOut{Buckets: map[string]int{}, Known: map[string]int{}}
	prog := &c14Progress{}
	rn := &c14Runner{bl: c14NewBlocks(), prog: prog, nblk: 8}
	maxFail := c.MaxFail
	if maxFail == 0 {
		maxFail = 3
	}
	seen := map[string]bool{}
	var cur *c14Rec
	reuse := &c14Rec{Kind: c.Kind, Cap: c.Cap, NB: c.NB, Stats: c.Stats}
	prog.cur.Store(reuse)
	var bev, bhit [16]int
	alpha := make([][][]int, c.NB+1)
	for mb := -1; mb < c.NB; mb++ {
		alpha[mb+1] = c14Alphabet(c.Alpha, c.NB, mb, c.Cap)
	}
	hist := make([][]int, 0, c.Depth)
	var rec func(maxBase int) bool
	rec = func(maxBase int) bool {
		if len(hist) == c.Depth {
			r := reuse
			r.Ops, r.Res, r.Probe, r.Ch, r.Viol = r.Ops[:0], r.Res[:0], r.Probe[:0], r.Ch[:0], nil
			cur = r
			rn.arena = rn.arena[:0]
			rn.run(r, hist, false)
			out.Histories++
			out.Calls += len(r.Ops)
			evs, gets := 0, 0
			for i, op := range r.Ops {
				if op[0] == c14Put && len(r.Res[i]) == 2 && r.Res[i][0] >= 0 && r.Res[i][1] == 1 {
					evs++
				}
				if op[0] == c14Get && len(r.Res[i]) == 2 && r.Res[i][0] >= 0 {
					gets++
				}
			}
			if evs > 0 || gets > 0 {
				out.Nontrivial++
			}
			if evs > 15 {
				evs = 15
			}
			if gets > 15 {
				gets = 15
			}
			bev[evs]++
			bhit[gets]++
			for _, v := range r.Viol {
				if v.Sig == "fifo:get:used-block-not-removed" {
					out.Known[v.Sig]++
				}
			}
			if f := c14Fatal(r.Viol); f != nil && !seen[f.Sig] {
				seen[f.Sig] = true
				cp := c14HangRec(r)
				cp.Hang, cp.Viol = false, append([]c14Viol(nil), r.Viol...)
				out.Fail = append(out.Fail, cp)
				if len(out.Fail) >= maxFail {
					return false
				}
			}
			return true
		}
		for _, op := range alpha[maxBase+1] {
			mb := maxBase
			if (op[0] == c14PutNew || op[0] == c14Get) && op[1] > mb {
				mb = op[1]
			}
			hist = append(hist, op)
			ok := rec(mb)
			hist = hist[:len(hist)-1]
			if !ok {
				return false
			}
		}
		return true
	}
	fin, pan := c14Watch(prog, func() { rec(-1) })
	for i := range bev {
		if bev[i] > 0 {
			out.Buckets[fmt.Sprintf("evictions=%d", i)] = bev[i]
		}
		if bhit[i] > 0 {
			out.Buckets[fmt.Sprintf("hits=%d", i)] = bhit[i]
		}
	}
	if !fin {
		out.Hang = true
		if r := prog.cur.Load(); r != nil {
			h := c14HangRec(r)
			out.Fail = append(out.Fail, h)
		}
	} else if pan != nil {
		out.Panic = fmt.Sprint(pan)
		if cur != nil {
			cur.Viol = append(cur.Viol, c14Viol{c.Kind + ":panic", fmt.Sprint(pan), len(cur.Ops) - 1})
			out.Fail = append(out.Fail, cur)
		}
	}
	return out
}

// c14HangRec copies the record of a history whose last call did not return.
// The worker is blocked inside the library, so its record no longer changes.
func c14HangRec(r *c14Rec) *c14Rec {
	h := &c14Rec{Kind: r.Kind, Cap: r.Cap, NB: r.NB, Stats: r.Stats, Hang: true}
	deep := func(x [][]int) [][]int {
		var y [][]int
		for _, v := range x {
			if v == nil {
				y = append(y, nil)
			} else {
				y = append(y, append([]int{}, v...))
			}
		}
		return y
	}
	h.Ops, h.Res, h.Probe, h.Ch = deep(r.Ops), deep(r.Res), deep(r.Probe), deep(r.Ch)
	at := len(h.Ops) - 1
	name := "?"
	if at >= 0 {
		name = c14OpName[h.Ops[at][0]]
		if len(h.Res) > at {
			name += "-probe"
		}
	}
	h.Viol = []c14Viol{{r.Kind + ":" + name + ":hang", "the call did not return (no progress)", at}}
	return h
}

func c14Seq(c *c14Case) interface{} {
	prog := &c14Progress{}
	rn := &c14Runner{bl: c14NewBlocks(), prog: prog, nblk: c14MaxBlocks}
	r := &c14Rec{Kind: c.Kind, Cap: c.Cap, NB: c.NB, Stats: c.Stats}
	fin, pan := c14Watch(prog, func() { rn.run(r, c.Ops, true) })
	if !fin {
		return c14HangRec(r)
	}
	if pan != nil {
		r.Viol = append(r.Viol, c14Viol{c.Kind + ":panic", fmt.Sprint(pan), len(r.Ops) - 1})
	}
	return r
}

// ------------------------------------------------------------ concurrent runs

type c14Ev struct {
	T    int   `json:"t"`
	Inv  int64 `json:"inv"`
	Res  int64 `json:"res"`
	Op   []int `json:"op"`
	R    []int `json:"r"`
	Base int   `json:"base"` // put: base and used flag of the block at the call
	Used bool  `json:"used"`
}

type c14ConcOut struct {
	Kind     string    `json:"kind"`
	Cap      int       `json:"cap"`
	NB       int       `json:"nb"`
	Rounds   int       `json:"rounds"`
	Overlaps int       `json:"overlaps"`
	Events   []c14Ev   `json:"events"`
	Order    []int     `json:"order"`
	Ch       [][]int   `json:"ch"`
	Viol     []c14Viol `json:"viol,omitempty"`
	Hang     bool      `json:"hang,omitempty"`
	States   int       `json:"states"`
	Relaxed  int       `json:"relaxed,omitempty"` // rounds explained by the contract only, not by the code as modelled
}

// c14ConcRound runs the threads once.
func c14ConcRound(c *c14Case, bl *c14Blocks, prog *c14Progress, evs *[]c14Ev, mu *sync.Mutex) {
	sut := c14NewSUT(c.Kind, c.Cap, false)
	bl.reset()
	var clock atomic.Int64
	var ready atomic.Int32
	var wg sync.WaitGroup
	g := len(c.Threads)
	per := c14MaxBlocks / g
	// block hand-over between goroutines goes through the cache only; each
	// goroutine re-bases only blocks it owns, so base/used of a block are
	// written by one goroutine at a time (the cache's lock orders them).
	for t := 0; t < g; t++ {
		wg.Add(1)
		go func(t int) {
			defer wg.Done()
			rn := &c14Runner{bl: bl, prog: prog, nblk: c14MaxBlocks}
			rn.cl.init(t*per, (t+1)*per, c.Kind != "fifo")
			for i := range rn.cl.status {
				if i < t*per || i >= (t+1)*per {
					rn.cl.status[i] = c14Given // not this goroutine's
				}
			}
			var local []c14Ev
			ready.Add(1)
			for int(ready.Load()) < g {
				runtime.Gosched()
			}
			for _, sop := range c.Threads[t] {
				for _, op := range rn.resolve(sop) {
					if op[0] == c14Rebase {
						bl.rebase(op[1], int64(op[2]), op[3] == 1)
						continue
					}
					e := c14Ev{T: t, Op: op}
					if op[0] == c14Put {
						e.Base, e.Used = int(bl.base[op[1]]), bl.used[op[1]]
					}
					e.Inv = clock.Add(1)
					e.R = rn.call(sut, op)
					e.Res = clock.Add(1)
					local = append(local, e)
					switch op[0] {
					case c14Put:
						rn.cl.afterPut(op[1], e.R[0], e.R[1] == 1)
					case c14Get:
						rn.cl.afterGet(e.R[0])
					}
				}
			}
			mu.Lock()
			*evs = append(*evs, local...)
			mu.Unlock()
		}(t)
	}
	wg.Wait()
	// final probe as ordinary operations after everything else
	rn := &c14Runner{bl: bl, prog: prog, nblk: c14MaxBlocks}
	fin := [][]int{{c14Len}, {c14Cap}}
	for k := 0; k < c.NB; k++ {
		fin = append(fin, []int{c14Peek, k})
	}
	for _, op := range fin {
		e := c14Ev{T: g, Op: op}
		e.Inv = clock.Add(1)
		e.R = rn.call(sut, op)
		e.Res = clock.Add(1)
		*evs = append(*evs, e)
	}
}

// c14Linearize searches for an order of the events that respects real time
// and that the contract allows. It returns the order (indices into evs) and
// the victims chosen at each step.
func c14Linearize(kind string, cap int, evs []c14Ev, strict bool) (order []int, chs [][]int, states int, why string) {
	n := len(evs)
	done := make([]bool, n)
	memo := map[string]bool{}
	var ord []int
	var ch [][]int
	lastWhy := ""
	var dfs func(r *c14Ref, cnt int) bool
	dfs = func(r *c14Ref, cnt int) bool {
		if cnt == n {
			return true
		}
		key := r.key() + "#"
		for i := 0; i < n; i++ {
			if done[i] {
				key += "1"
			} else {
				key += "0"
			}
		}
		if memo[key] {
			return false
		}
		states++
		// minimal events: not preceded (in real time) by another pending event
		minRes := int64(1) << 62
		for i := 0; i < n; i++ {
			if !done[i] && evs[i].Res < minRes {
				minRes = evs[i].Res
			}
		}
		for i := 0; i < n; i++ {
			if done[i] || evs[i].Inv > minRes {
				continue
			}
			e := &evs[i]
			next, w := r.step(e.Op, e.R, int64(e.Base), e.Used, false, nil)
			if w != "" {
				lastWhy = fmt.Sprintf("%s %v -> %v: %s", c14OpName[e.Op[0]], e.Op[1:], e.R, w)
				continue
			}
			for k := range next {
				nx := &next[k]
				done[i] = true
				ord = append(ord, i)
				gone := []int{}
				for _, x := range r.ent[:r.n] {
					if nx.find(x.base) < 0 {
						gone = append(gone, int(x.base))
					}
				}
				ch = append(ch, gone)
				if dfs(nx, cnt+1) {
					return true
				}
				done[i] = false
				ord = ord[:len(ord)-1]
				ch = ch[:len(ch)-1]
			}
		}
		memo[key] = true
		return false
	}
	if dfs(&c14Ref{kind: kind, cap: cap, strict: strict}, 0) {
		return ord, ch, states, ""
	}
	return nil, nil, states, lastWhy
}

func c14Overlaps(evs []c14Ev) int {
	n := 0
	for i := range evs {
		for j := i + 1; j < len(evs); j++ {
			if evs[i].T != evs[j].T && evs[i].Inv < evs[j].Res && evs[j].Inv < evs[i].Res {
				n++
			}
		}
	}
	return n
}

func c14Conc(c *c14Case) interface{} {
	out := &c14ConcOut{Kind: c.Kind, Cap: c.Cap, NB: c.NB}
	prog := &c14Progress{}
	bl := c14NewBlocks()
	rounds := c.Rounds
	if rounds == 0 {
		rounds = 1
	}
	var best []c14Ev
	bestOv := -1
	for round := 0; round < rounds; round++ {
		var evs []c14Ev
		var mu sync.Mutex
		fin, pan := c14Watch(prog, func() { c14ConcRound(c, bl, prog, &evs, &mu) })
		out.Rounds++
		if !fin {
			out.Hang = true
			out.Viol = append(out.Viol, c14Viol{c.Kind + ":concurrent:hang", "goroutines stopped making progress", 0})
			return out
		}
		if pan != nil {
			out.Viol = append(out.Viol, c14Viol{c.Kind + ":concurrent:panic", fmt.Sprint(pan), 0})
			return out
		}
		sort.SliceStable(evs, func(i, j int) bool { return evs[i].Inv < evs[j].Inv })
		// direct statement: Get never exposes another base
		for i, e := range evs {
			if e.Op[0] == c14Get && e.R[0] != -1 && e.R[1] != e.Op[1] {
				out.Events = evs
				out.Viol = append(out.Viol, c14Viol{c.Kind + ":get:wrong-base", fmt.Sprintf("concurrent Get(%d) returned a block with base %d", e.Op[1], e.R[1]), i})
				return out
			}
		}
		ov := c14Overlaps(evs)
		// first an order that the code as it is (and so the Coq model of
		// it) explains; failing that, any order the contract admits - the
		// Coq evaluation then reports that the model no longer describes the
		// code, which is what such a run means.
		order, ch, states, why := c14Linearize(c.Kind, c.Cap, evs, true)
		out.States += states
		if order == nil {
			out.Relaxed++
			order, ch, states, why = c14Linearize(c.Kind, c.Cap, evs, false)
			out.States += states
		}
		if order == nil {
			out.Events = evs
			out.Overlaps = ov
			out.Viol = append(out.Viol, c14Viol{c.Kind + ":concurrent:not-linearizable", "no order of the calls consistent with real time is allowed by the contract; last refusal: " + why, 0})
			return out
		}
		if ov > bestOv {
			bestOv, best = ov, evs
			out.Order, out.Ch = order, ch
		}
	}
	out.Events = best
	out.Overlaps = bestOv
	return out
}

func c14(raw json.RawMessage) interface{} {
	var c c14Case
	if err := json.Unmarshal(raw, &c); err != nil {
		return map[string]interface{}{"bad_case": err.Error()}
	}
	if c.NB == 0 {
		c.NB = 3
	}
	switch c.Mode {
	case "seq":
		return c14Seq(&c)
	case "exh":
		return c14Exh(&c)
	case "conc":
		return c14Conc(&c)
	}
	return map[string]interface{}{"bad_case": "mode"}
}
