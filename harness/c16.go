package main

import (
	"encoding/json"
	"fmt"

	"github.com/biogo/hts/bam"
	"github.com/biogo/hts/csi"
	"github.com/biogo/hts/sam"
)

func init() { register("c16", c16) }

type c16case struct {
	Op     string   `json:"op"`
	Flags  int      `json:"flags"`
	Pos    int      `json:"pos"`
	Cigar  []uint32 `json:"cigar"`
	SeqLen int      `json:"seqlen"`
	T      int      `json:"t"`
	N      int      `json:"n"`
	B1     int64    `json:"b1"`
	E1     int64    `json:"e1"`
	B2     int64    `json:"b2"`
	E2     int64    `json:"e2"`
	MinSh  uint32   `json:"minshift"`
	Depth  uint32   `json:"depth"`
}

// c16call runs f and reports either its value or the panic message.
func c16call(f func() interface{}) (out map[string]interface{}) {
	defer func() {
		if r := recover(); r != nil {
			out = map[string]interface{}{"panic": fmt.Sprint(r)}
		}
	}()
	return map[string]interface{}{"v": f()}
}

func c16ints(l []uint32) []int64 {
	r := make([]int64, len(l))
	for i, x := range l {
		r[i] = int64(x)
	}
	return r
}

func c16(raw json.RawMessage) interface{} {
	var c c16case
	if err := json.Unmarshal(raw, &c); err != nil {
		return map[string]interface{}{"bad_case": err.Error()}
	}
	switch c.Op {
	case "rec":
		cg := make(sam.Cigar, len(c.Cigar))
		for i, x := range c.Cigar {
			cg[i] = sam.CigarOp(x)
		}
		if len(c.Cigar) == 0 {
			cg = nil
		}
		r := &sam.Record{Pos: c.Pos, Flags: sam.Flags(c.Flags), Cigar: cg}
		types := make([]int, len(cg))
		lens := make([]int, len(cg))
		for i, co := range cg {
			types[i] = int(co.Type())
			lens[i] = co.Len()
		}
		return map[string]interface{}{
			"types":   types,
			"lens":    lens,
			"start":   c16call(func() interface{} { return r.Start() }),
			"end":     c16call(func() interface{} { return r.End() }),
			"len":     c16call(func() interface{} { return r.Len() }),
			"bin":     c16call(func() interface{} { return r.Bin() }),
			"lengths": c16call(func() interface{} { a, b := cg.Lengths(); return []int{a, b} }),
			"isvalid": c16call(func() interface{} { return cg.IsValid(c.SeqLen) }),
		}
	case "newop":
		return map[string]interface{}{
			"op": c16call(func() interface{} {
				co := sam.NewCigarOp(sam.CigarOpType(c.T), c.N)
				return []int64{int64(co), int64(co.Type()), int64(co.Len())}
			}),
		}
	case "bai":
		return map[string]interface{}{
			"bin":  c16call(func() interface{} { return int64(bam.VerifBinFor(int(c.B1), int(c.E1))) }),
			"bins": c16call(func() interface{} { return c16ints(bam.VerifOverlappingBinsFor(int(c.B2), int(c.E2))) }),
		}
	case "csi":
		return map[string]interface{}{
			"bin":  c16call(func() interface{} { return int64(csi.VerifReg2bin(c.B1, c.E1, c.MinSh, c.Depth)) }),
			"bins": c16call(func() interface{} { return c16ints(csi.VerifReg2bins(c.B2, c.E2, c.MinSh, c.Depth)) }),
		}
	}
	return map[string]interface{}{"bad_case": "op"}
}
