package main

import (
	"encoding/json"
	"fmt"

	"github.com/biogo/hts/bam"
	"github.com/biogo/hts/csi"
	"github.com/biogo/hts/sam"
)

func init() { register("c16", c16) }

type c16case struct {
	Op     string   `json:"op"`
	Flags  int      `json:"flags"`
	Pos    int      `json:"pos"`
	Cigar  []uint32 `json:"cigar"`
	SeqLen int      `json:"seqlen"`
	T      int      `json:"t"`
	N      int      `json:"n"`
	B1     int64    `json:"b1"`
	E1     int64    `json:"e1"`
	B2     int64    `json:"b2"`
	E2     int64    `json:"e2"`
	MinSh  uint32   `json:"minshift"`
	Depth  uint32   `json:"depth"`
	Win    int64    `json:"win"`
	NTiles int64    `json:"ntiles"`
}

// c16call runs f and reports either its value or the panic message.
func c16call(f func() interface{}) (out map[string]interface{}) {
	defer func() {
		if r := recover(); r != nil {
			out = map[string]interface{}{"panic": fmt.Sprint(r)}
		}
	}()
	return map[string]interface{}{"v": f()}
}

func c16ints(l []uint32) []int64 {
	r := make([]int64, len(l))
	for i, x := range l {
		r[i] = int64(x)
	}
	return r
}

func c16(raw json.RawMessage) interface{} {
	var c c16case
	if err := json.Unmarshal(raw, &c); err != nil {
		return map[string]interface{}{"bad_case": err.Error()}
	}
	switch c.Op {
	case "rec":
		cg := make(sam.Cigar, len(c.Cigar))
		for i, x := range c.Cigar {
			cg[i] = sam.CigarOp(x)
		}
		if len(c.Cigar) == 0 {
			cg = nil
		}
		r := &sam.Record{Pos: c.Pos, Flags: sam.Flags(c.Flags), Cigar: cg}
		types := make([]int, len(cg))
		lens := make([]int, len(cg))
		for i, co := range cg {
			types[i] = int(co.Type())
			lens[i] = co.Len()
		}
		return map[string]interface{}{
			"types":   types,
			"lens":    lens,
			"start":   c16call(func() interface{} { return r.Start() }),
			"end":     c16call(func() interface{} { return r.End() }),
			"len":     c16call(func() interface{} { return r.Len() }),
			"bin":     c16call(func() interface{} { return r.Bin() }),
			"lengths": c16call(func() interface{} { a, b := cg.Lengths(); return []int{a, b} }),
			"isvalid": c16call(func() interface{} { return cg.IsValid(c.SeqLen) }),
		}
	case "newop":
		return map[string]interface{}{
			"op": c16call(func() interface{} {
				co := sam.NewCigarOp(sam.CigarOpType(c.T), c.N)
				return []int64{int64(co), int64(co.Type()), int64(co.Len())}
			}),
		}
	case "bai":
		return map[string]interface{}{
			"bin":  c16call(func() interface{} { return int64(bam.VerifBinFor(int(c.B1), int(c.E1))) }),
			"bins": c16call(func() interface{} { return c16ints(bam.VerifOverlappingBinsFor(int(c.B2), int(c.E2))) }),
		}
	case "csi":
		return map[string]interface{}{
			"bin":  c16call(func() interface{} { return int64(csi.VerifReg2bin(c.B1, c.E1, c.MinSh, c.Depth)) }),
			"bins": c16call(func() interface{} { return c16ints(csi.VerifReg2bins(c.B2, c.E2, c.MinSh, c.Depth)) }),
		}
	case "sweep_csi":
		return c16sweep(c.MinSh, c.Depth, nil, func(b, e int64) uint32 { return csi.VerifReg2bin(b, e, c.MinSh, c.Depth) },
			func(b, e int64) []uint32 { return csi.VerifReg2bins(b, e, c.MinSh, c.Depth) })
	case "sweep_bai_full":
		// every (begin tile, end tile) pair of the 2^15 x 2^15 tile grid: the smallest bin containing
		// tiles [bt, et] is the bin in which bt and et fall into different children (or a single tile)
		n := 0
		var fails []map[string]interface{}
		num := int64(0)
		for l := 0; l <= 5; l++ {
			w := int64(1) << (3 * (5 - l)) // tiles per bin of this level
			for i := int64(0); i < 1<<(3*l); i++ {
				lo := i * w
				for bt := lo; bt < lo+w; bt++ {
					for et := bt; et < lo+w; et++ {
						if l < 5 && (bt-lo)/(w/8) == (et-lo)/(w/8) {
							continue // both in the same child: a smaller bin contains them
						}
						n++
						if got := int64(bam.VerifBinFor(int(bt<<14), int((et+1)<<14))); got != num+i && len(fails) < 3 {
							fails = append(fails, map[string]interface{}{"kind": "bin", "b1": bt << 14, "e1": (et + 1) << 14, "b2": bt << 14, "e2": (et + 1) << 14, "got": got, "want": num + i})
						}
					}
				}
			}
			num += 1 << (3 * l)
		}
		return map[string]interface{}{"intervals": n, "pairs": 0, "fails": fails}
	case "sweep_bai":
		// end points: the boundaries of ntiles consecutive 16 KiB tiles starting at tile win, each -1, +0, +1
		var pts []int64
		for t := c.Win; t <= c.Win+c.NTiles; t++ {
			for d := int64(-1); d <= 1; d++ {
				x := t<<14 + d
				if x >= 0 && x <= 1<<29 && (len(pts) == 0 || pts[len(pts)-1] < x) {
					pts = append(pts, x)
				}
			}
		}
		return c16sweep(14, 5, pts, func(b, e int64) uint32 { return bam.VerifBinFor(int(b), int(e)) },
			func(b, e int64) []uint32 { return bam.VerifOverlappingBinsFor(int(b), int(e)) })
	}
	return map[string]interface{}{"bad_case": "op"}
}

type c16bin struct {
	num    uint32
	lo, hi int64
}

// c16sweep checks, for every interval with end points in pts (all of
// [0, 2^(ms+3*depth)] when pts is nil) and for every overlapping pair of such
// intervals, the three statements of the property against the geometry of the
// binning scheme (bins enumerated one by one, nothing computed by shifting):
// the bin is the smallest bin containing the interval, the bin list is the set
// of bins meeting the interval (no repeats), the bin of one interval is in the
// list of every interval overlapping it.
func c16sweep(ms, depth uint32, pts []int64, binOf func(b, e int64) uint32, binsOf func(b, e int64) []uint32) interface{} {
	top := int64(1) << (ms + 3*depth)
	if pts == nil {
		if top > 128 {
			return map[string]interface{}{"bad_case": "geometry too large for a full sweep"}
		}
		for x := int64(0); x <= top; x++ {
			pts = append(pts, x)
		}
	}
	var all []c16bin
	num := uint32(0)
	for l := uint32(0); l <= depth; l++ {
		w := top >> (3 * l)
		for i := int64(0); i*w < top; i++ {
			all = append(all, c16bin{num, i * w, (i + 1) * w})
			num++
		}
	}
	type iv struct {
		b, e int64
		bin  uint32
		set  map[uint32]bool
	}
	var ivs []iv
	var fails []map[string]interface{}
	fail := func(kind string, b1, e1, b2, e2 int64, got, want interface{}) {
		if len(fails) < 3 {
			fails = append(fails, map[string]interface{}{"kind": kind, "b1": b1, "e1": e1, "b2": b2, "e2": e2, "got": got, "want": want})
		}
	}
	// candidate bins: only those meeting the hull of pts (keeps the BAI sweep cheap without using the code's arithmetic)
	var cand []c16bin
	for _, bn := range all {
		if bn.lo < pts[len(pts)-1] && pts[0] < bn.hi {
			cand = append(cand, bn)
		}
	}
	for i, b := range pts {
		for _, e := range pts[i+1:] {
			var want uint32
			wantW := int64(-1)
			wantSet := map[uint32]bool{}
			for _, bn := range cand {
				if bn.lo <= b && e <= bn.hi && (wantW < 0 || bn.hi-bn.lo < wantW) {
					want, wantW = bn.num, bn.hi-bn.lo
				}
				if bn.lo < e && b < bn.hi {
					wantSet[bn.num] = true
				}
			}
			got := binOf(b, e)
			if got != want {
				fail("bin", b, e, b, e, got, want)
			}
			list := binsOf(b, e)
			set := map[uint32]bool{}
			for _, k := range list {
				if set[k] {
					fail("bins-duplicate", b, e, b, e, k, nil)
				}
				set[k] = true
				if !wantSet[k] {
					fail("bins-extra", b, e, b, e, k, nil)
				}
			}
			for k := range wantSet {
				if !set[k] {
					fail("bins-missing", b, e, b, e, nil, k)
				}
			}
			ivs = append(ivs, iv{b, e, got, set})
		}
	}
	pairs := 0
	for _, x := range ivs {
		for _, y := range ivs {
			if x.b < y.e && y.b < x.e {
				pairs++
				if !y.set[x.bin] {
					fail("bin-not-in-bins", x.b, x.e, y.b, y.e, x.bin, nil)
				}
			}
		}
	}
	return map[string]interface{}{"intervals": len(ivs), "pairs": pairs, "fails": fails}
}
