package main

import (
	"encoding/json"
	"fmt"

	"github.com/biogo/hts/bgzf"
	"github.com/biogo/hts/bgzf/index"
)

func init() { register("c17", c17) }

// A case is one chunk list and a set of Compressor thresholds; every
// strategy is run on a fresh copy of the list (strategies work in place).
// Chunks are [beginFile, beginBlock, endFile, endBlock].
type c17case struct {
	Chunks [][4]int64 `json:"chunks"`
	Nil    bool       `json:"nil"`   // pass a nil slice instead of an empty one
	Nears  []int64    `json:"nears"` // thresholds for CompressorStrategy
}

type c17run struct {
	Out    [][4]int64 `json:"out"`    // result of the strategy
	OutNil bool       `json:"outnil"` // result is a nil slice
	Twice  [][4]int64 `json:"twice"`  // strategy applied to a copy of its own result
}

func c17chunks(in [][4]int64, isnil bool) []bgzf.Chunk {
	if isnil && len(in) == 0 {
		return nil
	}
	cs := make([]bgzf.Chunk, len(in))
	for i, c := range in {
		cs[i] = bgzf.Chunk{
			Begin: bgzf.Offset{File: c[0], Block: uint16(c[1])},
			End:   bgzf.Offset{File: c[2], Block: uint16(c[3])},
		}
	}
	return cs
}

func c17flat(cs []bgzf.Chunk) [][4]int64 {
	out := make([][4]int64, len(cs))
	for i, c := range cs {
		out[i] = [4]int64{c.Begin.File, int64(c.Begin.Block), c.End.File, int64(c.End.Block)}
	}
	return out
}

func c17apply(s index.MergeStrategy, in [][4]int64, isnil bool) (r interface{}) {
	defer func() {
		if e := recover(); e != nil {
			r = map[string]interface{}{"panic": fmt.Sprint(e)}
		}
	}()
	return c17apply1(s, in, isnil)
}

func c17apply1(s index.MergeStrategy, in [][4]int64, isnil bool) c17run {
	arg := c17chunks(in, isnil)
	res := s(arg)
	r := c17run{Out: c17flat(res), OutNil: res == nil}
	again := make([]bgzf.Chunk, len(res))
	copy(again, res)
	r.Twice = c17flat(s(again))
	return r
}

func c17(raw json.RawMessage) interface{} {
	var c c17case
	if err := json.Unmarshal(raw, &c); err != nil {
		return map[string]interface{}{"bad_case": err.Error()}
	}
	for _, ch := range c.Chunks {
		if ch[1] < 0 || ch[1] > 0xffff || ch[3] < 0 || ch[3] > 0xffff {
			return map[string]interface{}{"bad_case": "block offset out of uint16 range"}
		}
	}
	comp := make([]interface{}, len(c.Nears))
	for i, n := range c.Nears {
		comp[i] = c17apply(index.CompressorStrategy(n), c.Chunks, c.Nil)
	}
	return map[string]interface{}{
		"identity":   c17apply(index.Identity, c.Chunks, c.Nil),
		"adjacent":   c17apply(index.Adjacent, c.Chunks, c.Nil),
		"squash":     c17apply(index.Squash, c.Chunks, c.Nil),
		"compressor": comp,
	}
}
