package main

// C18: bam.Merger. One case = a set of BAM inputs (own header each, records,
// optional fault position) + the less function; the observation is the
// sequence of (record, error) from Merger.Read and Merger.Header().

import (
	"bytes"
	"encoding/json"
	"errors"
	"fmt"
	"io"
	"runtime/debug"

	"github.com/biogo/hts/bam"
	"github.com/biogo/hts/bgzf"
	"github.com/biogo/hts/sam"
)

func init() {
	register("c18", c18)
	// unbounded recursion must end as an ordinary crash quickly, not after 1 GB of stack
	debug.SetMaxStack(64 << 20)
}

type c18rec struct {
	UID  int    `json:"uid"`
	Name string `json:"name"`
	Ref  int    `json:"ref"`
	Pos  int    `json:"pos"`
	MRef int    `json:"mref"`
	MPos int    `json:"mpos"`
	Key  int    `json:"key"`
	Pad  int    `json:"pad"` // sequence length (0: one base); long sequences make records span BGZF blocks
}

type c18input struct {
	Refs [][2]interface{} `json:"refs"` // [name, length]
	SO   int              `json:"so"`
	Recs []c18rec         `json:"recs"`
	Fail int              `json:"fail"` // -1: none; n: reading record n (0-based; len(recs) = the end marker) fails
	Kind string           `json:"kind"` // "err": the io.Reader returns an error; "trunc": the stream just stops
	Rd   int              `json:"rd"`
	GO   int              `json:"go"`     // header group order
	Lay  string           `json:"layout"` // "block": every record in a BGZF block of its own; "natural": as bam.Writer lays it out
	Wc   int              `json:"wc"`     // writer concurrency for the natural layout
	Tag  bool             `json:"tag"`    // the references of this input carry a non-standard @SQ tag (equal to, but replaced by, the plain ones of other inputs)
}

type c18case struct {
	Op     string     `json:"op"`
	Less   int        `json:"less"`
	Inputs []c18input `json:"inputs"`
	After  int        `json:"after"`
	// op "less": direct evaluation of the two sam.Record comparison methods
	A, B c18rec
	LRefs []string `json:"lrefs"`
}

var c18errFault = errors.New("c18: injected read fault")

type c18faultReader struct {
	data []byte
	off  int
	cut  int // -1: no fault
	kind string
}

func (f *c18faultReader) Read(p []byte) (int, error) {
	lim := len(f.data)
	if f.cut >= 0 && f.cut < lim {
		lim = f.cut
	}
	if f.off >= lim {
		if f.cut >= 0 && f.kind == "err" {
			return 0, c18errFault
		}
		return 0, io.EOF
	}
	n := copy(p, f.data[f.off:lim])
	f.off += n
	return n, nil
}

func c18less(code int) func(a, b *sam.Record) bool {
	switch code {
	case 1:
		return func(a, b *sam.Record) bool { return a.Pos < b.Pos }
	case 2:
		return func(a, b *sam.Record) bool { return a.Pos > b.Pos }
	case 3:
		return func(a, b *sam.Record) bool { return a.MapQ < b.MapQ }
	case 4:
		return func(a, b *sam.Record) bool { return a.Pos <= b.Pos }
	case 5:
		return func(a, b *sam.Record) bool { return false }
	}
	return nil
}

func c18header(in c18input) (*sam.Header, error) {
	var refs []*sam.Reference
	for _, r := range in.Refs {
		name, _ := r[0].(string)
		ln, _ := r[1].(float64)
		ref, err := sam.NewReference(name, "", "", int(ln), nil, nil)
		if err != nil {
			return nil, err
		}
		if in.Tag {
			if err := ref.Set(sam.NewTag("XT"), "t"); err != nil {
				return nil, err
			}
		}
		refs = append(refs, ref)
	}
	h, err := sam.NewHeader(nil, refs)
	if err != nil {
		return nil, err
	}
	h.Version = "1.6"
	h.SortOrder = sam.SortOrder(in.SO)
	h.GroupOrder = sam.GroupOrder(in.GO)
	return h, nil
}

func c18record(h *sam.Header, r c18rec) *sam.Record {
	rec := &sam.Record{
		Name:    r.Name,
		Pos:     r.Pos,
		MapQ:    byte(r.Key),
		MatePos: r.MPos,
		TempLen: r.UID,
		Seq:     sam.NewSeq([]byte("A")),
		Qual:    []byte{30},
	}
	if r.Pad > 1 {
		seq := make([]byte, r.Pad)
		qual := make([]byte, r.Pad)
		for i := range seq {
			seq[i] = "ACGT"[(i*7+r.UID)%4]
			qual[i] = byte((i*13 + r.UID) % 40)
		}
		rec.Seq = sam.NewSeq(seq)
		rec.Qual = qual
	}
	if r.Ref >= 0 {
		rec.Ref = h.Refs()[r.Ref]
		rec.Cigar = sam.Cigar{sam.NewCigarOp(sam.CigarMatch, 1)}
	} else {
		rec.Flags |= sam.Unmapped
	}
	if r.MRef >= 0 {
		rec.MateRef = h.Refs()[r.MRef]
		rec.Flags |= sam.Paired
	}
	return rec
}

// c18build writes one input as BAM with every record in a BGZF block of its
// own and returns the bytes and the offset of the block of each record (the
// last entry is the offset of the end marker).
func c18build(in c18input) ([]byte, []int, error) {
	h, err := c18header(in)
	if err != nil {
		return nil, nil, err
	}
	var buf bytes.Buffer
	if in.Lay == "natural" {
		// an ordinary BAM file: records share and span BGZF blocks
		wc := in.Wc
		if wc < 1 {
			wc = 1
		}
		bw, err := bam.NewWriter(&buf, h, wc)
		if err != nil {
			return nil, nil, err
		}
		for _, r := range in.Recs {
			if err := bw.Write(c18record(h, r)); err != nil {
				return nil, nil, err
			}
		}
		if err := bw.Close(); err != nil {
			return nil, nil, err
		}
		// only the end marker (the last 28 bytes) is a known block boundary
		offs := make([]int, len(in.Recs)+1)
		for i := range offs {
			offs[i] = -1
		}
		offs[len(in.Recs)] = buf.Len() - 28
		return buf.Bytes(), offs, nil
	}
	bg := bgzf.NewWriter(&buf, 1)
	bw, err := bam.NewWriter(bg, h, 1)
	if err != nil {
		return nil, nil, err
	}
	var offs []int
	for _, r := range in.Recs {
		offs = append(offs, buf.Len())
		if err := bw.Write(c18record(h, r)); err != nil {
			return nil, nil, err
		}
		if err := bg.Flush(); err != nil {
			return nil, nil, err
		}
		if err := bg.Wait(); err != nil {
			return nil, nil, err
		}
	}
	offs = append(offs, buf.Len())
	if err := bw.Close(); err != nil {
		return nil, nil, err
	}
	return buf.Bytes(), offs, nil
}

func c18errClass(err error) string {
	switch {
	case err == nil:
		return "nil"
	case err == io.EOF:
		return "eof"
	case errors.Is(err, c18errFault):
		return "fault"
	case errors.Is(err, io.ErrUnexpectedEOF):
		return "trunc"
	}
	return "err:" + err.Error()
}

func c18refObs(h *sam.Header, r *sam.Reference) (int, string, bool) {
	if r == nil {
		return -1, "*", true
	}
	id := r.ID()
	ok := id >= 0 && id < len(h.Refs()) && h.Refs()[id] == r
	return id, r.Name(), ok
}

// c18read performs one Merger.Read under recover.
func c18read(m *bam.Merger) (rec *sam.Record, err error, pan string) {
	defer func() {
		if r := recover(); r != nil {
			pan = fmt.Sprint(r)
		}
	}()
	rec, err = m.Read()
	return
}

func c18lessOp(c c18case) interface{} {
	var refs []*sam.Reference
	for _, n := range c.LRefs {
		r, err := sam.NewReference(n, "", "", 1000, nil, nil)
		if err != nil {
			return map[string]interface{}{"bad_case": err.Error()}
		}
		refs = append(refs, r)
	}
	h, err := sam.NewHeader(nil, refs)
	if err != nil {
		return map[string]interface{}{"bad_case": err.Error()}
	}
	mk := func(r c18rec) *sam.Record {
		rec := &sam.Record{Name: r.Name, Pos: r.Pos}
		if r.Ref >= 0 {
			rec.Ref = h.Refs()[r.Ref]
		}
		return rec
	}
	a, b := mk(c.A), mk(c.B)
	return map[string]interface{}{
		"name":  a.LessByName(b),
		"coord": a.LessByCoordinate(b),
	}
}

func c18(raw json.RawMessage) interface{} {
	var c c18case
	if err := json.Unmarshal(raw, &c); err != nil {
		return map[string]interface{}{"bad_case": err.Error()}
	}
	if c.Op == "less" {
		return c18lessOp(c)
	}
	var srcs []*bam.Reader
	for i, in := range c.Inputs {
		data, offs, err := c18build(in)
		if err != nil {
			return map[string]interface{}{"bad_case": fmt.Sprintf("input %d: %v", i, err)}
		}
		fr := &c18faultReader{data: data, cut: -1, kind: in.Kind}
		if in.Fail >= 0 {
			if in.Fail >= len(offs) || offs[in.Fail] < 0 {
				return map[string]interface{}{"bad_case": "fail position"}
			}
			// inside the BGZF header of the block that holds record `fail`
			fr.cut = offs[in.Fail] + 7
		}
		rd := in.Rd
		if rd <= 0 {
			rd = 1
		}
		br, err := bam.NewReader(fr, rd)
		if err != nil {
			return map[string]interface{}{"bad_case": fmt.Sprintf("input %d: reader: %v", i, err)}
		}
		defer br.Close()
		srcs = append(srcs, br)
	}
	out := map[string]interface{}{}
	var m *bam.Merger
	var nerr error
	func() {
		defer func() {
			if r := recover(); r != nil {
				out["newpanic"] = fmt.Sprint(r)
			}
		}()
		m, nerr = bam.NewMerger(c18less(c.Less), srcs...)
	}()
	if _, p := out["newpanic"]; p {
		return out
	}
	out["newerr"] = c18errClass(nerr)
	if nerr != nil || m == nil {
		return out
	}
	h := m.Header()
	var hrefs [][2]interface{}
	for _, r := range h.Refs() {
		hrefs = append(hrefs, [2]interface{}{r.Name(), r.Len()})
	}
	out["hrefs"] = hrefs
	out["hso"] = int(h.SortOrder)
	out["hgo"] = int(h.GroupOrder)
	total := 0
	for _, in := range c.Inputs {
		total += len(in.Recs)
	}
	reads := []map[string]interface{}{}
	end := "limit"
	for n := 0; n <= total+2; n++ {
		rec, err, pan := c18read(m)
		if pan != "" {
			end = "panic:" + pan
			break
		}
		if rec != nil {
			id, name, ok := c18refObs(h, rec.Ref)
			mid, mname, mok := c18refObs(h, rec.MateRef)
			reads = append(reads, map[string]interface{}{
				"uid": rec.TempLen, "name": rec.Name, "pos": rec.Pos, "key": int(rec.MapQ),
				"ref": id, "refname": name, "refok": ok,
				"mref": mid, "mrefname": mname, "mrefok": mok,
				"err": c18errClass(err),
			})
			if err != nil {
				end = "rec+" + c18errClass(err)
				break
			}
			continue
		}
		if err == nil {
			end = "nil-nil"
			break
		}
		end = c18errClass(err)
		break
	}
	out["reads"] = reads
	out["end"] = end
	after := []string{}
	if end == "eof" || end == "fault" || end == "trunc" {
		for k := 0; k < c.After; k++ {
			rec, err, pan := c18read(m)
			switch {
			case pan != "":
				after = append(after, "panic:"+pan)
			case rec != nil:
				after = append(after, "rec")
			default:
				after = append(after, c18errClass(err))
			}
		}
	}
	out["after"] = after
	return out
}
