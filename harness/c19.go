package main

// C19: fai.NewIndex, WriteTo/ReadFrom, File.Seq/SeqRange and Seq.Read on one
// FASTA file given as bytes.  Observations are projected to what the
// property talks about: index records, TSV bytes, bytes and error class
// (nil / io.EOF / other) of every Read call, panics.

import (
	"bufio"
	"bytes"
	"encoding/csv"
	"encoding/json"
	"errors"
	"fmt"
	"io"
	"sort"
	"strconv"
	"strings"

	"github.com/biogo/hts/fai"
)

func init() { register("c19", c19) }

type c19query struct {
	Name  []int `json:"name"`
	Whole bool  `json:"whole"`
	S     int   `json:"s"`
	E     int   `json:"e"`
	Sizes []int `json:"sizes"`
}

type c19long struct {
	Pre  []int `json:"pre"`
	N    int   `json:"n"`
	Post []int `json:"post"`
}

type c19case struct {
	Long    *c19long   `json:"long"`
	File    []int      `json:"file"`
	Tsv     []int      `json:"tsv"`
	TsvOnly bool       `json:"tsv_only"`
	Queries []c19query `json:"queries"`
}

type c19rec struct {
	Name  []int `json:"name"`
	Len   int   `json:"len"`
	Start int64 `json:"start"`
	Bases int   `json:"bases"`
	Bytes int   `json:"bytes"`
}

type c19idx struct {
	Err  int      `json:"err"`
	Msg  string   `json:"msg,omitempty"`
	Recs []c19rec `json:"recs"`
}

type c19read struct {
	N    int   `json:"n"`
	Data []int `json:"data"`
	Err  int   `json:"err"`
}

type c19qobs struct {
	Open    int       `json:"open"`
	OpenMsg string    `json:"open_msg,omitempty"`
	Reads   []c19read `json:"reads"`
	Panic   string    `json:"panic,omitempty"`
	// the same script over the eager-EOF ReaderAt
	EagerOpen  int       `json:"eager_open"`
	EagerReads []c19read `json:"eager_reads"`
	EagerPanic string    `json:"eager_panic,omitempty"`
}

// c19eagerReaderAt keeps the io.ReaderAt contract but makes the other legal
// choice where bytes.Reader answers nil: when the bytes asked for end exactly
// at the end of the source it returns them together with io.EOF ("ReadAt may
// return either err == EOF or err == nil").
type c19eagerReaderAt struct{ data []byte }

func (r c19eagerReaderAt) ReadAt(p []byte, off int64) (int, error) {
	if off < 0 {
		return 0, errors.New("c19eagerReaderAt: negative offset")
	}
	if off >= int64(len(r.data)) {
		return 0, io.EOF
	}
	n := copy(p, r.data[off:])
	if n < len(p) || off+int64(n) == int64(len(r.data)) {
		return n, io.EOF
	}
	return n, nil
}

func c19newIndexErr(err error) int {
	if err == nil {
		return 0
	}
	m := err.Error()
	switch {
	case strings.HasPrefix(m, "fai: missing sequence name"):
		return 1
	case strings.HasPrefix(m, "fai: duplicate sequence identifier"):
		return 2
	case strings.HasPrefix(m, "fai: unexpected short line"):
		return 3
	case strings.HasPrefix(m, "fai: unexpected long line"):
		return 4
	case errors.Is(err, bufio.ErrTooLong):
		return 5
	}
	return 9
}

func c19readFromErr(err error) int {
	if err == nil {
		return 0
	}
	var pe *csv.ParseError
	if errors.As(err, &pe) {
		var ne *strconv.NumError
		switch {
		case pe.Err == csv.ErrFieldCount:
			return 1
		case pe.Err == fai.ErrNonUnique:
			return 2
		case errors.As(pe.Err, &ne):
			return 3
		case pe.Err != nil && pe.Err.Error() == "invalid record geometry":
			return 5
		}
		return 4 // quoting
	}
	return 9
}

func c19idxObs(idx fai.Index, code int, err error) c19idx {
	o := c19idx{Err: code, Recs: []c19rec{}}
	if err != nil {
		o.Msg = err.Error()
		return o
	}
	for k, r := range idx {
		if k != r.Name {
			o.Msg = fmt.Sprintf("map key %q holds record named %q", k, r.Name)
			o.Err = 8
		}
		o.Recs = append(o.Recs, c19rec{Name: ints([]byte(r.Name)), Len: r.Length, Start: r.Start, Bases: r.BasesPerLine, Bytes: r.BytesPerLine})
	}
	sort.Slice(o.Recs, func(i, j int) bool {
		if o.Recs[i].Start != o.Recs[j].Start {
			return o.Recs[i].Start < o.Recs[j].Start
		}
		return string(bytesOf(o.Recs[i].Name)) < string(bytesOf(o.Recs[j].Name))
	})
	return o
}

func c19errClass(err error) int {
	switch err {
	case nil:
		return 0
	case io.EOF:
		return 1
	}
	return 2
}

func c19runQuery(f *fai.File, q c19query) (o c19qobs) {
	o.Reads = []c19read{}
	defer func() {
		if r := recover(); r != nil {
			o.Panic = fmt.Sprint(r)
		}
	}()
	var s *fai.Seq
	var err error
	name := string(bytesOf(q.Name))
	if q.Whole {
		s, err = f.Seq(name)
	} else {
		s, err = f.SeqRange(name, q.S, q.E)
	}
	if err != nil {
		o.OpenMsg = err.Error()
		switch {
		case strings.Contains(o.OpenMsg, "no sequence"):
			o.Open = 1
		case strings.Contains(o.OpenMsg, "out of range"):
			o.Open = 2
		default:
			o.Open = 9
		}
		return o
	}
	for _, k := range q.Sizes {
		if k < 0 {
			s.Reset()
			continue
		}
		// the buffer is pre-filled so that bytes beyond n are seen to be left alone
		b := bytes.Repeat([]byte{0xEE}, k)
		n, err := s.Read(b)
		rd := c19read{N: n, Err: c19errClass(err)}
		if n < 0 || n > k {
			rd.Data = []int{}
			o.Reads = append(o.Reads, rd)
			o.Panic = fmt.Sprintf("Read returned n=%d for a buffer of %d", n, k)
			return o
		}
		rd.Data = ints(b[:n])
		for _, c := range b[n:] {
			if c != 0xEE {
				rd.Err = 7 // wrote beyond the count it reports
			}
		}
		o.Reads = append(o.Reads, rd)
	}
	return o
}

func c19(raw json.RawMessage) interface{} {
	var c c19case
	if err := json.Unmarshal(raw, &c); err != nil {
		return map[string]interface{}{"bad_case": err.Error()}
	}
	if c.TsvOnly {
		idx, err := fai.ReadFrom(textSource(bytesOf(c.Tsv)))
		return map[string]interface{}{"rt": c19idxObs(idx, c19readFromErr(err), err)}
	}
	file := bytesOf(c.File)
	if c.Long != nil {
		// one long line of N bases 'A' between Pre and Post
		file = append(append(bytesOf(c.Long.Pre), bytes.Repeat([]byte{'A'}, c.Long.N)...), bytesOf(c.Long.Post)...)
	}
	idx, err := fai.NewIndex(textSource(file))
	out := map[string]interface{}{"idx": c19idxObs(idx, c19newIndexErr(err), err)}
	if err != nil {
		return out
	}
	var w bytes.Buffer
	werr := fai.WriteTo(&w, idx)
	out["tsv"] = ints(w.Bytes())
	if werr != nil {
		out["tsv_err"] = werr.Error()
	}
	back, rerr := fai.ReadFrom(textSource(w.Bytes()))
	out["rt"] = c19idxObs(back, c19readFromErr(rerr), rerr)
	f := fai.NewFile(bytes.NewReader(file), idx)
	fe := fai.NewFile(c19eagerReaderAt{file}, idx)
	qs := make([]c19qobs, 0, len(c.Queries))
	for _, q := range c.Queries {
		o := c19runQuery(f, q)
		e := c19runQuery(fe, q)
		o.EagerOpen, o.EagerReads, o.EagerPanic = e.Open, e.Reads, e.Panic
		qs = append(qs, o)
	}
	out["queries"] = qs
	return out
}
