package main

import (
	"encoding/json"

	"github.com/biogo/hts/cram/encoding/itf8"
	"github.com/biogo/hts/cram/encoding/ltf8"
)

func init() { register("c20", c20) }

type c20case struct {
	Op  string `json:"op"`
	V   int64  `json:"v"`
	B   []int  `json:"b"`
	Buf []int  `json:"buf"`
}

func c20(raw json.RawMessage) interface{} {
	var c c20case
	if err := json.Unmarshal(raw, &c); err != nil {
		return map[string]interface{}{"bad_case": err.Error()}
	}
	switch c.Op {
	case "itf8enc":
		buf := bytesOf(c.Buf)
		n := itf8.Encode(buf, int32(c.V))
		v, dn, ok := itf8.Decode(buf[:n])
		return map[string]interface{}{"n": n, "buf": ints(buf), "len": itf8.Len(int32(c.V)), "dv": int64(v), "dn": dn, "dok": ok}
	case "ltf8enc":
		buf := bytesOf(c.Buf)
		n := ltf8.Encode(buf, c.V)
		v, dn, ok := ltf8.Decode(buf[:n])
		return map[string]interface{}{"n": n, "buf": ints(buf), "len": ltf8.Len(c.V), "dv": v, "dn": dn, "dok": ok}
	case "itf8dec":
		v, n, ok := itf8.Decode(bytesOf(c.B))
		return map[string]interface{}{"v": int64(v), "n": n, "ok": ok}
	case "ltf8dec":
		v, n, ok := ltf8.Decode(bytesOf(c.B))
		return map[string]interface{}{"v": v, "n": n, "ok": ok}
	}
	return map[string]interface{}{"bad_case": "op"}
}
