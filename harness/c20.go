package main

import (
	"encoding/json"
	"errors"
	"fmt"
	"io"
	"math/bits"
	"math/rand"
	"runtime"
	"sync"

	"github.com/biogo/hts/cram"
	"github.com/biogo/hts/cram/encoding/itf8"
	"github.com/biogo/hts/cram/encoding/ltf8"
)

func init() { register("c20", c20) }

type c20case struct {
	Op    string `json:"op"`
	V     int64  `json:"v"`
	B     []int  `json:"b"`
	Buf   []int  `json:"buf"`
	Mode  int    `json:"mode"`
	Tail  int    `json:"tail"`
	After []int  `json:"after"`
	Ops   []int  `json:"ops"`
	Lo    int64  `json:"lo"`
	Hi    int64  `json:"hi"`
	Seed  int64  `json:"seed"`
	N     int    `json:"n"`
}

func c20(raw json.RawMessage) interface{} {
	var c c20case
	if err := json.Unmarshal(raw, &c); err != nil {
		return map[string]interface{}{"bad_case": err.Error()}
	}
	switch c.Op {
	case "itf8enc":
		buf := bytesOf(c.Buf)
		n, pan := c20encode(func() int { return itf8.Encode(buf, int32(c.V)) })
		if pan != "" {
			return map[string]interface{}{"panic": pan, "buf": ints(buf)}
		}
		v, dn, ok := itf8.Decode(buf[:n])
		return map[string]interface{}{"n": n, "buf": ints(buf), "len": itf8.Len(int32(c.V)), "dv": int64(v), "dn": dn, "dok": ok}
	case "ltf8enc":
		buf := bytesOf(c.Buf)
		n, pan := c20encode(func() int { return ltf8.Encode(buf, c.V) })
		if pan != "" {
			return map[string]interface{}{"panic": pan, "buf": ints(buf)}
		}
		v, dn, ok := ltf8.Decode(buf[:n])
		return map[string]interface{}{"n": n, "buf": ints(buf), "len": ltf8.Len(c.V), "dv": v, "dn": dn, "dok": ok}
	case "itf8dec":
		v, n, ok := itf8.Decode(bytesOf(c.B))
		return map[string]interface{}{"v": int64(v), "n": n, "ok": ok}
	case "ltf8dec":
		v, n, ok := ltf8.Decode(bytesOf(c.B))
		return map[string]interface{}{"v": v, "n": n, "ok": ok}
	case "stream":
		return c20stream(&c)
	case "sweep32":
		return c20sweep32(c.Lo, c.Hi)
	case "batch64":
		return c20batch64(c.Seed, c.N)
	case "decbatch":
		return c20decbatch(c.Seed, c.N)
	}
	return map[string]interface{}{"bad_case": "op"}
}

// c20encode runs an Encode call; a run-time panic is returned as text so that
// the destination can still be reported (it must be untouched).
func c20encode(f func() int) (n int, pan string) {
	defer func() {
		if r := recover(); r != nil {
			pan = fmt.Sprint(r)
		}
	}()
	return f(), ""
}

// ---- stream readers of cram.go ------------------------------------------------

var c20errFault = errors.New("c20: fault of the underlying reader")

// c20reader is the byte source under the errorReader. It counts what it hands
// out and remembers the furthest offset it was ever asked for.
//
//	mode 0: as much as asked for; 1: one byte per call; 2: as 0, and the last
//	bytes come together with the final error; 3: half of what is asked for.
type c20reader struct {
	data    []byte
	pos     int
	mode    int
	tail    error // reported when the data is used up
	faultAt int   // offset at which a transient fault is reported once (-1: never)
	reqend  int
	calls   int
}

func (r *c20reader) Read(p []byte) (int, error) {
	r.calls++
	if len(p) == 0 {
		return 0, nil
	}
	if r.pos+len(p) > r.reqend {
		r.reqend = r.pos + len(p)
	}
	avail := len(r.data) - r.pos
	if r.faultAt >= 0 {
		avail = r.faultAt - r.pos
		if avail == 0 {
			r.faultAt = -1
			return 0, c20errFault
		}
	}
	if avail == 0 {
		return 0, r.tail
	}
	n := len(p)
	switch r.mode {
	case 1:
		n = 1
	case 3:
		n = (len(p) + 1) / 2
	}
	if n > avail {
		n = avail
	}
	copy(p, r.data[r.pos:r.pos+n])
	r.pos += n
	if r.mode == 2 && r.faultAt == r.pos {
		// announced early, together with the last bytes before it; it is
		// reported again (and then cleared) by the next call
		return n, c20errFault
	}
	if r.mode == 2 && r.pos == len(r.data) {
		return n, r.tail
	}
	return n, nil
}

func c20errClass(err error) int {
	switch {
	case err == nil:
		return 0
	case err == io.EOF:
		return 1
	case err == io.ErrUnexpectedEOF:
		return 2
	case err == c20errFault:
		return 4
	}
	return 3
}

func c20stream(c *c20case) interface{} {
	// tail 1: the bytes B, then io.EOF. Otherwise: the bytes B, then a fault
	// reported once, then the bytes After, then io.EOF.
	src := &c20reader{data: bytesOf(c.B), mode: c.Mode, tail: io.EOF, faultAt: -1}
	if c.Tail != 1 {
		src.faultAt = len(src.data)
		src.data = append(src.data, bytesOf(c.After)...)
	}
	er := cram.VerifNewErrorReader(src)
	steps := make([]map[string]interface{}, 0, len(c.Ops))
	for _, op := range c.Ops {
		var vals []int64
		var err error
		switch op {
		case 0:
			var v int32
			v, err = er.ITF8()
			vals = []int64{int64(v)}
		case 1:
			var v int64
			v, err = er.LTF8()
			vals = []int64{v}
		default:
			var s []int32
			s, err = er.ITF8Slice()
			vals = make([]int64, len(s))
			for i, x := range s {
				vals[i] = int64(x)
			}
		}
		st := map[string]interface{}{"vals": vals, "err": c20errClass(err), "consumed": src.pos, "reqend": src.reqend}
		if err != nil {
			st["msg"] = err.Error()
		}
		steps = append(steps, st)
	}
	return map[string]interface{}{"steps": steps}
}

// ---- reference codec, written from the CRAM specification (section 2.3) --------
//
// A value of b significant bits needs ceil(b/7) bytes (at least one); the first
// byte starts with one 1 bit per extra byte, then a 0 bit, then the top bits of
// the value; the other bytes follow most significant first. ITF-8 stops at five
// bytes: the fifth carries only the last four bits, in its low nibble. LTF-8
// goes on to nine bytes; with eight and nine bytes the first byte holds no
// value bits (0xfe, 0xff).

func c20refITF8(v int32, store *[9]byte) []byte {
	u := uint32(v)
	n := (bits.Len32(u) + 6) / 7
	if n == 0 {
		n = 1
	}
	if n >= 5 {
		store[0], store[1], store[2], store[3], store[4] = 0xf0|byte(u>>28), byte(u>>20), byte(u>>12), byte(u>>4), byte(u&0x0f)
		return store[:5]
	}
	out := store[:n]
	for i := n - 1; i >= 0; i-- {
		out[i] = byte(u)
		u >>= 8
	}
	out[0] |= byte(0xff << uint(9-n))
	return out
}

func c20refLTF8(v int64, store *[9]byte) []byte {
	u := uint64(v)
	n := (bits.Len64(u) + 6) / 7
	if n == 0 {
		n = 1
	}
	if n > 9 {
		n = 9
	}
	out := store[:n]
	for i := n - 1; i >= 1; i-- {
		out[i] = byte(u)
		u >>= 8
	}
	out[0] = byte(0xff << uint(9-n))
	if n < 8 {
		out[0] |= byte(u)
	}
	return out
}

func c20leadOnes(b byte, max int) int {
	n := 0
	for n < max && b&(0x80>>uint(n)) != 0 {
		n++
	}
	return n
}

func c20refDecITF8(b []byte) (int32, int, bool) {
	if len(b) == 0 {
		return 0, 0, false
	}
	n := c20leadOnes(b[0], 4) + 1
	if len(b) < n {
		return 0, n, false
	}
	var u uint32
	if n == 5 {
		u = uint32(b[0]&0x0f)<<28 | uint32(b[1])<<20 | uint32(b[2])<<12 | uint32(b[3])<<4 | uint32(b[4]&0x0f)
	} else {
		u = uint32(b[0]) & (0xff >> uint(n))
		for _, x := range b[1:n] {
			u = u<<8 | uint32(x)
		}
	}
	return int32(u), n, true
}

func c20refDecLTF8(b []byte) (int64, int, bool) {
	if len(b) == 0 {
		return 0, 0, false
	}
	n := c20leadOnes(b[0], 8) + 1
	if len(b) < n {
		return 0, n, false
	}
	var u uint64
	if n < 8 {
		u = uint64(b[0]) & (0xff >> uint(n))
	}
	for _, x := range b[1:n] {
		u = u<<8 | uint64(x)
	}
	return int64(u), n, true
}

type c20bad struct {
	Op   string `json:"op"`
	V    int64  `json:"v"`
	B    []int  `json:"b,omitempty"`
	What string `json:"what"`
}

// c20checkITF8 judges the library on one int32 against the reference codec.
func c20checkITF8(v int32, buf, junk []byte) string {
	var store [9]byte
	ref := c20refITF8(v, &store)
	buf = buf[:len(ref)+int(uint32(v)>>3)%3] // exactly Len, Len+1 or Len+2 bytes
	for i := range buf {
		buf[i] = 0xa5
	}
	n := itf8.Encode(buf, v)
	if n != len(ref) || itf8.Len(v) != len(ref) {
		return fmt.Sprintf("length: Encode wrote %d, Len says %d, specification %d", n, itf8.Len(v), len(ref))
	}
	for i := 0; i < n; i++ {
		g := buf[i]
		if i == 4 {
			g &= 0x0f
		}
		if g != ref[i] {
			return fmt.Sprintf("bytes: Encode wrote % x, specification % x", buf[:n], ref)
		}
	}
	for i := n; i < len(buf); i++ {
		if buf[i] != 0xa5 {
			return fmt.Sprintf("overwrite: Encode changed byte %d beyond the %d it reports", i, n)
		}
	}
	if d, dn, ok := itf8.Decode(buf[:n]); !ok || d != v || dn != n {
		return fmt.Sprintf("roundtrip: Decode(Encode(v)) = (%d, %d, %v)", d, dn, ok)
	}
	// the reference encoding followed by other bytes must decode to v as well
	copy(junk, ref)
	if n == 5 {
		junk[4] |= byte(v>>3) << 4 // the high nibble of a fifth byte is not significant
	}
	if d, dn, ok := itf8.Decode(junk[:n+int(uint32(v)%3)]); !ok || d != v || dn != n {
		return fmt.Sprintf("decode: Decode(% x) = (%d, %d, %v)", junk[:n], d, dn, ok)
	}
	return ""
}

func c20checkLTF8(v int64, buf, junk []byte) string {
	var store [9]byte
	ref := c20refLTF8(v, &store)
	buf = buf[:len(ref)+int(uint64(v)>>3)%3] // exactly Len, Len+1 or Len+2 bytes
	for i := range buf {
		buf[i] = 0xa5
	}
	n := ltf8.Encode(buf, v)
	if n != len(ref) || ltf8.Len(v) != len(ref) {
		return fmt.Sprintf("length: Encode wrote %d, Len says %d, specification %d", n, ltf8.Len(v), len(ref))
	}
	for i := 0; i < n; i++ {
		if buf[i] != ref[i] {
			return fmt.Sprintf("bytes: Encode wrote % x, specification % x", buf[:n], ref)
		}
	}
	for i := n; i < len(buf); i++ {
		if buf[i] != 0xa5 {
			return fmt.Sprintf("overwrite: Encode changed byte %d beyond the %d it reports", i, n)
		}
	}
	if d, dn, ok := ltf8.Decode(buf[:n]); !ok || d != v || dn != n {
		return fmt.Sprintf("roundtrip: Decode(Encode(v)) = (%d, %d, %v)", d, dn, ok)
	}
	copy(junk, ref)
	if d, dn, ok := ltf8.Decode(junk[:n+int(uint64(v)%3)]); !ok || d != v || dn != n {
		return fmt.Sprintf("decode: Decode(% x) = (%d, %d, %v)", junk[:n], d, dn, ok)
	}
	return ""
}

type c20collector struct {
	mu      sync.Mutex
	bad     []c20bad
	nbad    int64
	checked int64
}

func (c *c20collector) add(b c20bad) {
	c.mu.Lock()
	c.nbad++
	if len(c.bad) < 8 {
		c.bad = append(c.bad, b)
	}
	c.mu.Unlock()
}

func (c *c20collector) result() interface{} {
	return map[string]interface{}{"checked": c.checked, "nbad": c.nbad, "bad": c.bad, "workers": runtime.GOMAXPROCS(0)}
}

// c20guard runs f and reports a run-time panic of the library as a failure of value v.
func c20guard(col *c20collector, op string, v int64, f func() string) {
	defer func() {
		if r := recover(); r != nil {
			col.add(c20bad{Op: op, V: v, What: fmt.Sprint("panic: ", r)})
		}
	}()
	if w := f(); w != "" {
		col.add(c20bad{Op: op, V: v, What: w})
	}
}

// c20sweep32 checks every int32 in [lo, hi) (as int64 bounds), in parallel.
func c20sweep32(lo, hi int64) interface{} {
	col := &c20collector{}
	workers := runtime.GOMAXPROCS(0)
	if workers > 16 {
		workers = 16
	}
	const chunk = 1 << 20
	next := lo
	var mu sync.Mutex
	var wg sync.WaitGroup
	for w := 0; w < workers; w++ {
		wg.Add(1)
		go func() {
			defer wg.Done()
			buf := make([]byte, 8)
			junk := make([]byte, 8)
			var done int64
			for {
				mu.Lock()
				a := next
				next += chunk
				mu.Unlock()
				if a >= hi {
					break
				}
				b := a + chunk
				if b > hi {
					b = hi
				}
				for x := a; x < b; {
					x = c20sweepRun(col, x, b, buf, junk)
				}
				done += b - a
			}
			col.mu.Lock()
			col.checked += done
			col.mu.Unlock()
		}()
	}
	wg.Wait()
	return col.result()
}

// c20sweepRun checks x, x+1, ... below b and returns the value to go on with;
// a run-time panic of the library is recorded for the value that raised it.
func c20sweepRun(col *c20collector, x, b int64, buf, junk []byte) (next int64) {
	cur := x
	defer func() {
		if r := recover(); r != nil {
			col.add(c20bad{Op: "itf8enc", V: cur, What: fmt.Sprint("panic: ", r)})
			next = cur + 1
		}
	}()
	for ; cur < b; cur++ {
		if w := c20checkITF8(int32(cur), buf, junk); w != "" {
			col.add(c20bad{Op: "itf8enc", V: cur, What: w})
		}
	}
	return b
}

// c20rand64 draws an int64 whose magnitude class (encoded length) is uniform.
func c20rand64(rng *rand.Rand) int64 {
	u := rng.Uint64()
	switch k := rng.Intn(12); {
	case k < 9:
		top := []uint{7, 14, 21, 28, 35, 42, 49, 56, 64}[k]
		if top < 64 {
			u &= 1<<top - 1
		}
		if k > 0 && rng.Intn(4) > 0 {
			u |= 1 << (top - 1 - uint(rng.Intn(7))) // stay in the class most of the time
		}
	case k == 9:
		u = 1<<uint(rng.Intn(64)) + uint64(rng.Intn(3)) - 1
	case k == 10:
		u = -u >> uint(rng.Intn(8))
	}
	return int64(u)
}

func c20batch64(seed int64, n int) interface{} {
	col := &c20collector{}
	workers := runtime.GOMAXPROCS(0)
	if workers > 16 {
		workers = 16
	}
	var wg sync.WaitGroup
	for w := 0; w < workers; w++ {
		wg.Add(1)
		go func(w int) {
			defer wg.Done()
			rng := rand.New(rand.NewSource(seed*131 + int64(w)))
			buf := make([]byte, 12)
			junk := make([]byte, 12)
			for i := 0; i < n/workers; i++ {
				v := c20rand64(rng)
				c20guard(col, "ltf8enc", v, func() string { return c20checkLTF8(v, buf, junk) })
			}
			col.mu.Lock()
			col.checked += int64(n / workers)
			col.mu.Unlock()
		}(w)
	}
	wg.Wait()
	return col.result()
}

// c20decOne runs one decoder check; a run-time panic counts as a failure of that decoder on b.
func c20decOne(col *c20collector, op string, b []byte, f func() string) {
	defer func() {
		if r := recover(); r != nil {
			col.add(c20bad{Op: op, B: ints(b), What: fmt.Sprint("panic: ", r)})
		}
	}()
	if w := f(); w != "" {
		col.add(c20bad{Op: op, B: ints(b), What: w})
	}
}

// c20decbatch decodes random byte strings (every first-byte class, lengths
// 0..11) with both codecs and compares with the reference decoders, also on
// the string cut to the announced length.
func c20decbatch(seed int64, n int) interface{} {
	col := &c20collector{}
	workers := runtime.GOMAXPROCS(0)
	if workers > 16 {
		workers = 16
	}
	firsts := []byte{0x00, 0x7f, 0x80, 0xbf, 0xc0, 0xdf, 0xe0, 0xef, 0xf0, 0xf7, 0xf8, 0xfb, 0xfc, 0xfd, 0xfe, 0xff}
	var wg sync.WaitGroup
	for w := 0; w < workers; w++ {
		wg.Add(1)
		go func(w int) {
			defer wg.Done()
			rng := rand.New(rand.NewSource(seed*257 + int64(w)))
			for i := 0; i < n/workers; i++ {
				b := make([]byte, rng.Intn(12))
				rng.Read(b)
				if len(b) > 0 && rng.Intn(3) > 0 {
					b[0] = firsts[rng.Intn(len(firsts))]
				}
				c20decOne(col, "itf8dec", b, func() string {
					v, k, ok := itf8.Decode(b)
					rv, rk, rok := c20refDecITF8(b)
					if v != rv || k != rk || ok != rok {
						return fmt.Sprintf("Decode = (%d, %d, %v), specification (%d, %d, %v)", v, k, ok, rv, rk, rok)
					}
					if ok {
						if v2, k2, ok2 := itf8.Decode(b[:k]); v2 != v || k2 != k || !ok2 {
							return "Decode depends on bytes beyond the announced length"
						}
					}
					return ""
				})
				c20decOne(col, "ltf8dec", b, func() string {
					v, k, ok := ltf8.Decode(b)
					rv, rk, rok := c20refDecLTF8(b)
					if v != rv || k != rk || ok != rok {
						return fmt.Sprintf("Decode = (%d, %d, %v), specification (%d, %d, %v)", v, k, ok, rv, rk, rok)
					}
					if ok {
						if v2, k2, ok2 := ltf8.Decode(b[:k]); v2 != v || k2 != k || !ok2 {
							return "Decode depends on bytes beyond the announced length"
						}
					}
					return ""
				})
			}
			col.mu.Lock()
			col.checked += int64(n / workers)
			col.mu.Unlock()
		}(w)
	}
	wg.Wait()
	return col.result()
}
