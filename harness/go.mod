module verifharness

go 1.19

require github.com/biogo/hts v0.0.0

replace github.com/biogo/hts => /repo
