// Command harness runs the implementation (biogo/hts at /repo, built with
// -tags verif) on case lines and prints one observation line per case.
//
//	harness <family> < cases.jsonl > obs.jsonl
//
// Every case runs under recover() and a watchdog; a panic is reported as
// {"panic": "..."} and a call that does not return as {"hang": true}.
package main

import (
	"bufio"
	"bytes"
	"encoding/json"
	"fmt"
	"io"
	"os"
	"runtime"
	"time"
)

type handler func(raw json.RawMessage) interface{}

var families = map[string]handler{}

func register(name string, h handler) { families[name] = h }

var caseTimeout = 20 * time.Second

func runOne(h handler, raw json.RawMessage) (out interface{}) {
	done := make(chan interface{}, 1)
	go func() {
		defer func() {
			if r := recover(); r != nil {
				buf := make([]byte, 2048)
				buf = buf[:runtime.Stack(buf, false)]
				done <- map[string]interface{}{"panic": fmt.Sprint(r), "stack": string(buf)}
			}
		}()
		done <- h(raw)
	}()
	select {
	case v := <-done:
		return v
	case <-time.After(caseTimeout):
		buf := make([]byte, 1<<16)
		buf = buf[:runtime.Stack(buf, true)]
		return map[string]interface{}{"hang": true, "stack": string(buf)}
	}
}

func main() {
	if len(os.Args) < 2 {
		fmt.Fprintln(os.Stderr, "usage: harness <family>")
		os.Exit(2)
	}
	h, ok := families[os.Args[1]]
	if !ok {
		fmt.Fprintln(os.Stderr, "unknown family", os.Args[1])
		os.Exit(2)
	}
	if d := os.Getenv("VERIF_CASE_TIMEOUT"); d != "" {
		if dd, err := time.ParseDuration(d); err == nil {
			caseTimeout = dd
		}
	}
	in := bufio.NewReaderSize(os.Stdin, 1<<20)
	out := bufio.NewWriterSize(os.Stdout, 1<<20)
	defer out.Flush()
	enc := json.NewEncoder(out)
	for {
		line, err := in.ReadBytes('\n')
		if len(line) > 1 {
			v := runOne(h, json.RawMessage(line))
			if e := enc.Encode(v); e != nil {
				enc.Encode(map[string]interface{}{"encode_error": e.Error()})
			}
			out.Flush()
		}
		if err != nil {
			break
		}
	}
}

func ints(b []byte) []int {
	r := make([]int, len(b))
	for i, c := range b {
		r[i] = int(c)
	}
	return r
}

func bytesOf(v []int) []byte {
	r := make([]byte, len(v))
	for i, c := range v {
		r[i] = byte(c)
	}
	return r
}

// dribbleReader is an io.Reader double that hands out the bytes of b in pieces
// of varying size (never more than asked for, at least one byte per call, nil
// error with data, io.EOF only at the end with no data): every behaviour the
// io.Reader contract allows a pipe, a network stream, a bufio boundary or a
// decompressor to show. A decoder that takes one Read for "all the bytes it
// asked for" mis-parses under it.
type dribbleReader struct {
	b []byte
	k int
}

var dribbleSizes = []int{1, 2, 3, 5, 8, 13, 4096, 7, 16, 9, 1, 100, 4, 65536, 6}

func newDribble(b []byte) *dribbleReader { return &dribbleReader{b: b} }

func (d *dribbleReader) Read(p []byte) (int, error) {
	if len(p) == 0 {
		return 0, nil
	}
	if len(d.b) == 0 {
		return 0, io.EOF
	}
	n := dribbleSizes[d.k%len(dribbleSizes)]
	d.k++
	if n > len(p) {
		n = len(p)
	}
	if n > len(d.b) {
		n = len(d.b)
	}
	copy(p, d.b[:n])
	d.b = d.b[n:]
	return n, nil
}

// dribbleRS is a seekable source with short reads. With byteReader it also has
// ReadByte (bgzf then reads it directly, as it does a bytes.Reader); without it
// bgzf puts a bufio.Reader in front.
type dribbleRS struct {
	r *bytes.Reader
	k int
}

func (d *dribbleRS) Read(p []byte) (int, error) {
	if len(p) == 0 {
		return 0, nil
	}
	n := dribbleSizes[d.k%len(dribbleSizes)]
	d.k++
	if n > len(p) {
		n = len(p)
	}
	return d.r.Read(p[:n])
}

func (d *dribbleRS) Seek(off int64, whence int) (int64, error) { return d.r.Seek(off, whence) }

type dribbleRSB struct{ dribbleRS }

func (d *dribbleRSB) ReadByte() (byte, error) { return d.r.ReadByte() }

// sourceFor picks, from the length of the stream, one of three sources with the
// same content: a bytes.Reader, a short-reading seekable flate.Reader, a
// short-reading plain io.ReadSeeker.
func sourceFor(b []byte) io.ReadSeeker {
	switch len(b) % 3 {
	case 1:
		return &dribbleRSB{dribbleRS{r: bytes.NewReader(b)}}
	case 2:
		return &dribbleRS{r: bytes.NewReader(b)}
	}
	return bytes.NewReader(b)
}

// textSource: a plain reader for even lengths, a short-reading one for odd lengths.
func textSource(b []byte) io.Reader {
	if len(b)%2 == 1 {
		return newDribble(b)
	}
	return bytes.NewReader(b)
}
