// Command harness runs the implementation (biogo/hts at /repo, built with
// -tags verif) on case lines and prints one observation line per case.
//
//	harness <family> < cases.jsonl > obs.jsonl
//
// Every case runs under recover() and a watchdog; a panic is reported as
// {"panic": "..."} and a call that does not return as {"hang": true}.
package main

import (
	"bufio"
	"encoding/json"
	"fmt"
	"os"
	"runtime"
	"time"
)

type handler func(raw json.RawMessage) interface{}

var families = map[string]handler{}

func register(name string, h handler) { families[name] = h }

var caseTimeout = 20 * time.Second

func runOne(h handler, raw json.RawMessage) (out interface{}) {
	done := make(chan interface{}, 1)
	go func() {
		defer func() {
			if r := recover(); r != nil {
				buf := make([]byte, 2048)
				buf = buf[:runtime.Stack(buf, false)]
				done <- map[string]interface{}{"panic": fmt.Sprint(r), "stack": string(buf)}
			}
		}()
		done <- h(raw)
	}()
	select {
	case v := <-done:
		return v
	case <-time.After(caseTimeout):
		buf := make([]byte, 1<<16)
		buf = buf[:runtime.Stack(buf, true)]
		return map[string]interface{}{"hang": true, "stack": string(buf)}
	}
}

func main() {
	if len(os.Args) < 2 {
		fmt.Fprintln(os.Stderr, "usage: harness <family>")
		os.Exit(2)
	}
	h, ok := families[os.Args[1]]
	if !ok {
		fmt.Fprintln(os.Stderr, "unknown family", os.Args[1])
		os.Exit(2)
	}
	if d := os.Getenv("VERIF_CASE_TIMEOUT"); d != "" {
		if dd, err := time.ParseDuration(d); err == nil {
			caseTimeout = dd
		}
	}
	in := bufio.NewReaderSize(os.Stdin, 1<<20)
	out := bufio.NewWriterSize(os.Stdout, 1<<20)
	defer out.Flush()
	enc := json.NewEncoder(out)
	for {
		line, err := in.ReadBytes('\n')
		if len(line) > 1 {
			v := runOne(h, json.RawMessage(line))
			if e := enc.Encode(v); e != nil {
				enc.Encode(map[string]interface{}{"encode_error": e.Error()})
			}
			out.Flush()
		}
		if err != nil {
			break
		}
	}
}

func ints(b []byte) []int {
	r := make([]int, len(b))
	for i, c := range b {
		r[i] = int(c)
	}
	return r
}

func bytesOf(v []int) []byte {
	r := make([]byte, len(v))
	for i, c := range v {
		r[i] = byte(c)
	}
	return r
}
