"""C01: BGZF write -> read round trip is lossless."""
import core
import wrlib

PROPS = 'Props/C01.v'


def gen_cases(rng, tier):
    nbig, nsmall = (6, 120) if tier == 'quick' else (150, 1500)
    cases = [dict(mode='laws', ops=[dict(op='w', kind=1, seed=rng.randrange(1, 1 << 20), len=wrlib.BS),
                                    dict(op='w', kind=1, seed=7, len=wrlib.BS),
                                    dict(op='w', kind=0, seed=0, len=0), dict(op='w', kind=2, seed=3, len=wrlib.BS),
                                    dict(op='w', kind=1, seed=9, len=rng.randrange(1, 5000)),
                                    dict(op='w', kind=0, seed=9, len=1)])]
    # the block boundary arithmetic of Write, always: exact fill, one over, one short, full block, multi-block
    BS = wrlib.BS
    for k, lens in enumerate(([1, BS - 1], [100, BS - 99], [7, BS - 8, 1], [BS, 1], [2 * BS + 1], [BS - 1, 2])):
        ops = [dict(op='w', kind=rng.choice([0, 2]), seed=rng.randrange(1, 1000), len=n) for n in lens] + [dict(op='close')]
        cases.append(dict(mode='rt', ops=ops, level=rng.choice([-1, 1, 6]), wc=k % 5, rd=k % 3, reads=[rng.choice([4096, BS, 100000])],
                          delay=0, hbytes=True))
    # the stream consumed byte by byte up to io.EOF, over [data][empty block][EOF marker] and [data][EOF marker] layouts
    for k, ops in enumerate(([dict(op='w', kind=2, seed=5, len=rng.randrange(1, 40)), dict(op='f'), dict(op='close')],
                             [dict(op='w', kind=2, seed=6, len=rng.randrange(1, 40)), dict(op='f'), dict(op='wait'), dict(op='close')],
                             [dict(op='w', kind=0, seed=7, len=BS), dict(op='close')],
                             [dict(op='w', kind=2, seed=8, len=9), dict(op='close')],
                             [dict(op='w', kind=2, seed=9, len=3), dict(op='f'), dict(op='w', kind=2, seed=10, len=4), dict(op='f'), dict(op='close')],
                             [dict(op='close')])):
        cases.append(dict(mode='rt', ops=ops, level=rng.choice([-1, 0, 9]), wc=k % 5, rd=(k * 2) % 5, reads=[0], delay=0, hbytes=True))
        if k != 2:
            cases.append(dict(mode='rt', ops=ops, level=-1, wc=(k + 1) % 5, rd=k % 5, reads=[rng.choice([1, 2, 3]), 0], delay=0, hbytes=True))
    # the largest members the writer can emit (65535 and 65536 bytes: BSIZE 0xfffe and 0xffff), read back
    import c08
    cases += [c for c in c08.boundary_family(rng, 'quick') if c['aim'] in (65535, 65536)]
    for i in range(nbig + nsmall):
        big = i < nbig
        ops = wrlib.gen_script(rng, big, nops=(rng.randrange(1, 4) if big else None), after_close=(rng.random() < 0.1))
        if tier == 'quick':
            wrlib.cap_total(ops, 2 * wrlib.BS + 700, rng)
        reads = [rng.choice([0, 0, 1, 2, 7, 100, 4096, wrlib.BS - 1, wrlib.BS, wrlib.BS + 1, 200000]) for _ in range(rng.randrange(1, 5))]
        if wrlib.total_len(ops) > 20000:
            reads = [r for r in reads if r > 6] or [4096]
            if rng.random() < 0.5:
                reads.append(0)
                reads.append(rng.choice([30000, wrlib.BS]))
        cases.append(dict(mode='rt', ops=ops, level=rng.randrange(-1, 10), wc=rng.randrange(0, 5), rd=rng.randrange(0, 5),
                          reads=reads, delay=rng.choice([0, 0, rng.randrange(1, 1000)]), hbytes=True))
        if i % 4 == 3 and wrlib.total_len(ops) <= wrlib.BS:
            # gzip header settings of the Writer (Name/Comment in Latin-1, Extra subfields, ModTime, OS) are settings too
            cases[-1]['hdr'] = wrlib.gen_hdr(rng)
    return cases


def nontrivial(c, o):
    return c.get('mode') == 'rt' and wrlib.total_len(c['ops']) > 0


def bucket(c, o):
    if c.get('mode') != 'rt':
        return c.get('mode')
    t = wrlib.total_len(c['ops'])
    size = '0' if t == 0 else '<BS' if t < wrlib.BS else 'BS..2BS' if t <= 2 * wrlib.BS else '>2BS'
    return 'bytes=%s/members=%s/wc=%d/rd=%d' % (size, min(len(o.get('members') or []), 6), c['wc'], c['rd'])


def run(res, rng, tier):
    cases = gen_cases(rng, tier)
    wrlib.run_property(res, rng, 'C01', cases, nontrivial, bucket, TRUSTED, ASSUME,
                       'scripts of 1-7 Write/Flush/Wait calls then Close (some with calls after Close); payload lengths from {0,1,2,3,7,100,1000,4097,random<3000} and, in the '
                       'big cases, BlockSize-1..BlockSize+1, 2*BlockSize-1..2*BlockSize+1, lengths aimed at exactly filling / overflowing the active block; constant, xorshift-incompressible '
                       'and 4-letter content; level -1..9, wc 0..4, rd 0..4, read-back with mixed Read sizes and ReadByte, seeded delays in the underlying writer; '
                       'a case is non-trivial when it writes at least one byte; distinct by (ops, level, wc, rd, reads, delay)')


def replay(res, rp):
    return wrlib.replay_case('C01', rp)


TRUSTED = wrlib.TRUSTED_COMMON + ['bgzf.Reader (C02 owns the reader theorems): the round trip through the real reader is tested, the theorem bgzf_roundtrip is about the specification reader Model/Bgzf.read_all']
ASSUME = wrlib.ASSUME_COMMON

CLAIM = dict(
    text='Machine-checked proof (Coq 8.16.1): for every script of Write/Flush/Wait/Close calls, level and gzip header that leaves room for a full block, the bytes the sequential writer machine emits '
         'are read back by a BGZF reader written from the specification as exactly the written data; for every writer concurrency and every schedule of the API goroutine, the emitter and the '
         'compressor goroutines the concurrent pipeline model delivers exactly the sequential bytes; compressBound(BlockSize) <= MaxBlockSize on the constants regenerated from the source and no '
         'member reaches 64 KiB; the sequential machine finishes every script. The models are run against the implementation on every check.',
    note='DEFLATE/inflate/CRC-32 are Section hypotheses (laws validated against compress/flate on every run). The reader side of the round trip is the specification reader of the model; '
         'bgzf.Reader itself is exercised (all rd, mixed Read/ReadByte) but proved in C02. Fault-free underlying writer (faults: C09). '
         'Theorems: bgzf_roundtrip, bgzf_roundtrip_reader (composition with the C02 model of bgzf.Reader: any mix of Read n / ReadByte returns the written data then io.EOF), '
         'writer_seq_terminates, writer_conc_refines_seq, closed_writer_is_quiescent, writer_conc_no_deadlock, member_fits; termination under every fair schedule is not proved.',
    technique='Coq proof over hand model tied by regenerated constants/skeleton + vm_compute correspondence + independent framing parser',
    design='6/C01')
