"""C02: virtual offsets address the flat stream (bgzf.Reader Seek/Read/ReadByte/LastChunk)."""
import glob
import json
import os

import core
import rdflat

PROPS = 'Props/C02.v'
HEADER = 'From Hts Require Import Base.Prim Model.Flat Model.Reader.\nOpen Scope Z_scope.'


def gen_cases(rng, tier):
    cases = []
    n_sync, n_async, nops = (150, 40, 40) if tier == 'quick' else (2500, 700, 400)
    for rd, n in ((1, n_sync), (2, n_async), (3, n_async), (8, n_async)):
        for k in range(n):
            members, eof = rdflat.gen_file(rng, nmax=6 if tier == 'quick' else 10, big=0.08)
            if k % 7 == 0:
                lo = rng.randrange(1, nops + 1)
            else:
                lo = nops
            ops = rdflat.gen_history(rng, members, eof, lo)
            cases.append(dict(members=members, eof=eof, rd=rd, ops=ops))
    # read-ahead held back by the gated underlying reader: back-to-back Seeks while the
    # previous redirect is still pending in bg.control, then reads across blocks
    for k in range(10 if tier == 'quick' else 150):
        members, eof = rdflat.gen_file(rng, nmax=6, big=0.0)
        nb = len(members) + (1 if eof else 0)
        ops = []
        for _ in range(rng.randrange(6, 16)):
            for _ in range(rng.randrange(1, 4)):
                i = rng.randrange(nb)
                ln = members[i][0] if i < len(members) else 0
                ops.append(['seek', i, rng.choice([0, ln, rng.randrange(0, ln + 1)])])
            ops.append(rng.choice([['read', rng.randrange(0, 60)], ['byte'], ['read', 0]]))
        mode = rng.choice(['lazy', 'lazy', 'mixed'])
        cases.append(dict(members=members, eof=eof, rd=rng.choice([2, 2, 3, 4]), ops=ops, gate=True,
                          budget=[0 if mode == 'lazy' else rng.choice([0, 0, 1, 3]) for _ in ops]))
    # the same statement with a block cache attached (rd = 1): SetCache is part of the Reader's API and the
    # positions, bytes and LastChunk values of C02 do not depend on it (transparency itself is C03's claim);
    # histories with Seek-without-read, re-visits through Seek and through sequential reading
    import c03
    for k in range(24 if tier == 'quick' else 400):
        kind = c03.KINDS[k % len(c03.KINDS)]
        if k % 3 == 2:
            cases.append(c03.targeted(rng, kind))
            continue
        members, eof = rdflat.gen_file(rng, nmax=6, big=0.02)
        cases.append(dict(members=members, eof=eof, rd=1, ops=c03.gen_history_cached(rng, members, eof, nops, kind, 4)))
    # one member of every boundary size, read through in one go and byte-wise at the end
    for ln in rdflat.BIG + [0, 1, 2]:
        members = [[3, 5], [ln, 11], [2, 7]]
        ops = [['read', 2], ['read', ln + 1], ['seek', 1, 0], ['read', ln], ['byte'], ['reseek'], ['read', 70000], ['read', 1],
               ['seek', 1, min(ln, 65535)], ['byte'], ['blocked', 1], ['seek', 1, max(ln - 1, 0)], ['read', 5], ['read', 5]]
        for rd in ((1, 2) if ln in (65536, 0) else (1,)):
            cases.append(dict(members=members, eof=bool(ln % 2), rd=rd, ops=ops))
    return cases


def corpus(pid):
    out = []
    for p in sorted(glob.glob(os.path.join(core.ROOT, 'corpus', pid, '*.json'))):
        try:
            out.append(json.load(open(p)))
        except ValueError:
            pass
    return out


def tag_of(c):
    return 'rd1' if c['rd'] == 1 else ('async-gated' if c.get('gate') else 'async')


def run(res, rng, tier):
    cases = corpus('C02') + gen_cases(rng, tier)
    obs = core.run_harness('c02', cases, jobs=6)
    terms = []
    for c, o in zip(cases, obs):
        res.evaluations += 1
        stats = {}
        bad = rdflat.judge_history(c, o, tag_of(c), stats)
        res.count('rd=%d' % c['rd'])
        res.count('members=%d' % len(c['members']))
        res.count('ops<=%d' % (10 * ((len(c['ops']) + 9) // 10)))
        for k, v in stats.items():
            res.count('op:' + k, v)
        if any(m[0] >= 65279 for m in c['members']):
            res.count('has-block>=65279')
        if stats.get('cross') or stats.get('eof') or stats.get('blocked-short'):
            res.nontrivial.add(json.dumps([c['members'], c['eof'], c['rd'], c['ops']]))
        for sig, what, exp in bad:
            res.failures.append(dict(sig=sig, what=what, case=c, observed=rdflat.clean(o), expected=exp))
        if 'ops' not in o:
            if not bad:
                res.corr_bad.append(dict(case=c, obs=rdflat.clean(o)))
            continue
        terms.append((c, o, rdflat.coq_case(c, o)))
    cached = [t for t in terms if any(op[0] == 'setcache' for op in t[0]['ops'])]
    plain = [t for t in terms if not any(op[0] == 'setcache' for op in t[0]['ops'])]
    nbad = 0
    for batch, fn, tag in ((plain, 'c02_agree', 'c02'), (cached, 'c03_agree', 'c02c')):
        bad, err = core.coq_mismatches(HEADER, 'rcase', fn, [t[2] for t in batch], tag, shard=40)
        if err:
            res.corr_bad.append(dict(error=err))
        for i in bad:
            c, o, t = batch[i]
            res.corr_bad.append(dict(case=c, obs=rdflat.clean(o), note='Model/Reader.v (v_run / r_run; with caches: the store model of C03) and the implementation disagree on this history'))
        nbad += len(bad)
    res.count('with-cache(rd=1)', len(cached))
    res.extra['traces_validated_against_impl'] = len(terms) - nbad
    res.rule = ('files of 1..6 (thorough: 10) members from the independent member builder, payload sizes biased to 0,1,2,3, <40, ~1000 and '
                '65279/65280/65281/65535/65536, with and without EOF marker; histories of up to 40 (thorough: 400) calls over '
                'Seek(block, offset in {0, len, 1, len-1, random}), Seek(LastChunk.Begin), Read(n in {0,1,2,len-1,len,len+1,random,>total}), '
                'ReadByte, Blocked on/off; rd in {1,2,3,8}. A case counts as non-trivial when at least one read crosses a block boundary, '
                'ends at the end of the data, or is cut short by Blocked mode; distinct by (file, rd, history).')
    res.samples = [dict(case=c, observed=rdflat.clean(o)) for c, o in list(zip(cases, obs))[:2]]
    for s in res.samples:
        if 'ops' in s['observed']:
            s['observed'] = dict(s['observed'], ops=s['observed']['ops'][:6])
    res.trusted = TRUSTED
    res.assumptions = ASSUME


def replay(res, rp):
    c = rp.get('case')
    if not c:
        print(json.dumps(rp, indent=1)[:3000])
        return 0
    o = core.run_harness('c02', [c])[0]
    bad = rdflat.judge_history(c, o, tag_of(c))
    print('case     :', json.dumps(c))
    print('observed :', json.dumps(rdflat.clean(o))[:3000])
    print('oracle   :', bad if bad else 'flat copy agrees')
    if 'ops' in o:
        b, err = core.coq_mismatches(HEADER, 'rcase', 'c02_agree' if not any(op[0] == 'setcache' for op in c['ops']) else 'c03_agree',
                                     [rdflat.coq_case(c, o)], 'replay')
        print('model    :', 'agrees with the implementation' if not b and not err else ('DISAGREES ' + str(err or '')))
    return 1 if bad else 0


TRUSTED = [
    'Coq 8.16.1 kernel (coqc); vm_compute used for the correspondence runs and the refutation witness only',
    'hand-written model Model/Reader.v of bgzf/reader.go + bgzf/cache.go (rd = 1), tied to the code on every run by evaluating it on the histories the implementation ran (all returned bytes via Adler-32, error class, LastChunk, BlockLen after every call)',
    'decompression (compress/gzip, compress/flate) and the underlying io.ReadSeeker are abstract: fetching the member at an offset yields its data',
    'the harness member builder, the case generators and the flat-copy oracle (lib/rdflat.py)',
    'axioms: none (Print Assumptions: Closed under the global context)',
]
ASSUME = [
    'the underlying io.ReadSeeker is an exact byte source (bytes.Reader in the runs)',
    'one Reader per block (ownership check ownedBy/setOwner not modelled)',
    'rd > 1 (no cache): the schedule-driven model Model/ReaderAsync.v treats one iteration of the read-ahead loop (take a decompressor from waiting, poll or park on control, fetch, send to working) as atomic; it is tied to the code by the correspondence runs of C03 (natural and gated schedules), and this check judges the rd > 1 runs by the flat oracle',
]

CLAIM = dict(
    text='Machine-checked proof (Coq 8.16.1) that the rd = 1 reader model (Seek/Read/ReadByte/Blocked/LastChunk followed statement by statement, blocks recycled through a store) '
         'returns, for every well-formed file and every history of valid calls, exactly the bytes, end-of-data conditions and LastChunk positions of a flat copy with a cursor; '
         'every call returns; seeking to a reported Begin replays the read. The same is proved for the reader with the read-ahead goroutine (rd >= 2, no cache) under every schedule of that goroutine: every call returns (no "unexpected block" panic, no deadlock) with the flat observations (reader_async_refines_flat_partial, invariant AInv). The rd = 1 model is run against the implementation on generated histories on every run; a flat-copy oracle judges the implementation directly (rd in {1,2,3,8}).',
    note='Partial: LastChunk.End is proved for files whose members hold at most 65535 bytes; for a 65536-byte member the 16-bit in-block offset wraps (recorded finding, refuted in Coq). '
         'The rd > 1 theorem is about a model in which one read-ahead iteration is atomic; that model is tied to the code in C03. Trusted: Coq kernel, the hand model (validated by the correspondence run), abstract decompression. No axioms.',
    technique='Coq proof over a hand model + vm_compute correspondence + flat-copy oracle',
    design='6/C02')
