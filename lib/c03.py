"""C03: block caches are transparent (bgzf.Reader with bgzf/cache LRU, FIFO, Random, StatsRecorder)."""
import json

import core
import rdflat
import c02

PROPS = 'Props/C03.v'
HEADER = 'From Hts Require Import Base.Prim Model.Flat Model.Reader Model.ReaderAsync.\nOpen Scope Z_scope.'

KINDS = ['lru', 'random', 'fifo', 'slru', 'srandom', 'sfifo']


def strip_cache(c):
    return dict(c, ops=[(['setcache', 'none', 0] if op[0] == 'setcache' else op) for op in c['ops']])


def gen_history_cached(rng, members, eof, nops, kind, kmax):
    """History with SetCache at the start or later and re-set at random points."""
    cops = [['setcache', kind, rng.randrange(1, kmax + 1)], ['setcache', kind, rng.randrange(1, kmax + 1)], ['setcache', 'none', 0]]
    ops = rdflat.gen_history(rng, members, eof, nops, cache_ops=(0.05, cops), blocked_p=0.04)
    at = rng.choice([0, 0, 0, rng.randrange(0, max(1, len(ops)))])
    ops.insert(at, cops[0])
    return ops[:nops]


def targeted(rng, kind):
    """Shapes that exercise eviction, re-visits and the end of the file with tiny caches."""
    n = rng.randrange(2, 5)
    members = [[rng.randrange(1, 6), rng.randrange(1000)] for _ in range(n)]
    eof = rng.random() < 0.5
    nb = n + (1 if eof else 0)
    cap = rng.randrange(1, 4)
    ops = []
    if rng.random() < 0.5:
        ops.append(['setcache', kind, cap])
    for _ in range(rng.randrange(6, 30)):
        r = rng.random()
        i = rng.randrange(nb)
        ln = members[i][0] if i < n else 0
        if r < 0.35:
            ops.append(['seek', i, rng.choice([0, ln])])
        elif r < 0.6:
            ops.append(['read', rng.choice([ln, ln + 1, 1, 0, 40])])
        elif r < 0.7:
            ops.append(['byte'])
        elif r < 0.8:
            ops.append(['setcache', kind, cap])
        elif r < 0.85:
            ops.append(['setcache', 'none', 0])
        else:
            ops.append(['read', 0])
    return dict(members=members, eof=eof, rd=1, ops=ops)


def full_size(rng, kind):
    """A member that inflates to exactly 65536 bytes (MaxBlockSize; 65535 / 65280 as controls), read to its
    last byte, pushed into the cache by moving on, and met again through Seek or through nextBlock."""
    big = rng.choice([65536] * 8 + [65535, 65280])
    pre = [[rng.randrange(0, 30), rng.randrange(1000)] for _ in range(rng.randrange(0, 3))]
    post = [[rng.randrange(1, 30), rng.randrange(1000)] for _ in range(rng.randrange(1, 3))]
    members = pre + [[big, rng.randrange(1000)]] + post
    p = len(pre)
    eof = rng.random() < 0.5
    ops = []
    if rng.random() < 0.7:
        ops.append(['setcache', kind, rng.randrange(1, 4)])
    ops.append(['seek', p, 0])
    if not ops or ops[0][0] != 'setcache':
        ops.append(['setcache', kind, rng.randrange(1, 4)])
    how = rng.randrange(4)
    if how == 0:
        ops.append(['read', big])                        # exactly to the last byte
    elif how == 1:
        ops += [['read', big - 1], ['byte']]
    elif how == 2:
        ops += [['read', 40000], ['read', big - 40000]]
    else:
        ops += [['seek', p, 65535 if big == 65536 else big - 1], ['byte']]
        if rng.random() < 0.5:
            ops.insert(-2, ['read', big])
    ops.append(rng.choice([['read', 3], ['byte'], ['seek', p + 1, 0], ['seek', len(members) - 1, 0]]))    # the full block goes to the cache
    ops += [['seek', p, 0], rng.choice([['read', 5], ['byte'], ['read', big], ['read', big + 2]])]        # and comes back at once
    ops.append(['seek', rng.choice([p + 1, len(members) - 1]), 0])
    for _ in range(rng.randrange(1, 4)):
        back = rng.randrange(3)
        if back == 0 or p == 0:
            ops += [['seek', p, 0], ['read', rng.choice([5, 23, big, big + 2])]]
        elif back == 1:
            ops += [['seek', p - 1, 0], ['read', members[p - 1][0] + rng.choice([1, 7, big + 1])]]    # arrives through nextBlock
        else:
            ops += [['seek', p, rng.choice([0, 1, 65535 if big == 65536 else big])], ['byte'], ['read', 9]]
        ops.append(rng.choice([['seek', p + 1, 0], ['read', 50], ['reseek'], ['setcache', kind, rng.randrange(1, 3)]]))
    ops += rdflat.gen_history(rng, members, eof, rng.randrange(0, 8), blocked_p=0.05)
    return dict(members=members, eof=eof, rd=1, ops=ops)


def gen_cases(rng, tier):
    cases = []
    for k in range(6 if tier == "quick" else 90):
        cases.append(full_size(rng, KINDS[k % len(KINDS)]))
    per, nops, kmax = (18, 40, 4) if tier == 'quick' else (300, 400, 6)
    for kind in KINDS:
        n = per if kind in ('lru', 'random', 'fifo') else per // 3
        for k in range(n):
            if k % 3 == 2:
                cases.append(targeted(rng, kind))
                continue
            members, eof = rdflat.gen_file(rng, nmax=6 if tier == 'quick' else 9, big=0.02)
            ops = gen_history_cached(rng, members, eof, nops, kind, kmax)
            cases.append(dict(members=members, eof=eof, rd=1, ops=ops))
    # the asynchronous reader with a cache (few: most of them end in the recorded deadlock)
    na = 6 if tier == "quick" else 150
    for k in range(na):
        kind = KINDS[k % 2]
        members, eof = rdflat.gen_file(rng, nmax=5, big=0.0)
        ops = gen_history_cached(rng, members, eof, 25, kind, 3)
        cases.append(dict(members=members, eof=eof, rd=rng.choice([2, 3, 8]), ops=ops))
    return cases


def tag_of(c):
    kinds = sorted(set(op[1] for op in c['ops'] if op[0] == 'setcache' and op[1] != 'none'))
    return ('sync' if c['rd'] == 1 else 'async') + '+' + '+'.join(kinds or ['none'])


def judge(c, o, ou, stats=None):
    """Flat oracle on the cached run + literal comparison with the uncached run of the same history."""
    tag = tag_of(c)
    bad = rdflat.judge_history(c, o, tag, stats)
    if any(not b[0].endswith(':lastchunk:end-of-65536-block') for b in bad) or 'ops' not in o or 'ops' not in ou:
        return bad
    for k, (a, b) in enumerate(zip(o['ops'], ou['ops'])):
        pa = (a['n'], a['ad'], a['err'], a['lc'])
        pb = (b['n'], b['ad'], b['err'], b['lc'])
        if pa != pb:
            return bad + [('%s:differs-from-uncached' % tag, 'call %d %s: with the cache (n, adler, err, LastChunk) = %s, without %s' % (k, c['ops'][k], pa, pb), dict(uncached=b))]
    return bad


def run(res, rng, tier):
    cases = c02.corpus('C03') + gen_cases(rng, tier)
    obs = core.run_harness('c02', cases, jobs=6)
    obs_u = core.run_harness('c02', [strip_cache(c) for c in cases], jobs=6)
    sync_terms, abort_terms = [], []
    for c, o, ou in zip(cases, obs, obs_u):
        res.evaluations += 1
        stats = {}
        bad = judge(c, o, ou, stats)
        tag = tag_of(c)
        res.count(tag)
        nset = sum(1 for op in c['ops'] if op[0] == 'setcache')
        res.count('setcache-points=%d' % min(nset, 5))
        for op in c['ops']:
            if op[0] == 'setcache' and op[1] != 'none':
                res.count('cap=%d' % op[2])
        if nset and (stats.get('seek') or stats.get('cross')):
            res.nontrivial.add(json.dumps([c['members'], c['eof'], c['rd'], c['ops']]))
        for sig, what, exp in bad:
            res.failures.append(dict(sig=sig, what=what, case=c, observed=rdflat.clean(o), expected=exp))
        if c['rd'] != 1:
            continue            # the asynchronous runs are tied in run_async below
        if 'ops' in o:
            sync_terms.append((c, o, rdflat.coq_case(c, o)))
        elif ('panic' in o or 'hang' in o) and o.get('info'):
            oo = dict(o['info'])
            abort_terms.append((c, o, rdflat.coq_case(c, oo, ops_obs=o.get('partial') or [])))
        elif not bad:
            res.corr_bad.append(dict(case=c, obs=rdflat.clean(o)))
    ok_n = 0
    for name, fn, terms in (('c03', 'c03_agree', sync_terms), ('c03a', 'c03_agree_abort', abort_terms)):
        if not terms:
            continue
        bad, err = core.coq_mismatches(HEADER, 'rcase', fn, [t[2] for t in terms], name, shard=30)
        if err:
            res.corr_bad.append(dict(error=err))
        for i in bad:
            c, o, t = terms[i]
            res.corr_bad.append(dict(case=c, obs=rdflat.clean(o), agree=fn,
                                     note='Model/Reader.v (r_run with the cache models) and the implementation disagree on this history'))
        ok_n += len(terms) - len(bad)
    import c03async
    ok_n += c03async.run_async(res, rng, tier)
    res.extra['traces_validated_against_impl'] = ok_n
    res.rule = ('rd = 1: files as in C02, plus files with a member of exactly 65536 bytes (MaxBlockSize) that is read to its last byte, cached and met again through Seek and through nextBlock; histories of up to 40 (thorough: 400) calls with SetCache(kind, capacity 1..4 (thorough: 6)) at the start or at a random '
                'point, re-set (same kind, other capacity, or nil) at random points; kinds LRU, Random, FIFO and each wrapped in a StatsRecorder; one third of the '
                'cases are small files (2..4 members of 1..5 bytes) with capacity 1..3 and seeks to block starts/ends, reads to and beyond the end. Every history is also '
                'run without the cache and compared call by call. rd in {2,3,8} with a cache: a few random histories, and gated read-ahead schedules (see notes). '
                'A case counts as non-trivial when a cache was attached and the history seeks or reads across a block boundary; distinct by (file, rd, history).')
    res.samples = [dict(case=c, observed=dict(rdflat.clean(o), ops=(o.get('ops') or [])[:5])) for c, o in list(zip(cases, obs))[:2]]
    res.trusted = TRUSTED
    res.assumptions = ASSUME


def replay(res, rp):
    c = rp.get('case')
    if not c:
        print(json.dumps(rp, indent=1)[:3000])
        return 0
    o = core.run_harness('c02', [c])[0]
    ou = core.run_harness('c02', [strip_cache(c)])[0]
    bad = judge(c, o, ou)
    print('case     :', json.dumps(c))
    print('observed :', json.dumps(rdflat.clean(o))[:3000])
    print('uncached :', json.dumps(rdflat.clean(ou))[:1500])
    print('oracle   :', bad if bad else 'flat copy and uncached run agree')
    if 'ops' in o and c['rd'] == 1:
        b, err = core.coq_mismatches(HEADER, 'rcase', 'c03_agree', [rdflat.coq_case(c, o)], 'replay')
        print('model    :', 'agrees with the implementation' if not b and not err else ('DISAGREES ' + str(err or '')))
    return 1 if bad else 0


TRUSTED = [
    'Coq 8.16.1 kernel (coqc); vm_compute used for the correspondence runs and the refutation witnesses only',
    'hand-written models Model/Reader.v (reader with store objects, cacheSwap/cachePut/Peek chain, functional LRU/FIFO/Random) and Model/ReaderAsync.v (read-ahead, schedule-driven), tied to the code on every run by evaluating them on the histories the implementation ran',
    'decompression and the underlying io.ReadSeeker are abstract; StatsRecorder is modelled as its inner cache (its counters are not observed here; C14 covers them)',
    'Random eviction takes its victim from a choice list; the correspondence fixes the list, the theorems quantify over it',
    'the harness (member builder, gated io.ReadSeeker, deadlock detector), the generators and the oracles (flat copy, uncached run)',
    'axioms: none',
]
ASSUME = [
    'the underlying io.ReadSeeker is an exact byte source',
    'one Reader per cache (ownedBy/ErrContaminatedCache not modelled)',
    'the cache is used by one goroutine at a time in the rd = 1 theorems (there is no read-ahead thread); the lock discipline of the caches is C14',
]

CLAIM = dict(
    text='Machine-checked proof (Coq 8.16.1) that, for rd = 1, attaching an LRU, FIFO or Random cache (or a StatsRecorder around one) of any capacity at any points of any valid history '
         'leaves every returned byte, end-of-data condition, LastChunk and BlockLen value equal to those of the reader that ignores SetCache, and every call returns (cache_transparent_sync; '
         'invariant: a block is owned by exactly one of reader and cache, a cached block holds the data of the member at its key; the LRU/FIFO/Random models are proved to honour the Get/Put/Peek contract). '
         'The read-ahead reader with a cache violates the statement (recorded finding, refuted in Coq with a witness that is replayed on the code). '
         'For rd > 1 a schedule-driven model is tied to the code under natural and gated schedules; the conservation of decompressors is proved for all schedules with or without a cache, and without a cache the model refines the flat reader under every schedule (Props/C02.v, reader_async_refines_flat_partial). '
         'The flat copy and the uncached run judge the implementation directly.',
    note='Partial: rd > 1 with a cache is false (deadlock / "unexpected block", design-level finding); the rd > 1 model (one read-ahead iteration atomic) is tied to the code by correspondence under 3-4 schedules per history. '
         'Trusted: Coq kernel, hand models (validated by correspondence), abstract decompression, the harness gate and deadlock detector. No axioms.',
    technique='Coq proof (ownership invariant, simulation) over a hand model + vm_compute correspondence + flat-copy / uncached-run oracles',
    design='6/C03')
