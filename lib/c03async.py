"""C03 (owner: rd): the asynchronous reader (rd > 1): runs under the natural
schedule and under schedules forced through the gated io.ReadSeeker of the
harness; flat oracle on the implementation; the schedule-driven model
Model/ReaderAsync.v must reproduce the observations under several schedules."""
import json

import core
import rdflat

HEADER = 'From Hts Require Import Base.Prim Model.Flat Model.Reader Model.ReaderAsync.\nOpen Scope Z_scope.'


def gen_cases(rng, tier):
    cases = []
    n_free, n_gate, n_gcache = (8, 10, 4) if tier == 'quick' else (120, 200, 60)
    for k in range(n_free + n_gate + n_gcache):
        members, eof = rdflat.gen_file(rng, nmax=6, big=0.0)
        nops = rng.randrange(5, 30)
        ops = rdflat.gen_history(rng, members, eof, nops, blocked_p=0.05)
        c = dict(members=members, eof=eof, rd=rng.choice([2, 2, 3, 4, 8]), ops=ops)
        if k >= n_free:
            c['gate'] = True
            mode = rng.choice(['lazy', 'greedy', 'mixed'])
            c['budget'] = [0 if mode == 'lazy' else (6 if mode == 'greedy' else rng.choice([0, 0, 1, 2, 5])) for _ in ops]
            c['mode'] = mode
        if k >= n_free + n_gate:
            kind = rng.choice(['lru', 'random'])
            c['ops'] = [['setcache', kind, rng.randrange(1, 4)]] + c['ops']
            c['budget'] = [0] + c['budget']
        cases.append(c)
    return cases


def scheds(rng, c):
    n = len(c['ops'])
    out = [[0] * (2 * n), [9] * (2 * n), [rng.choice([0, 1, 2, 3, 7]) for _ in range(3 * n)]]
    if c.get('budget'):
        out.append(list(c['budget']) + [0] * n)
    return out


def coq_acase(c, o, sch):
    return 'mkACase %d%%nat (%s) [%s]' % (c['rd'], rdflat.coq_case(c, o), '; '.join('[' + '; '.join('%d%%nat' % x for x in s) + ']' for s in sch))


def tag_of(c):
    kinds = sorted(set(op[1] for op in c['ops'] if op[0] == 'setcache' and op[1] != 'none'))
    return 'async' + ('-gated' if c.get('gate') else '') + '+' + '+'.join(kinds or ['none'])


def run_async(res, rng, tier):
    cases = gen_cases(rng, tier)
    obs = core.run_harness('c02', cases, jobs=6)
    terms = []
    for c, o in zip(cases, obs):
        res.evaluations += 1
        tag = tag_of(c)
        res.count(tag)
        if c.get('gate'):
            res.count('gate-mode=' + c['mode'])
        stats = {}
        bad = rdflat.judge_history(c, o, tag, stats)
        if stats.get('seek') and (stats.get('cross') or stats.get('eof')):
            res.nontrivial.add(json.dumps([c['members'], c['eof'], c['rd'], c['ops'], c.get('budget')]))
        for sig, what, exp in bad:
            res.failures.append(dict(sig=sig, what=what, case=c, observed=rdflat.clean(o), expected=exp))
        cached = any(op[0] == 'setcache' for op in c['ops'])
        if 'ops' in o and not cached:
            terms.append((c, o, coq_acase(c, o, scheds(rng, c))))
        elif not bad and not cached:
            res.corr_bad.append(dict(case=c, obs=rdflat.clean(o)))
    bad, err = core.coq_mismatches(HEADER, 'acase', 'async_agree', [t[2] for t in terms], 'c03y', shard=15)
    if err:
        res.corr_bad.append(dict(error=err))
    for i in bad:
        c, o, t = terms[i]
        res.corr_bad.append(dict(case=c, obs=rdflat.clean(o), agree='async_agree',
                                 note='Model/ReaderAsync.v does not reproduce the observations under one of the schedules'))
    res.notes.append('asynchronous reader: %d histories (natural and gated schedules: lazy / greedy / mixed read-ahead budgets), '
                     '%d of them without a cache reproduced by the schedule-driven model under 3-4 schedules each' % (len(cases), len(terms) - len(bad)))
    return len(terms) - len(bad)
