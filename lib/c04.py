"""C04: index queries are complete (BAI, CSI, tabix)."""
import json

import core
import c04gen
import c04coq

PROPS = 'Props/C04.v'


def strip(o):
    """Observation without bulky fields, for replay files."""
    if not isinstance(o, dict):
        return o
    return {k: v for k, v in o.items() if k not in ('stack', 'w1', 'dump', 'dump2', 'dump3', 'dumpw')}


def feature(case, obs, idx):
    """Narrow description of the record that was missed (for finding signatures)."""
    info = obs['recs'][idx]
    if case['kind'] == 'bai':
        fl = case['recs'][idx].get('flags', 0)
        if fl & 12 == 12:
            return 'bothunmapped'
        if info[2] <= info[1]:
            return 'zerolen'
        if fl & 4:
            return 'placedunmapped'
    return 'mapped'


def oracle(case, obs):
    """Judge one observation against the statement of C04. Returns list of (sig, what)."""
    kind = case['kind']
    out = []
    if 'hang' in obs:
        return [(kind + ':hang', 'call did not return')]
    if 'panic' in obs:
        return [(kind + ':panic', 'harness call panicked: ' + str(obs['panic'])[:200])]
    wf = case.get('wellformed')
    if 'addpanic' in obs:
        if wf or case.get('flavour') in ('plain', 'bothunmapped', 'zerolen'):
            out.append((kind + ':add:panic', 'Add panicked on record %d of a sorted in-range list: %s' % (obs.get('addpanic_at'), obs['addpanic'])))
        return out
    if wf:
        for i, e in enumerate(obs.get('adderr', [])):
            if e != 0:
                out.append(('%s:add:error%d' % (kind, e), 'Add refused record %d of a sorted in-range list (error class %d)' % (i, e)))
                break
    for k in ('q1panic', 'q2panic', 'q3panic', 'mpanic'):
        if k in obs:
            out.append(('%s:%s' % (kind, k), '%s: %s' % (k, obs[k])))
    if not case.get('mono'):
        return out
    added = c04gen.added_records(case, obs)
    for phase in ('q1', 'q2', 'q3'):
        answers = obs.get(phase)
        if answers is None:
            continue
        for q, a in zip(case['queries'], answers):
            rid, beg, end = q
            for view in ('raw', 'pub'):
                err = a['e'] if view == 'raw' else a['pe']
                chunks = a[view]
                for (i, r, s, e, ch, _m) in added:
                    if r != rid or not (s < end and e > beg):
                        continue
                    if err != 0 or not covered(ch, chunks):
                        why = ('error class %d' % err) if err else ('no chunks' if not chunks else 'chunks %s' % chunks[:6])
                        out.append(('%s:%s:%s:missed:%s' % (kind, phase, view, feature(case, obs, i)),
                                    'record %d [%d,%d) on reference %d in chunk %s overlaps query %s but is not covered: %s' % (i, s, e, r, list(ch), q, why)))
                        break
    # interleaved history: answers given while the index was being built
    for m in obs.get('mid', []):
        if 'panic' in m:
            out.append(('%s:mid:panic' % kind, 'query/write in the middle of a history panicked: %s' % m['panic']))
        for q, a in zip(case['queries'], m.get('q', [])):
            rid, beg, end = q
            for view in ('raw', 'pub'):
                err = a['e'] if view == 'raw' else a['pe']
                for (i, r, s, e, ch, _m) in added:
                    if i >= m['at'] or r != rid or not (s < end and e > beg):
                        continue
                    if err != 0 or not covered(ch, a[view]):
                        out.append(('%s:mid:%s:missed:%s' % (kind, view, feature(case, obs, i)),
                                    'after %d records (history %s) record %d [%d,%d) overlaps query %s but is not covered: %s' % (m['at'], case.get('hist'), i, s, e, q, ('error class %d' % err) if err else a[view][:6])))
                        break
    if 'iter' in obs:
        for q, it in zip(case['queries'], obs['iter']):
            if it.get('skip'):
                continue
            rid, beg, end = q
            seen = set(it.get('seen', []))
            for (i, r, s, e, ch, _m) in added:
                if r == rid and s < end and e > beg and (i not in seen or 'err' in it or 'fail' in it):
                    out.append(('bai:iter:missed:%s' % feature(case, obs, i),
                                'iterating the chunks returned for %s over the written BAM does not yield record %d [%d,%d): %s' % (q, i, s, e, it)))
                    break
    # independent check of End() against the CIGAR (SAMv1: M D N = X consume reference)
    if kind == 'bai':
        for r, info in zip(case['recs'], obs.get('recs', [])):
            if r.get('unplaced') or r.get('flags', 0) & 4 or not r.get('cig'):
                continue
            want = r['pos'] + c04gen.cigar_reflen(r['cig'])
            if info[2] != want:
                out.append(('bai:end', 'Record.End() = %d, CIGAR %s at %d ends at %d' % (info[2], r['cig'], r['pos'], want)))
    seen = set()
    res = []
    for s, w in out:
        if s not in seen:
            seen.add(s)
            res.append((s, w))
    return res


def covered(ch, chunks):
    return c04gen.covered(ch, chunks)


def nontrivial_key(case, obs):
    """A case is non-trivial when at least one query overlaps an added record
    (so completeness has something to show)."""
    added = c04gen.added_records(case, obs)
    hit = 0
    for rid, beg, end in case['queries']:
        hit += sum(1 for (_i, r, s, e, _c, _m) in added if r == rid and s < end and e > beg)
    if not hit:
        return None
    return json.dumps([case['kind'], case.get('ms'), case.get('dp'), [(r['rid'], r['pos'], r['end']) for r in case['recs']], case['queries']], sort_keys=True)


def histogram(res, case, obs):
    k = case['kind']
    res.count('kind/' + k)
    res.count('%s/flavour/%s' % (k, case.get('flavour')))
    res.count('%s/records/%s' % (k, '0' if not case['recs'] else '1-4' if len(case['recs']) < 5 else '5-12' if len(case['recs']) < 13 else '13+'))
    mx = max([r['end'] for r in case['recs']] + [0])
    res.count('%s/maxpos/%s' % (k, '<2^18' if mx < 1 << 18 else '<2^24' if mx < 1 << 24 else '>=2^24'))
    if case.get('real'):
        res.count('bai/layout/real')
    if k == 'csi':
        res.count('csi/geometry/%s' % ('default' if (case['ms'], case['dp']) == (14, 5) else 'other'))
    res.count('strategy/' + case.get('strat', '-').split(':')[0])
    res.count('%s/history/%s' % (k, 'interleaved x%d' % (len(case['hist']) - 1) if case.get('hist') else 'add all, then query'))
    if k == 'bai':
        res.count('bai/query-time MergeStrategy/' + case.get('qstrat', 'nil').split(':')[0])
    for e in obs.get('adderr', []):
        if e:
            res.count('%s/adderror/%d' % (k, e))
    for a in obs.get('q1', []):
        res.count('%s/query/%s' % (k, 'error%d' % a['e'] if a['e'] else 'empty' if not a['raw'] else 'chunks'))


def corpus_cases():
    import os
    d = os.path.join(core.ROOT, 'corpus', 'C04')
    cs = []
    if os.path.isdir(d):
        for n in sorted(os.listdir(d)):
            if n.endswith('.json'):
                cs.append(json.load(open(os.path.join(d, n))))
    return cs


def run(res, rng, tier, prop='C04'):
    cases = corpus_cases() + c04gen.gen_cases(rng, tier)
    obs = core.run_harness('c04', cases, jobs=8)
    terms = []
    for c, o in zip(cases, obs):
        res.evaluations += 1
        if 'bad_case' in o or 'crash' in o or 'garbled' in o:
            res.corr_bad.append(dict(case=c, obs=strip(o), note='harness could not run the case'))
            continue
        key = nontrivial_key(c, o)
        if key:
            res.nontrivial.add(key)
        histogram(res, c, o)
        for sig, what in oracle(c, o):
            res.failures.append(dict(sig=sig, what=what, case=c, observed=strip(o)))
        if 'hang' in o or 'panic' in o:
            continue
        t = c04coq.term(c, o)
        if t is not None:
            terms.append((c, o, t))
    bad, err, why = c04coq.mismatches(c04coq.HEADER, 'ixcase', 'ix_agree', [t[2] for t in terms], 'c04', explain='ix_explain')
    if err:
        res.corr_bad.append(dict(error=err))
    for i in bad:
        c, o, t = terms[i]
        res.corr_bad.append(dict(case=c, obs=strip(o), model_agrees_on='[add outcomes; structure; statistics; answers; structure after merge; answers after merge; public answers; public answers after merge] = ' + why.get(i, '?'),
                                 note='Coq model of Add/Chunks/MergeChunks/write/read disagrees with the implementation'))
    res.extra['traces_validated_against_impl'] = len(terms) - len(bad)
    res.rule = ('a case = one index kind (BAI / CSI with (minShift, depth) in 1..20 x 1..8, v1/v2 / tabix), a coordinate-sorted record list on 1-6 references '
                '(positions and ends biased to +-2 around every bin-level edge up to the scheme limit, placed-unmapped, CIGAR-less, unplaced records), '
                'a monotone chunk layout (synthetic or LastChunk of a BAM the harness writes), 5-14 queries biased to record ends and tile edges, one merge strategy; '
                'plus ill-formed lists for each error exit of Add. Non-trivial = at least one query overlaps an added record; distinct by (kind, geometry, records, queries)')
    ex = [(c, o) for c, o in zip(cases, obs) if nontrivial_key(c, o)]
    res.samples = [dict(case=dict(kind=c['kind'], recs=c['recs'][:3], queries=c['queries'][:3], strat=c['strat']),
                        observed=dict(adderr=o.get('adderr'), q1=o.get('q1', [])[:3])) for c, o in ex[:3]]
    res.trusted = TRUSTED
    res.assumptions = ASSUME


def replay(res, rp):
    c = rp.get('case')
    if not c:
        print(json.dumps(rp, indent=1)[:4000])
        return 0
    o = core.run_harness('c04', [c])[0]
    print('case     :', json.dumps(c))
    print('observed :', json.dumps(strip(o))[:3000])
    fs = oracle(c, o)
    print('oracle   :', fs)
    t = c04coq.term(c, o)
    if t is not None:
        bad, err, why = c04coq.mismatches(c04coq.HEADER, 'ixcase', 'ix_agree', [t], 'c04r', explain='ix_explain')
        print('model    :', 'agrees with the implementation' if not bad and not err else 'DISAGREES %s %s' % (err or '', why))
    return 1 if fs else 0


TRUSTED = [
    'Coq 8.16.1 kernel (coqc); vm_compute for case evaluation and the non-vacuity examples; no native_compute',
    'hand-written model coq/Model/Index.v, Csi.v, Tabix.v, IndexIO.v of internal/index*.go, csi/*.go, tabix/tabix.go; validated on every run by evaluating it inside Coq on the cases the implementation ran (Add error class, index structure, statistics, raw chunk lists before/after MergeChunks and after write/read, bytes written)',
    'virtual offsets are modelled as the integer File<<16|Block (the harness projects bgzf.Offset the same way); Go int/uint64 counters as unbounded Z, uint32 bin arithmetic wraps explicitly',
    'sort.Sort is modelled by insertion sort (keys are distinct under the stated invariants); sort.Search by first-not-less on the sorted bin list',
    'translator gen/ for internal_BinFor, IsValidIndexPos, TileWidth, level constants used by the model',
    'axioms: none (Print Assumptions: Closed under the global context)',
]
ASSUME = [
    'records have Start < End (an alignment without reference length is outside the theorems; the check treats it as one base)',
    'queries satisfy 0 <= beg < end <= 2^29 (resp. the CSI limit 2^(minShift+3*depth)); CSI geometries with depth <= 10 and minShift+3*depth <= 62',
    'the strategy functions are the left-to-right merges of Model/Index.v (compared with the implementation each run); their covering property is proved there, not taken from C17',
]

CLAIM = dict(
    text='Machine-checked proof (Coq 8.16.1) over an executable model of internal.Index / csi.Index / tabix.Index (Add with all exits, sort, Chunks with the tile-pruning loop, MergeChunks, the four strategies): '
         'for every coordinate-sorted in-range record list with a monotone chunk layout, Add never fails or panics and every query returns a chunk covering each overlapping record; error/empty answers imply no overlap. '
         'BAI: also in every state reached by sort / queries / MergeChunks with a covering strategy and after the byte-level WriteIndex/ReadIndex round trip (bai_complete, bai_complete_merged, strategies_cover, bai_complete_public for the query-time MergeStrategy, bai_complete_after_write_read); '
         'CSI for every geometry with depth <= 10, minShift+3*depth <= 62 and tabix: built index and all sort/query/merge states (csi_complete, csi_complete_merged, csi_complete_after_write_read, tabix_complete, tabix_complete_after_write_read); Add never fails under exactly sorted / in range / monotone layout (bai_add_never_fails, csi_add_never_fails). '
         'Bin containment is C16\'s theorem transported to this model; no premises, no axioms. The model is evaluated inside Coq against the implementation on every generated case; a brute-force overlap oracle (plus bam.Iterator over a real BAM) judges the implementation.',
    note='Trusted: Coq kernel, the hand-written model (validated by correspondence each run), harness/generators/oracle.',
    technique='Coq proof over hand-written executable model + vm_compute correspondence + brute-force oracle',
    design='6/C04')
