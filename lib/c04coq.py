"""Coq terms for C04/C15 cases and observations (see coq/Model/IndexRun.v, IndexIORun.v)."""
import os
import re
from concurrent.futures import ThreadPoolExecutor

import core
from core import cb


def cz(n):
    """Z literal.  Decimal literals cost ~10 ms each to interpret in Coq 8.16
    (number notation), so anything beyond two digits is written with the
    binary constructors directly."""
    n = int(n)
    if 0 <= n < 100:
        return str(n)
    neg = n < 0
    bits = bin(abs(n))[2:]
    s = 'xH'
    for b in bits[1:]:
        s = '(%s %s)' % ('xI' if b == '1' else 'xO', s)
    return '(%s %s)' % ('Zneg' if neg else 'Zpos', s)


def clist(xs, f=cz):
    return '[' + '; '.join(f(x) for x in xs) + ']'


def copt(x, f=cz):
    return 'None' if x is None else '(Some %s)' % f(x)

HEADER = ('From Hts Require Import Base.Prim Generated Model.Index Model.Tabix Model.Csi Model.IndexRun.\n'
          'Open Scope Z_scope.')
HEADER_IO = ('From Hts Require Import Base.Prim Generated Model.Index Model.Tabix Model.Csi Model.IndexRun Model.IndexIO Model.IndexIORun.\n'
             'Open Scope Z_scope.')

MAXINT = (1 << 63) - 1


def cchunk(c):
    return '(%s, %s)' % (cz(c[0]), cz(c[1]))


def cchunks(cs):
    return clist(cs, cchunk)


def crec(info):
    rid, start, end, bn, placed, mapped, b, e = info
    return 'mkRec %s %s %s %s %s %s %s %s' % (cz(rid), cz(start), cz(end), cz(bn), cz(b), cz(e), cb(placed), cb(mapped))


def cstatrow(row):
    ok, b, e, m, u = row
    return '(Some (%s, %s, %s, %s))' % (cz(b), cz(e), cz(m), cz(u)) if ok else 'None'


def cdump(d):
    refs = []
    for r in d['refs']:
        bins = []
        for b in r['bins']:
            if len(b) == 2:
                bins.append('(%s, 0, 0, %s)' % (cz(b[0]), cchunks(b[1])))
            else:
                bins.append('(%s, %s, %s, %s)' % (cz(b[0]), cz(b[1]), cz(b[2]), cchunks(b[3])))
        intv = clist(r.get('intv', []), cchunk)
        refs.append('(%s, %s, %s)' % (clist(bins, str), cstatrow(r['st']), intv))
    last = d['last']
    if last == -2:
        last = MAXINT
    return '(%s, %s, %s)' % (clist(refs, str), cb(d['sorted']), cz(last))


def cstat(o):
    unm = o['unm']
    return '(%s, %s, %s)' % (cz(o['nrefs']), clist(o['stats'], cstatrow), copt(unm[1] if unm[0] else None))


def cqans(qs):
    return clist(qs, lambda a: '(%s, %s)' % (cz(a['e']), cchunks(a['raw'])))


def cpub(qs):
    return clist(qs, lambda a: cchunks(a['pub']))


def cmid(mid):
    return clist(mid, lambda m: '(%s, %s)' % (cdump(m['dump']), cqans(m.get('q', []))))


def chist(c):
    return clist(c.get('hist') or [], lambda h: '(%s, %s)' % (cz(h[0]), cz(h[1])))


def cname(s):
    return clist(list(s.encode('utf-8', 'surrogateescape')))


def ckind(c):
    k = c['kind']
    if k == 'bai':
        return 'KBai'
    if k == 'tabix':
        return '(KTbx %s %s)' % (clist(c.get('names', []), cname), clist(c.get('tbx', [0] * 7)))
    return '(KCsi %s %s %s %s)' % (cz(c['ms']), cz(c['dp']), cz(c.get('ver', 2)), clist(c.get('aux') or []))


def cstrat(s):
    if s == 'nil':
        return 'SNil'
    if s == 'identity':
        return 'SIdentity'
    if s == 'adjacent':
        return 'SAdjacent'
    if s == 'squash':
        return 'SSquash'
    return '(SComp %s)' % cz(int(s.split(':')[1]))


EMPTY_DUMP = '([], false, 0)'
EMPTY_STAT = '(0, [], None)'


def full(o):
    return ('addpanic' not in o and all(e == 0 for e in o.get('adderr', [])) and 'q1' in o and 'q3' in o
            and not any(k in o for k in ('q1panic', 'mpanic', 'q3panic', 'w1panic')))


def cobs(o):
    if full(o):
        return '(mkObs %s false true %s %s %s %s %s %s %s %s)' % (clist(o['adderr']), cdump(o['dump']), cstat(o), cqans(o['q1']), cdump(o['dump3']), cqans(o['q3']),
                                                                cpub(o['q1']), cpub(o['q3']), cmid(o.get('mid', [])))
    return '(mkObs %s %s false %s %s [] %s [] [] [] [])' % (clist(o.get('adderr', [])), cb('addpanic' in o), EMPTY_DUMP, EMPTY_STAT, EMPTY_DUMP)


def term(c, o):
    """Parts of a Coq term of type ixcase (a list of (type, term) definitions and the
    final expression over them), or None when the observation is not comparable."""
    if c.get('hasforeign') or 'recs' not in o:
        return None
    if any(k in o for k in ('q1panic', 'mpanic', 'q3panic')) or any('panic' in m for m in o.get('mid', [])):
        return None
    parts = [('ixkind', ckind(c)),
             ('list irec', clist(o['recs'], lambda r: '(%s)' % crec(r))),
             ('list (Z * Z * Z)', clist(c['queries'], lambda q: '(%s, %s, %s)' % (cz(q[0]), cz(q[1]), cz(q[2])))),
             ('ixstrat', cstrat(c['strat'])),
             ('list (Z * Z)', chist(c)),
             ('ixstrat', cstrat(c.get('qstrat', 'nil') if c['kind'] == 'bai' else 'nil')),
             ('ixobs', cobs(o))]
    return (parts, 'mkCase %s %s %s %s %s %s %s')


def mismatches(header, ctype, agree, terms, tag, shard=None, jobs=8, explain=None):
    """Like core.coq_mismatches, but every case is written as several small
    top-level definitions (elaboration of one large literal term is
    super-linear).  Returns (bad_indices, error_text, {index: explanation})."""
    os.makedirs(core.WORK, exist_ok=True)
    if shard is None:
        shard = max(1, (len(terms) + jobs - 1) // jobs)      # one coqc start-up per worker
    shards = [(i, terms[i:i + shard]) for i in range(0, len(terms), shard)]

    def one(arg):
        k, (base, ts) = arg
        name = 'cases_%s_%d' % (tag, k)
        path = os.path.join(core.WORK, name + '.v')
        with open(path, 'w') as f:
            f.write(header + '\n')
            names = []
            for j, (parts, fmt) in enumerate(ts):
                ns = []
                for q, (ty, tm) in enumerate(parts):
                    n = 'p%d_%d' % (j, q)
                    f.write('Definition %s : %s := %s.\n' % (n, ty, tm))
                    ns.append(n)
                f.write('Definition c%d : %s := %s.\n' % (j, ctype, fmt % tuple(ns)))
                names.append('c%d' % j)
            f.write('Definition cases : list (%s) := [%s].\n' % (ctype, '; '.join(names)))
            f.write('Fixpoint bad_idx (i : nat) (l : list (%s)) : list nat :=\n'
                    '  match l with [] => [] | c :: t => if %s c then bad_idx (S i) t else i :: bad_idx (S i) t end.\n' % (ctype, agree))
            f.write('Definition bad := Eval vm_compute in bad_idx O cases.\nPrint bad.\n')
            if explain:
                f.write('Definition why := Eval vm_compute in map (fun c => if %s c then [] else %s c) cases.\nPrint why.\n' % (agree, explain))
        rc, out = core.sh(['coqc', '-Q', core.COQ, 'Hts', path], cwd=core.WORK, timeout=3000)
        for ext in ('.vo', '.vok', '.vos', '.glob'):
            try:
                os.remove(os.path.join(core.WORK, name + ext))
            except OSError:
                pass
        try:
            os.remove(os.path.join(core.WORK, '.' + name + '.aux'))
        except OSError:
            pass
        if rc != 0:
            return None, 'coqc failed on %s:\n%s' % (path, out[-3000:]), {}
        m = re.search(r'bad\s*=\s*(.*?)\s*:\s*list nat', out, flags=re.S)
        if not m:
            return None, 'unparsable coqc output:\n' + out[-2000:], {}
        idx = [int(x) for x in re.findall(r'\d+', m.group(1))]
        why = {}
        if explain and idx:
            m2 = re.search(r'why\s*=\s*\[(.*)\]\s*:\s*list', out, flags=re.S)
            if m2:
                rows = re.findall(r'\[([^\[\]]*)\]', m2.group(1))
                for i in idx:
                    if i < len(rows):
                        why[base + i] = re.sub(r'\s+', ' ', rows[i])
        if not idx:
            try:
                os.remove(path)
            except OSError:
                pass
        return [base + i for i in idx], None, why

    bad, err, why = [], None, {}
    with ThreadPoolExecutor(max_workers=jobs) as ex:
        for b, e, w in ex.map(one, enumerate(shards)):
            if e:
                err = e
            else:
                bad.extend(b)
                why.update(w)
    return sorted(bad), err, why


# ------------------------------------------------------------------ C15 terms

def cextra(c, st):
    """Kind-specific header observables, as the model's im_extra lists them."""
    k = c['kind']
    if k == 'tabix':
        hdr = list(st['hdr'])
        hdr[1] = 1 if hdr[1] else 0
        rows = [clist(hdr), clist(st['ids'] or []), clist([st['nids']])] + [cname(n) for n in (st['names'] or [])]
        return '[' + '; '.join(rows) + ']'
    if k == 'csi':
        return '[%s; %s]' % (clist([st['ver'], st['dumpms'], st['dumpdp']]), clist(st['aux']))
    return '[]'


def status(o, err, nil, panic):
    if o.get(panic):
        return 3
    if o.get(err):
        return 1
    if o.get(nil):
        return 2
    return 0


def io_term(c, o):
    """(parts, fmt) for a term of type iocase, or None."""
    foreign = c.get('hasforeign')
    if foreign:
        fstatus = 3 if 'rdpanic' in o and 'frderr' not in o else status(o, 'frderr', 'frdnil', None)
        if fstatus != 0:
            base = ([('ixkind', ckind(c)), ('list irec', '[]'), ('list (Z * Z * Z)', '[]'), ('ixstrat', 'SNil'), ('list (Z * Z)', '[]'), ('ixstrat', 'SNil'),
                     ('ixobs', '(mkObs [] false true %s %s [] %s [] [] [] [])' % (EMPTY_DUMP, EMPTY_STAT, EMPTY_DUMP))], 'mkCase %s %s %s %s %s %s %s')
            io = '(mkIO %s [] (mkBytes None 0 0) %s 0 %s %s [] [] false)' % (cz(fstatus), EMPTY_DUMP, EMPTY_STAT, EMPTY_DUMP)
            parts, fmt = base
            return (parts + [('list Z', clist(c['foreign'])), ('ioobs', io)], 'mkIOCase (' + fmt + ') (Some %s) %s')
        o = dict(o)
        o.setdefault('recs', [])
        o.setdefault('adderr', [])
    t = term(dict(c, hasforeign=False), o)
    if t is None:
        return None
    parts, fmt = t
    if not full(o) or 'w1len' not in o:
        io = '(mkIO 0 [] (mkBytes None 0 0) %s 0 %s %s [] [] false)' % (EMPTY_DUMP, EMPTY_STAT, EMPTY_DUMP)
    else:
        st1 = dict(o)
        if c['kind'] == 'csi':
            st1['dumpms'], st1['dumpdp'] = o['dump']['ms'], o['dump']['dp']
        exact = '(Some %s)' % clist(o['w1']) if 'w1' in o else 'None'
        by = '(mkBytes %s %s %s)' % (exact, cz(o['w1len']), cz(o['w1hash']))
        stt = 3 if 'rdpanic' in o else status(o, 'rderr', 'rdnil', None)
        if stt == 0 and 'st2' in o and 'q2' in o and 'q2panic' not in o and 'w2panic' not in o:
            st2 = dict(o['st2'])
            if c['kind'] == 'csi':
                st2['dumpms'], st2['dumpdp'] = o['dump2']['ms'], o['dump2']['dp']
            io = '(mkIO 0 %s %s %s 0 %s %s %s %s %s)' % (cextra(c, st1), by, cdump(o['dumpw']), cstat(st2), cdump(o['dump2']),
                                                      cqans(o['q2']), cextra(c, st2), cb(o.get('w2eq', False)))
        else:
            io = '(mkIO 0 %s %s %s %s %s %s [] [] false)' % (cextra(c, st1), by, cdump(o['dumpw']), cz(stt if stt else 9), EMPTY_STAT, EMPTY_DUMP)
    fo = ('list Z', clist(c['foreign'])) if foreign else None
    if fo:
        return (parts + [fo, ('ioobs', io)], 'mkIOCase (' + fmt + ') (Some %s) %s')
    return (parts + [('ioobs', io)], 'mkIOCase (' + fmt + ') None %s')
