"""Case generator and spec-level oracles shared by C04 and C15 (index Add/Chunks/
MergeChunks/serialisation for BAI, CSI and tabix)."""

BAI_MAX = (1 << 29) - 2          # largest position IsValidIndexPos accepts
TILE = 1 << 14
REFCONS = {0, 2, 3, 7, 8}        # CIGAR ops consuming reference: M D N = X


# ----------------------------------------------------------------- positions

def edge_pos(rng, ms, dp, scale, hi):
    """A position biased to the edges of every bin level of the (ms, dp) scheme."""
    lvls = [l for l in range(dp + 1) if (1 << (ms + 3 * l)) <= max(scale, 1 << ms)] or [0]
    lvl = rng.choice(lvls)
    s = ms + 3 * lvl
    top = max(1, min(hi, scale) >> s)
    r = rng.random()
    if r < 0.5:
        k = rng.randrange(0, min(top, 4) + 1)
    else:
        k = rng.randrange(0, top + 1)
    base = k << s
    r = rng.random()
    if r < 0.45:
        d = rng.choice([-2, -1, 0, 0, 1, 2])
    elif r < 0.7:
        d = rng.randrange(-40, 41)
    else:
        d = rng.randrange(0, 1 << ms)
    return max(0, min(hi, base + d))


def pick_scale(rng, ms, dp):
    full = 1 << (ms + 3 * dp)
    r = rng.random()
    if r < 0.5:
        return min(full, 1 << (ms + 4))
    if r < 0.87:
        return min(full, 1 << (ms + 10))
    return full


def rec_len(rng, ms, dp, start, hi):
    """Length biased to end exactly on / one off an edge, or to span levels."""
    r = rng.random()
    if r < 0.15:
        return 1
    if r < 0.3:
        return rng.randrange(1, 200)
    if r < 0.75:
        lvl = rng.randrange(0, dp + 1) if rng.random() < 0.4 else 0
        s = ms + 3 * lvl
        nxt = ((start >> s) + 1 + (rng.randrange(0, 3) if rng.random() < 0.3 else 0)) << s
        e = nxt + rng.choice([-1, 0, 0, 1, 2, 5])
        return max(1, min(hi, e) - start)
    return rng.randrange(1, 1 << (ms + rng.randrange(0, 3 * dp + 1) if rng.random() < 0.5 else ms + 1))


def cigar_for(rng, length, zero_ok=False):
    """A CIGAR whose reference length is `length`."""
    ops = []
    if rng.random() < 0.3:
        ops.append([rng.choice([4, 5]), rng.randrange(1, 20)])
    if length == 0:
        ops.append([rng.choice([1, 4]), rng.randrange(1, 30)])
        return ops
    parts = []
    left = length
    while left > 0 and len(parts) < 4 and rng.random() < 0.5:
        p = rng.randrange(1, left + 1)
        parts.append(p)
        left -= p
    if left > 0:
        parts.append(left)
    for i, p in enumerate(parts):
        # op lengths are 28 bit
        while p > 0:
            q = min(p, (1 << 28) - 1)
            ops.append([rng.choice([0, 0, 0, 2, 3, 7, 8]) if i else 0, q])
            p -= q
        if rng.random() < 0.3:
            ops.append([1, rng.randrange(1, 10)])
    if rng.random() < 0.2:
        ops.append([4, rng.randrange(1, 20)])
    return ops


def cigar_reflen(cig):
    return sum(l for op, l in cig if op in REFCONS)


# -------------------------------------------------------------------- layouts

def layout(rng, n, mono=True, zero_start=False):
    """n chunks as virtual offsets (file<<16 | block)."""
    file, block = (0, 0) if zero_start else (rng.choice([0, 0, 1, 98, 5000, 1 << 30]) + (0 if rng.random() < 0.5 else rng.randrange(0, 1000)), rng.randrange(0, 65280))
    if file == 0 and block == 0 and not zero_start:
        block = rng.randrange(1, 65280)
    out = []
    for _ in range(n):
        b = (file << 16) | block
        size = rng.randrange(1, 400) if rng.random() < 0.8 else rng.randrange(400, 70000)
        block += size
        while block >= 65280:
            block -= 65280
            file += rng.randrange(30, 20000)
        if block == 0 and rng.random() < 0.5:
            # a record ending exactly at the end of a block may be reported either way
            pass
        e = (file << 16) | block
        if e <= b:
            e = b + 1
        out.append([b, e])
        r = rng.random()
        if r < 0.6:
            pass                                   # next record starts where this one ended
        elif r < 0.8:
            file += rng.randrange(30, 20000)       # new block
            block = 0
        else:
            block += rng.randrange(1, 100)
            if block >= 65280:
                block -= 65280
                file += rng.randrange(30, 20000)
        if not mono and rng.random() < 0.35 and out:
            # overlapping layout (not a real file): next begin inside the previous chunk
            pb, pe = out[-1]
            if pe - pb > 1:
                nb = rng.randrange(pb + 1, pe)
                file, block = nb >> 16, nb & 0xffff
    return out


# ---------------------------------------------------------------------- cases

STRATS = ['identity', 'adjacent', 'adjacent', 'squash', 'comp:0', 'comp:1', 'comp:100', 'comp:65536', 'comp:-1', 'nil']


def gen_records(rng, kind, ms, dp, nref, scale, hi, n):
    """Sorted (rid, start) record list: dicts with rid, pos, end (+ cig, flags for bai)."""
    rids = []
    rid = 0 if rng.random() < 0.8 else rng.randrange(0, nref)
    for _ in range(n):
        if rng.random() < 0.25 and rid < nref - 1:
            rid += 1 if rng.random() < 0.7 else rng.randrange(1, nref - rid)
        rids.append(rid)
    recs = []
    i = 0
    while i < n:
        j = i
        while j < n and rids[j] == rids[i]:
            j += 1
        starts = sorted(edge_pos(rng, ms, dp, scale, hi) for _ in range(j - i))
        if rng.random() < 0.3 and len(starts) > 1:
            k = rng.randrange(1, len(starts))
            starts[k] = starts[k - 1]               # equal starts
        for s in starts:
            ln = rec_len(rng, ms, dp, s, hi + 1)
            e = min(hi + 1, s + ln)            # the end is exclusive: one past the last indexable position
            if e <= s:
                e = s + 1
            recs.append(dict(rid=rids[i], pos=s, end=e))
        i = j
    if scale >= hi and recs and rng.random() < 0.5:
        last = max(r['rid'] for r in recs)
        p = hi - rng.choice([0, 0, 1, 5])
        recs.append(dict(rid=last, pos=p, end=min(hi + 1, p + rng.choice([1, 1, 2]))))
    recs.sort(key=lambda r: (r['rid'], r['pos']))
    return recs


def gen_queries(rng, ms, dp, nref, recs, hi, nq):
    qs = []
    pts = []
    for r in recs:
        if r.get('placed', True) and r['rid'] >= 0:
            pts.append((r['rid'], r['pos']))
            pts.append((r['rid'], r['end']))
    for _ in range(nq):
        r = rng.random()
        if pts and r < 0.6:
            rid, p = rng.choice(pts)
            b = p + rng.choice([-2, -1, -1, 0, 0, 1, 2]) - (rng.randrange(0, 50) if rng.random() < 0.3 else 0)
            if rng.random() < 0.3:
                b = (b >> ms) << ms                # tile aligned
        else:
            rid = rng.randrange(0, nref)
            b = edge_pos(rng, ms, dp, hi, hi)
        b = max(0, min(hi - 1, b))
        r = rng.random()
        if r < 0.35:
            w = rng.randrange(1, 4)
        elif r < 0.7:
            w = rng.randrange(1, 3 << ms)
        elif r < 0.9:
            s = ms + 3 * rng.randrange(0, dp + 1)
            w = max(1, (((b >> s) + 1) << s) - b + rng.choice([-1, 0, 1]))
        else:
            w = rng.randrange(1, 1 << (ms + 9))
        w = min(w, 3000 << ms)                     # bounds the number of candidate bins
        e = min(hi + 1, b + w)
        if e <= b:
            e = b + 1
        if rng.random() < 0.06:
            rid = rng.choice([-1, nref, nref + 3])
        qs.append([rid, b, e])
    return qs


def gen_case(rng, kind, tier, flavour=None, small=False):
    """One well-formed case (sorted, in range, monotone layout) unless flavour says otherwise."""
    c = dict(kind=kind)
    if kind == 'csi':
        if rng.random() < 0.25:
            ms, dp = 14, 5
        else:
            ms, dp = rng.randrange(1, 21), rng.randrange(1, 9)
        c['ms'], c['dp'] = ms, dp
        c['ver'] = rng.choice([1, 2, 2])
        c['aux'] = [rng.randrange(256) for _ in range(rng.choice([0, 0, 1, 5, 40]))]
    else:
        ms, dp = 14, 5
    hi = (1 << (ms + 3 * dp)) - 2
    scale = pick_scale(rng, ms, dp)
    if small and rng.random() < 0.93:
        scale = min(scale, 1 << (ms + 9))
    nref = rng.choice([1, 1, 2, 3, 4, 6])
    c['nref'] = nref
    big = scale > (1 << (ms + 10))
    n = rng.randrange(1, 9 if big else 25)
    recs = gen_records(rng, kind, ms, dp, nref, scale, hi, n)
    wellformed = True
    mono = True
    if flavour == 'overlap':
        mono = False
    # unplaced records: at the end (sorted files) and sometimes in between
    nun = rng.choice([0, 0, 1, 2, 5]) if kind != 'tabix' else 0
    for _ in range(nun):
        at = len(recs) if rng.random() < 0.7 else rng.randrange(0, len(recs) + 1)
        recs.insert(at, dict(rid=-1, pos=-1, end=0, unplaced=True))
    if kind == 'bai':
        for r in recs:
            if r.get('unplaced'):
                r['cig'] = []
                r['flags'] = rng.choice([4, 4 | 1 | 8, 4 | 16])
                continue
            x = rng.random()
            ln = r['end'] - r['pos']
            if x < 0.12:
                r['flags'] = rng.choice([4, 4 | 1, 4 | 1 | 32])        # placed, unmapped, mate mapped
                r['cig'] = [] if rng.random() < 0.5 else cigar_for(rng, ln)
                r['end'] = r['pos'] + 1
            elif x < 0.16 and flavour == 'bothunmapped':
                r['flags'] = 4 | 8 | 1
                r['cig'] = []
                r['end'] = r['pos'] + 1
            elif x < 0.19:
                r['flags'] = 0
                r['cig'] = []                                           # no CIGAR: length one
                r['end'] = r['pos'] + 1
            elif x < 0.21 and flavour == 'zerolen':
                r['flags'] = 0
                r['cig'] = cigar_for(rng, 0)
                r['end'] = r['pos']
            else:
                r['flags'] = rng.choice([0, 0, 16, 1 | 2 | 64, 256, 1024])
                r['cig'] = cigar_for(rng, ln)
        c['real'] = rng.random() < 0.3
    else:
        for r in recs:
            if r.get('unplaced'):
                r['placed'], r['mapped'] = False, False
            else:
                r['placed'] = True
                r['mapped'] = rng.random() < 0.85
        if kind == 'tabix':
            names = []
            while len(names) < nref:
                nm = rng.choice(['chr', 'c', 'scaffold_', 'X', '']) + rng.choice(['', '1', '2', '10', 'M', 'Un_gl000%d' % rng.randrange(200, 250)])
                if rng.random() < 0.1:
                    nm = ''.join(chr(rng.randrange(1, 128)) for _ in range(rng.randrange(1, 6)))
                if nm not in names and (nm or rng.random() < 0.05):
                    names.append(nm)
            # tabix assigns ids in order of first appearance: every reference has records, in id order
            used = sorted({r['rid'] for r in recs if r['rid'] >= 0})
            remap = {old: new for new, old in enumerate(used)}
            for r in recs:
                if r['rid'] >= 0:
                    r['rid'] = remap[r['rid']]
            c['nref'] = nref = max(1, len(used))
            c['names'] = names[:nref]
            if nref >= 2 and rng.random() < 0.2 and '' not in c['names'][:-1]:
                c['names'][-1] = ''                    # a trailing empty reference name
            c['tbx'] = [rng.choice([0, 1, 2, 2, rng.randrange(256)]), rng.randrange(2), rng.randrange(1, 9), rng.randrange(1, 9), rng.randrange(0, 9),
                        rng.choice([35, 35, 64, rng.randrange(0, 1 << 20)]), rng.choice([0, 0, 1, 7, rng.randrange(0, 1 << 30)])]
    lay = layout(rng, len(recs), mono=mono, zero_start=(kind != 'bai' and rng.random() < 0.1) or (kind == 'bai' and rng.random() < 0.03))
    for r, (b, e) in zip(recs, lay):
        r['cb'], r['ce'] = b, e
        if c.get('real') and rng.random() < 0.3:
            r['fl'] = True
    # ill-formed variants: the error exits of Add
    if flavour == 'range':
        r = rng.choice([x for x in recs if not x.get('unplaced')] or recs)
        if rng.random() < 0.5:
            r['end'] = hi + rng.choice([2, 3, 1000])
            if kind == 'bai':
                r['cig'] = cigar_for(rng, r['end'] - r['pos'])
                r['flags'] = 0
        else:
            r['pos'] = -rng.choice([2, 3, 1000])
            r['rid'] = max(0, r['rid'])
            r.pop('unplaced', None)
            if kind == 'bai':
                r['cig'] = []
                r['flags'] = 0
            else:
                r['placed'] = True
        wellformed = False
    elif flavour == 'reforder':
        pl = [i for i, x in enumerate(recs) if not x.get('unplaced')]
        if len(pl) >= 2 and nref >= 3:
            i = rng.choice(pl[1:])
            recs[i]['rid'] = max(0, recs[i]['rid'] - rng.randrange(2, 4))
        wellformed = False
    elif flavour == 'posorder':
        pl = [i for i, x in enumerate(recs) if not x.get('unplaced')]
        if len(pl) >= 2:
            k = rng.randrange(1, len(pl))
            a, b = recs[pl[k - 1]], recs[pl[k]]
            if a['rid'] == b['rid'] and a['pos'] > 0:
                ln = b['end'] - b['pos']
                b['pos'] = rng.randrange(0, a['pos'])
                b['end'] = b['pos'] + max(1, ln)
                if kind == 'bai':
                    b['cig'] = cigar_for(rng, b['end'] - b['pos'])
                    b['flags'] = 0
        wellformed = False
    elif flavour == 'negrid':
        wellformed = False
    c['recs'] = recs
    nq = 8 if tier == 'quick' else 14
    c['queries'] = gen_queries(rng, ms, dp, c['nref'], recs, hi + 1, nq)
    if big:
        c['queries'] = c['queries'][:5]
    c['strat'] = rng.choice(STRATS)
    c['qstrat'] = rng.choice(STRATS) if kind == 'bai' else 'nil'     # bam.Index.MergeStrategy used by the public Chunks
    # interleaved history: add some, query and/or write (both sort the index), add more, ...
    if len(recs) >= 2 and rng.random() < 0.5:
        cuts = sorted(set(rng.randrange(1, len(recs)) for _ in range(rng.choice([1, 1, 2, 3]))))
        hist, prev = [], 0
        for k in cuts:
            hist.append([k - prev, rng.choice([1, 2, 3])])
            prev = k
        hist.append([len(recs) - prev, 0])
        c['hist'] = hist
    c['wellformed'] = wellformed and mono
    c['mono'] = mono
    c['flavour'] = flavour or 'plain'
    if c.get('real'):
        c['mono'] = True
    return c


def gen_nested(rng, kind, tier):
    """A higher-level bin holding records before and after a lower-level bin's
    record in file order, coalesced by Squash / Compressor, then queried: the
    candidate list contains a chunk that encloses a later-beginning one."""
    c = gen_case(rng, kind, tier, None, small=True)
    if kind == 'csi' and c['ms'] < 8:
        c['ms'] = rng.randrange(8, 21)
    ms, dp = (c.get('ms', 14), c.get('dp', 5)) if kind == 'csi' else (14, 5)
    hi = (1 << (ms + 3 * dp)) - 2
    lvl = rng.randrange(1, min(dp, 3) + 1)
    w = 1 << (ms + 3 * lvl)                      # width of a level-(dp-lvl) bin
    w8 = w >> 3                                  # width of its children
    if 2 * w + 10 > hi:
        return c
    base = rng.randrange(0, 3) * w
    if base + 2 * w > hi:
        base = 0
    t = 1 << ms
    # A and C both cross a child boundary of the same bin (so both are filed under it),
    # B lies in one tile of the child between them (leaf bin): after Squash/Compressor
    # the bin's single chunk [A.begin, C.end) encloses B's chunk.
    d1, d2, d3, d4 = rng.randrange(1, 60), rng.randrange(1, 60), rng.randrange(1, 60), rng.randrange(1, 60)
    a = base + w8 - d1
    bs = base + w8 + d2 + rng.randrange(0, 10)
    cs = base + 2 * w8 - d3
    recs = [dict(rid=0, pos=a, end=base + w8 + d2),
            dict(rid=0, pos=bs, end=bs + rng.randrange(1, 20)),
            dict(rid=0, pos=cs, end=base + 2 * w8 + d4)]
    if a < 0 or not (recs[0]['pos'] <= recs[1]['pos'] <= recs[2]['pos']):
        return c
    for _ in range(rng.randrange(0, 3)):
        p = recs[-1]['pos'] + rng.randrange(0, 2 * t)
        recs.append(dict(rid=0, pos=p, end=min(hi, p + rng.choice([5, t + 7, 3 * t]))))
    recs = [r for r in recs if r['pos'] < r['end'] <= hi]
    recs.sort(key=lambda r: r['pos'])
    if kind == 'bai':
        for r in recs:
            r['flags'] = 0
            r['cig'] = cigar_for(rng, r['end'] - r['pos'])
        c['real'] = rng.random() < 0.4
    else:
        for r in recs:
            r['placed'], r['mapped'] = True, True
        if kind == 'tabix':
            c['names'] = (c.get('names') or ['chrN'])[:1]
    c['nref'] = 1
    lay = layout(rng, len(recs))
    for r, (b, e) in zip(recs, lay):
        r['cb'], r['ce'] = b, e
    c['recs'] = recs
    qs = [[0, bs, cs + 1], [0, max(0, bs - rng.randrange(0, 50)), cs + rng.randrange(1, 40)], [0, cs, cs + 1]]
    for r in recs:
        for _ in range(2):
            b = max(0, r['pos'] - rng.randrange(0, 3 * t))
            qs.append([0, b, min(hi + 1, max(b + 1, r['pos'] + rng.randrange(1, t)))])
    c['queries'] = qs[:10]
    c['strat'] = rng.choice(['squash', 'squash', 'comp:0', 'comp:100', 'comp:65536'])
    c['qstrat'] = rng.choice(['squash', 'squash', 'squash', 'adjacent', 'nil', 'identity', 'comp:0', 'comp:65536']) if kind == 'bai' else 'nil'
    c['wellformed'], c['mono'], c['flavour'] = True, True, 'nested'
    return c


def gen_history(rng, kind, tier):
    """Interleaved history on one reference: records of one high-level bin far
    apart (so the linear index grows with a gap after the index has been
    sorted by a query / write) mixed with leaf-bin records and later records
    whose bin number is smaller than existing ones."""
    c = gen_case(rng, kind, tier, None, small=True)
    if kind == 'csi' and (c['ms'] < 8 or c['dp'] < 3):
        c['ms'], c['dp'] = rng.randrange(8, 21), rng.randrange(3, 9)
    ms, dp = (c.get('ms', 14), c.get('dp', 5)) if kind == 'csi' else (14, 5)
    hi = (1 << (ms + 3 * dp)) - 2
    lvl = 2
    w = 1 << (ms + 3 * lvl)
    w8 = w >> 3
    t = 1 << ms
    base = rng.randrange(0, 2) * w
    if base + w > hi:
        return c
    def cross(child, d=None):          # a record across the boundary between child-1 and child of the bin
        d1, d2 = rng.randrange(1, 60), rng.randrange(1, 60)
        return dict(rid=0, pos=base + child * w8 - d1, end=base + child * w8 + d2)
    def leaf(child):
        p = base + child * w8 + rng.randrange(0, w8 - 40)
        p = ((p >> ms) << ms) + rng.randrange(0, t - 30)
        return dict(rid=0, pos=p, end=p + rng.randrange(1, 25))
    children = sorted(rng.sample(range(1, 8), rng.choice([2, 3, 3, 4])))
    segs = []
    for ch in children:
        seg = [cross(ch)]
        for _ in range(rng.randrange(0, 3)):
            seg.append(leaf(ch))
        if rng.random() < 0.4:         # a lower-level boundary inside the child: a bin number between the two
            q = base + ch * w8 + (w8 >> 3) * rng.randrange(1, 8)
            seg.append(dict(rid=0, pos=q - rng.randrange(1, 40), end=q + rng.randrange(1, 40)))
        seg.sort(key=lambda r: r['pos'])
        segs.append(seg)
    recs = [r for seg in segs for r in seg]
    if any(recs[i]['pos'] > recs[i + 1]['pos'] for i in range(len(recs) - 1)) or recs[0]['pos'] < 0 or recs[-1]['end'] > hi:
        recs.sort(key=lambda r: r['pos'])
        segs = [recs[:len(recs) // 2], recs[len(recs) // 2:]]
    if kind == 'bai':
        for r in recs:
            r['flags'] = 0
            r['cig'] = cigar_for(rng, r['end'] - r['pos'])
        c['real'] = rng.random() < 0.3
    else:
        for r in recs:
            r['placed'], r['mapped'] = True, rng.random() < 0.9
        if kind == 'tabix':
            c['names'] = (c.get('names') or ['chrH'])[:1]
    c['nref'] = 1
    for r, (b, e) in zip(recs, layout(rng, len(recs))):
        r['cb'], r['ce'] = b, e
    c['recs'] = recs
    c['hist'] = [[len(seg), rng.choice([1, 2, 2, 3])] for seg in segs if seg]
    c['hist'][-1][1] = 0
    qs = []
    for r in recs[:10]:
        b = max(0, r['pos'] - rng.randrange(0, 2 * t))
        qs.append([0, b, min(hi + 1, max(b + 1, r['pos'] + rng.randrange(1, t)))])
    c['queries'] = qs[:10]
    c['strat'] = rng.choice(STRATS)
    c['wellformed'], c['mono'], c['flavour'] = True, True, 'history'
    return c


def gen_cases(rng, tier, kinds=('bai', 'csi', 'tabix'), n=None, small=False):
    per = n if n is not None else (60 if tier == 'quick' else 400)
    cases = []
    for kind in kinds:
        for i in range(per):
            r = rng.random()
            fl = None
            if r < 0.05:
                fl = 'range'
            elif r < 0.09:
                fl = 'reforder'
            elif r < 0.13:
                fl = 'posorder'
            elif r < 0.2:
                fl = 'overlap'
            elif r < 0.3 and kind == 'bai':
                fl = 'bothunmapped'
            elif r < 0.4 and kind == 'bai':
                fl = 'zerolen'
            cases.append(gen_case(rng, kind, tier, fl, small=small))
    for kind in kinds:
        for _ in range(max(2, per // 8)):
            cases.append(gen_nested(rng, kind, tier))
        for _ in range(max(3, per // 6)):
            cases.append(gen_history(rng, kind, tier))
    # no records at all / only unplaced records
    for kind in kinds:
        c = gen_case(rng, kind, tier)
        c['recs'] = []
        c['real'] = False
        cases.append(c)
        if kind != 'tabix':
            c = gen_case(rng, kind, tier)
            c['recs'] = [r for r in c['recs'] if r.get('unplaced')] or [dict(rid=-1, pos=-1, end=0, unplaced=True, cig=[], flags=4, placed=False, mapped=False, cb=70000, ce=70100)]
            c['real'] = False
            cases.append(c)
    return cases


# --------------------------------------------------------------------- oracle

def rec_interval(info):
    """Reference interval of an added record as the SAM specification defines it
    (an alignment without reference length counts as one base)."""
    rid, start, end = info[0], info[1], info[2]
    return rid, start, max(end, start + 1)


def covered(ch, chunks):
    b, e = ch
    return any(cb <= b and e <= ce for cb, ce in chunks)


def added_records(case, obs):
    """[(i, rid, start, end, (cb, ce), mapped)] for the placed records Add accepted."""
    out = []
    errs = obs.get('adderr', [])
    for i, info in enumerate(obs.get('recs', [])):
        if i >= len(errs) or errs[i] != 0:
            break
        if not info[4]:
            continue
        rid, s, e = rec_interval(info)
        out.append((i, rid, s, e, (info[6], info[7]), info[5]))
    return out


def true_stats(case, obs):
    """Statistics by independent counting over the records Add accepted."""
    errs = obs.get('adderr', [])
    per = {}
    unplaced = 0
    any_rec = False
    maxrid = -1
    for i, info in enumerate(obs.get('recs', [])):
        if i >= len(errs) or errs[i] != 0:
            break
        any_rec = True
        rid, placed, mapped, cb, ce = info[0], info[4], info[5], info[6], info[7]
        if not placed:
            unplaced += 1
            continue
        maxrid = max(maxrid, rid)
        st = per.setdefault(rid, dict(b=cb, e=ce, m=0, u=0))
        st['e'] = ce
        st['m' if mapped else 'u'] += 1
    rows = []
    for rid in range(maxrid + 1):
        st = per.get(rid)
        rows.append([True, st['b'], st['e'], st['m'], st['u']] if st else [False, 0, 0, 0, 0])
    return dict(nrefs=maxrid + 1, stats=rows, unm=[any_rec, unplaced] if any_rec else [False, 0])
