"""C05: BAM encoding round trip (bam.Writer -> bam.Reader), bytes against an
independent encoder written from SAMv1 section 4.2, Omit modes."""
import json
import struct

import core
from core import cz, cb


def periodic_run(xs, P, minlen):
    """(a, b): the longest stretch xs[a:b] that has period P, if at least minlen long."""
    best, a = (0, 0), None
    n = len(xs)
    for i in range(n - P + 1):
        if i + P < n and xs[i] == xs[i + P]:
            if a is None:
                a = i
        else:
            if a is not None and i + P - a > best[1] - best[0]:
                best = (a, i + P)
            a = None
    if best[1] - best[0] >= minlen:
        return best
    return None


def cperiodic(xs, P, lit):
    """prefix ++ concat (repeat block k) ++ suffix for a list with a long periodic stretch (many CIGAR operations);
    lit renders a short list. None when there is no such stretch."""
    if len(xs) < 64 * P:
        return None
    r = periodic_run(xs, P, 32 * P)
    if not r:
        return None
    a, b = r
    k = (b - a) // P
    return '(%s ++ concat (repeat %s %d%%nat) ++ %s)' % (lit(xs[:a]), lit(xs[a:a + P]), k, lit(xs[a + k * P:]))


def cbytes(xs):
    """Byte string as concat [l16 x.. ...; ...; [rest]] (see coq/Model/BamBytes.v)."""
    xs = list(xs)
    if len(xs) >= 8192 and all(0 <= x < 256 for x in xs):
        c = cperiodic(xs, 32, cbytes)
        if c:
            return c
    if len(xs) < 16 or any(not (0 <= x < 256) for x in xs):
        return clist(xs)
    parts = ['l16 ' + ' '.join('x%02x' % x for x in xs[i:i + 16]) for i in range(0, len(xs) - 15, 16)]
    rest = xs[len(xs) // 16 * 16:]
    groups = []
    for i in range(0, len(parts), 200):
        groups.append('(concat [' + '; '.join(parts[i:i + 200]) + '])')
    if rest:
        groups.append('[' + '; '.join('x%02x' % x for x in rest) + ']')
    return '(' + ' ++ '.join(groups) + ')'


def clist(xs, f=cz):
    """Coq list literal; long lists are written as chunks joined by ++ (a long [a; b; ...] overflows coqc's parser stack)."""
    xs = list(xs)
    if len(xs) <= 1500:
        return '[' + '; '.join(f(x) for x in xs) + ']'
    return '(' + ' ++ '.join('[' + '; '.join(f(x) for x in xs[i:i + 1000]) + ']' for i in range(0, len(xs), 1000)) + ')'

PROPS = 'Props/C05.v'
HEADER = ('From Hts Require Import Base.Prim Generated Model.BamCodec Model.BamSpec Model.BamRun Model.BamBytes.\n'
          'Open Scope Z_scope.')

BASES = '=ACMGRSVTWYHKDBN'
FIXED = {'A': 1, 'c': 1, 'C': 1, 's': 2, 'S': 2, 'i': 4, 'I': 4, 'f': 4}
SIGNED = {'c': True, 's': True, 'i': True, 'C': False, 'S': False, 'I': False, 'f': False, 'A': False}
PACK = {1: 'b', 2: 'h', 4: 'i'}
BUF = 4096          # size of bam.Reader.buf, the shared/private decision
BLOCK = 65280       # bgzf.BlockSize


# ---------------------------------------------------------------------------
# Independent encoder / decoder written from the SAM specification (oracle).
# Works on typed values: cigar as (len, op) pairs, bases as characters, aux as
# (tag, type, value).  Nothing here is derived from the library.

def le(v, w, signed=False):
    return list(int(v).to_bytes(w, 'little', signed=signed))


def spec_aux(a):
    t = a['t']
    out = [ord(a['tag'][0]), ord(a['tag'][1]), ord(t)]
    if t in FIXED:
        w = FIXED[t]
        return out + le(a['v'], w, SIGNED[t])
    if t == 'Z':
        return out + list(a['l']) + [0]
    if t == 'H':
        # the hex digits are the text of the field
        return out + list(a['l']) + [0]
    if t == 'B':
        s = a['sub']
        w = FIXED[s]
        out += [ord(s)] + le(len(a['l']), 4)
        for x in a['l']:
            out += le(x, w, SIGNED[s])
        return out
    raise ValueError(t)


def spec_pack(bases):
    codes = [BASES.index(chr(b).upper()) if chr(b).upper() in BASES else 15 for b in bases]   # case-insensitive, anything else is N
    out = []
    for i in range(0, len(codes), 2):
        hi = codes[i]
        lo = codes[i + 1] if i + 1 < len(codes) else 0
        out.append(hi << 4 | lo)
    return out


def spec_record(r):
    """Bytes of one alignment record, block_size included, bin = 0."""
    name = list(r['name'])
    lseq = r['L']
    body = []
    body += le(r['ref'], 4, True) + le(r['pos'], 4, True)
    body += [len(name) + 1, r['mapq']] + [0, 0]
    body += le(len(r['cigar']), 2) + le(r['flags'], 2) + le(lseq, 4)
    body += le(r['mref'], 4, True) + le(r['mpos'], 4, True) + le(r['tlen'], 4, True)
    body += name + [0]
    for ln, op in r['cigar']:
        body += le(ln << 4 | op, 4)
    body += list(r['packed'])
    body += list(r['qual']) if r['qual'] is not None else [0xff] * lseq
    for a in r['aux']:
        body += spec_aux(a)
    return le(len(body), 4) + body


def spec_header(text, refs):
    out = [66, 65, 77, 1] + le(len(text), 4) + list(text) + le(len(refs), 4)
    for n, l in refs:
        nb = list(n.encode())
        out += le(len(nb) + 1, 4) + nb + [0] + le(l, 4, True)
    return out


class Malformed(Exception):
    pass


def spec_parse_aux(b):
    """Typed aux values of the aux block of a record."""
    out = []
    i = 0
    while i < len(b):
        if i + 3 > len(b):
            raise Malformed('aux header')
        tag = chr(b[i]) + chr(b[i + 1])
        t = chr(b[i + 2])
        i += 3
        if t in FIXED:
            w = FIXED[t]
            if i + w > len(b):
                raise Malformed('aux value')
            out.append(dict(tag=tag, t=t, v=int.from_bytes(bytes(b[i:i + w]), 'little', signed=SIGNED[t])))
            i += w
        elif t in 'ZH':
            try:
                j = b.index(0, i)
            except ValueError:
                raise Malformed('aux string')
            out.append(dict(tag=tag, t=t, l=list(b[i:j])))
            i = j + 1
        elif t == 'B':
            if i + 5 > len(b):
                raise Malformed('aux array header')
            s = chr(b[i])
            n = int.from_bytes(bytes(b[i + 1:i + 5]), 'little')
            i += 5
            if s not in FIXED or s == 'A':
                raise Malformed('aux array subtype')
            w = FIXED[s]
            if i + n * w > len(b):
                raise Malformed('aux array')
            out.append(dict(tag=tag, t='B', sub=s,
                            l=[int.from_bytes(bytes(b[i + k * w:i + (k + 1) * w]), 'little', signed=SIGNED[s]) for k in range(n)]))
            i += n * w
        else:
            raise Malformed('aux type')
    return out


def spec_parse_stream(raw):
    """(text, refs, [record dict]) of an uncompressed BAM stream."""
    def i32(o):
        return int.from_bytes(bytes(raw[o:o + 4]), 'little', signed=True)
    if raw[:4] != [66, 65, 77, 1]:
        raise Malformed('magic')
    lt = i32(4)
    o = 8
    text = raw[o:o + lt]
    o += lt
    nref = i32(o)
    o += 4
    refs = []
    for _ in range(nref):
        ln = i32(o)
        o += 4
        nm = raw[o:o + ln]
        o += ln
        if not nm or nm[-1] != 0:
            raise Malformed('ref name')
        refs.append((bytes(nm[:-1]).decode('latin1'), i32(o)))
        o += 4
    recs = []
    while o < len(raw):
        if o + 4 > len(raw):
            raise Malformed('block size')
        bs = i32(o)
        o += 4
        if bs < 32 or o + bs > len(raw):
            raise Malformed('block')
        b = raw[o:o + bs]
        o += bs
        ref, pos = struct.unpack('<ii', bytes(b[0:8]))
        lname, mapq = b[8], b[9]
        binv, ncig, flags = struct.unpack('<HHH', bytes(b[10:16]))
        lseq, mref, mpos, tlen = struct.unpack('<iiii', bytes(b[16:32]))
        p = 32
        name = b[p:p + lname]
        p += lname
        if lname < 1 or not name or name[-1] != 0:
            raise Malformed('name')
        cig = []
        for _ in range(ncig):
            v = int.from_bytes(bytes(b[p:p + 4]), 'little')
            cig.append((v >> 4, v & 15))
            p += 4
        packed = b[p:p + (lseq + 1) // 2]
        p += (lseq + 1) // 2
        qual = b[p:p + lseq]
        p += lseq
        if p > len(b):
            raise Malformed('variable part')
        recs.append(dict(name=name[:-1], ref=ref, pos=pos, mapq=mapq, bin=binv, cigar=cig, flags=flags, L=lseq,
                         mref=mref, mpos=mpos, tlen=tlen, packed=packed, qual=qual, aux=spec_parse_aux(b[p:]),
                         bytes=b))
    return text, refs, recs


def mask_bin(b):
    b = list(b)
    b[14:16] = [0, 0]
    return b


# ---------------------------------------------------------------------------
# Generators (typed values; the harness builds sam.Record from them).

def rand_tag(rng):
    a = rng.choice('ABCDEFGHIJKLMNOPQRSTUVWXYZabcdefghijklmnopqrstuvwxyz')
    b = rng.choice('ABCDEFGHIJKLMNOPQRSTUVWXYZabcdefghijklmnopqrstuvwxyz0123456789')
    return a + b


def edge_int(rng, w, signed):
    bits = 8 * w
    lo, hi = (-(1 << (bits - 1)), (1 << (bits - 1)) - 1) if signed else (0, (1 << bits) - 1)
    c = rng.random()
    if c < 0.35:
        return rng.choice([lo, hi, 0, 1, hi - 1, lo + 1, -1 if signed else hi // 2, 0x80 % (hi + 1), 0xff % (hi + 1), 256 % (hi + 1)])
    return rng.randint(lo, hi)


def gen_aux(rng, t=None, big=False):
    t = t or rng.choice(['A', 'c', 'C', 's', 'S', 'i', 'I', 'f', 'Z', 'H', 'B', 'B', 'B', 'Z'])
    tag = rand_tag(rng)
    if t == 'A':
        return dict(tag=tag, t=t, v=rng.randint(33, 126))
    if t == 'f':
        return dict(tag=tag, t=t, v=rng.choice([0, 0x3f800000, 0x7fc00000, 0xff800000, 0x80000000, 1, rng.getrandbits(32)]))
    if t in FIXED:
        return dict(tag=tag, t=t, v=edge_int(rng, FIXED[t], SIGNED[t]))
    if t == 'Z':
        n = rng.choice([0, 0, 1, 2, 5, 17, 40]) if not big else rng.randint(100, 900)
        return dict(tag=tag, t=t, l=[rng.randint(1, 255) if rng.random() < 0.2 else rng.randint(32, 126) for _ in range(n)])
    if t == 'H':
        n = rng.choice([0, 1, 2, 4, 9])
        # the in-memory form of a record read from a BAM file: the hex digits themselves
        return dict(tag=tag, t=t, l=[ord(rng.choice('0123456789ABCDEF')) for _ in range(2 * n)], via='raw')
    s = rng.choice(['c', 'C', 's', 'S', 'i', 'I', 'f'])
    n = rng.choice([0, 0, 1, 2, 3, 7, 16]) if not big else rng.randint(50, 400)
    if s == 'f':
        vals = [rng.getrandbits(32) for _ in range(n)]
    else:
        vals = [edge_int(rng, FIXED[s], SIGNED[s]) for _ in range(n)]
    return dict(tag=tag, t='B', sub=s, l=vals)


CIGAR_TYPES = list(range(10)) * 3 + list(range(10, 16))   # undefined types 10..15 are carried through as well


def gen_cigar(rng, n):
    out = []
    for _ in range(n):
        ln = rng.choice([0, 1, 2, 15, 16, 255, 256, (1 << 28) - 1, rng.randint(0, (1 << 28) - 1), rng.randint(1, 200)])
        out.append((ln, rng.choice(CIGAR_TYPES)))
    return out


def gen_record(rng, nrefs, L=None, naux=None, ncig=None, name_len=None, small_pos=False):
    if L is None:
        L = rng.choice([0, 0, 1, 2, 3, 4, 5, 7, 8, 16, 31, 32, 33, rng.randint(0, 120)])
    bases = [ord(rng.choice(BASES)) for _ in range(L)]
    if L and rng.random() < 0.15:
        # lower case and characters outside the alphabet: NewSeq maps them through n16Table
        bases = [rng.choice([ord('a'), ord('c'), ord('g'), ord('t'), ord('n'), ord('x'), ord('.'), b]) for b in bases]
    if name_len is None:
        name_len = rng.choice([1, 1, 2, 10, 20, 37, 253, 254]) if rng.random() < 0.3 else rng.randint(1, 40)
    name = [rng.randint(33, 126) if rng.random() < 0.9 else rng.choice([1, 9, 32, 127, 128, 255]) for _ in range(name_len)]
    qual = None
    if rng.random() < 0.7:
        qual = [rng.choice([0, 1, 40, 93, 254, 255, rng.randint(0, 255)]) for _ in range(L)]
    ref = rng.randint(-1, nrefs - 1)
    mref = rng.choice([ref, -1, rng.randint(-1, nrefs - 1)])

    def pos():
        if small_pos or rng.random() < 0.6:
            return rng.choice([-1, 0, 1, rng.randint(0, 1 << 20), (1 << 29) - 2])
        return rng.choice([-(1 << 31), (1 << 31) - 1, rng.randint(-(1 << 31), (1 << 31) - 1), 1 << 29, (1 << 29) - 1])
    if ncig is None:
        ncig = rng.choice([0, 0, 1, 1, 2, 3, 5, 12])
    if naux is None:
        naux = rng.choice([0, 0, 1, 2, 3, 5, 8])
    r = dict(name=name, ref=ref, pos=pos(), mapq=rng.choice([0, 1, 60, 254, 255, rng.randint(0, 255)]),
             cigar=gen_cigar(rng, ncig), flags=rng.choice([0, 4, 8, 12, 16, 0xffff, 0x8000, rng.getrandbits(16)]),
             mref=mref, mpos=pos(), tlen=rng.choice([0, 1, -1, -(1 << 31), (1 << 31) - 1, rng.randint(-(1 << 31), (1 << 31) - 1)]),
             L=L, bases=bases, qual=qual, aux=[gen_aux(rng) for _ in range(naux)])
    r['packed'] = spec_pack(bases)
    if L and rng.random() < 0.08:
        # raw doublets with a non-zero pad nybble: carried through unchanged
        d = [rng.getrandbits(8) for _ in range((L + 1) // 2)]
        r['dbl'] = d
        r['packed'] = d
    return r


def rec_size(r):
    return len(spec_record(r)) - 4


def pad_to(rng, r, target):
    """Grow/shrink a Z aux so that the block size is exactly target."""
    r['aux'] = [a for a in r['aux'] if a.get('pad') is None]
    base = rec_size(r)
    need = target - base - 4
    if need < 0:
        return False
    r['aux'].append(dict(tag='zz', t='Z', l=[rng.randint(33, 126) for _ in range(need)], pad=True))
    assert rec_size(r) == target
    return True


def harness_rec(r):
    aux = []
    for a in r['aux']:
        d = dict(tag=a['tag'], t=a['t'])
        if 'sub' in a:
            d['sub'] = a['sub']
        if 'v' in a:
            d['v'] = a['v']
        if 'l' in a:
            d['l'] = a['l']
        if 'via' in a:
            d['via'] = a['via']
        aux.append(d)
    h = dict(name=r['name'], ref=r['ref'], pos=r['pos'], mapq=r['mapq'], cigar=[ln << 4 | op for ln, op in r['cigar']],
             flags=r['flags'], mref=r['mref'], mpos=r['mpos'], tlen=r['tlen'], aux=aux)
    if 'dbl' in r:
        h['dbl'] = r['dbl']
        h['lseq'] = r['L']
    else:
        h['bases'] = r['bases']
    if r['qual'] is None:
        h['noq'] = True
    else:
        h['qual'] = r['qual']
    if r.get('newrecord'):
        h['newrecord'] = True
    return h


READS = [[(1, 0), (2, 1), (4, 2)], [(2, 0), (1, 2), (1, 1)], [(4, 0), (1, 1)], [(1, 0), (3, 2)]]


def rt_case(rng, recs, refs, text='', k=0, flush=None, level=None, wc=None, reads=None, fam='mix'):
    return dict(op='rt', text=text, refs=[dict(name=n, len=l) for n, l in refs], recs=[harness_rec(r) for r in recs],
                wc=wc or rng.choice([[1], [1, 2], [2, 4], [1, 3]]), level=level if level is not None else rng.choice([-1, 0, 1, 6]),
                flush=flush, reads=[list(x) for x in (reads or READS[k % len(READS)])],
                _recs=recs, _refs=refs, _fam=fam)


def gen_refs(rng, n):
    return [('chr%d%s' % (i, rng.choice(['', '_x', '.1'])), rng.choice([1, 1000, (1 << 29) - 1, (1 << 31) - 1, rng.randint(1, 1 << 28)])) for i in range(n)]


def gen_cases(rng, tier):
    quick = tier == 'quick'
    cases = []
    # 1. mixed small records
    for k in range(60 if quick else 900):
        nrefs = rng.choice([0, 1, 2, 3, 5])
        refs = gen_refs(rng, nrefs)
        recs = [gen_record(rng, nrefs) for _ in range(rng.choice([1, 1, 2, 3, 6]))]
        text = rng.choice(['', '', '@HD\tVN:1.5\tSO:unsorted\n', '@HD\tVN:1.6\tSO:coordinate\n@CO\tc05 filler\n'])
        flush = None
        if rng.random() < 0.3:
            flush = [i for i in range(len(recs)) if rng.random() < 0.5]
        cases.append(rt_case(rng, recs, refs, text, k, flush))
    # 2. every aux type alone and in pairs (incl. zero-length arrays/strings)
    for t in ['A', 'c', 'C', 's', 'S', 'i', 'I', 'f', 'Z', 'H', 'B']:
        for rep in range(2 if quick else 12):
            r = gen_record(rng, 1, naux=0)
            r['aux'] = [gen_aux(rng, t), gen_aux(rng), gen_aux(rng, t)]
            cases.append(rt_case(rng, [r], gen_refs(rng, 1), k=rep, fam='aux-' + t))
    for s in ['c', 'C', 's', 'S', 'i', 'I', 'f']:
        r = gen_record(rng, 1, naux=0)
        r['aux'] = [dict(tag='b0', t='B', sub=s, l=[]), dict(tag='b1', t='B', sub=s, l=[edge_int(rng, FIXED[s], SIGNED[s]) if s != 'f' else 0x7f800000]),
                    dict(tag='z0', t='Z', l=[]), dict(tag='h0', t='H', l=[], via='raw')]
        cases.append(rt_case(rng, [r], gen_refs(rng, 1), fam='aux-empty'))
    # 3. block sizes around the 4 KiB buffer, mixed with small records (shared after private and back)
    for target in [BUF - 1, BUF, BUF + 1] + ([] if quick else [BUF + 2, BUF - 2, BUF - 3, BUF + 3, 2 * BUF, 2 * BUF + 1]):
        for variant in ([target % 2] if quick else [0, 1]):
            r = gen_record(rng, 2, L=rng.choice([0, 1, 50, 51]), naux=rng.choice([0, 2]))
            assert pad_to(rng, r, target)
            small = [gen_record(rng, 2) for _ in range(3)]
            recs = [small[0], r, small[1], small[2]] if variant == 0 else [r, small[0], r, small[1]]
            cases.append(rt_case(rng, recs, gen_refs(rng, 2), k=variant, fam='size-%d' % (target - BUF)))
    # large sequence (seq+qual decide the size), sizes around the buffer again through the sequence
    for L in [2730, 2731] if quick else [2727, 2728, 2729, 2730, 2731, 2732, 2733]:
        r = gen_record(rng, 1, L=L, naux=1, ncig=1, name_len=5)
        cases.append(rt_case(rng, [gen_record(rng, 1), r, gen_record(rng, 1)], gen_refs(rng, 1), fam='size-seq'))
    # runs of records above the 4 KiB inline buffer (each gets its own block; nothing of an earlier record may
    # change when a later one is read): decreasing, equal, increasing sizes, long seq/qual/aux, small ones between
    def long_rec(size, kind):
        if kind == 'seq':
            r = gen_record(rng, 2, L=rng.randint(2000, 2300), naux=1, ncig=2, name_len=8)
            r['qual'] = [rng.randrange(256) for _ in range(r['L'])]
        else:
            r = gen_record(rng, 2, L=rng.choice([0, 31, 200]), naux=0, ncig=1, name_len=8)
            r['aux'] = [gen_aux(rng, 'B', big=True), gen_aux(rng, 'Z', big=True), gen_aux(rng, 'i')]
        assert pad_to(rng, r, size)
        return r
    runs = [[4700, 4400, 4200], [4400, 4400], [4200, 4400, 4700], [4097, 4097, 4097], [6000, 4200, 5000, 4100]]
    for k, sizes in enumerate(runs if quick else runs * 4):
        recs = [long_rec(sz, 'seq' if (k + i) % 2 else 'aux') for i, sz in enumerate(sizes)]
        if k % 2:
            recs.insert(1, gen_record(rng, 2))
        cases.append(rt_case(rng, recs, gen_refs(rng, 2), wc=[1, 2], reads=[(1, 0), (2, 0), (1, 1), (2, 1), (2, 2)], fam='long-run'))
        if quick and k >= 2:
            cases[-1]['_nocoq'] = True   # judged by the oracle; the model is run on the first two in the quick tier
    # 4. above one BGZF block; many records straddling block boundaries; many CIGAR operations; large header
    big = gen_record(rng, 1, L=(44001 if quick else 90001), naux=2, ncig=2)
    cases.append(rt_case(rng, [gen_record(rng, 1), big, gen_record(rng, 1)], gen_refs(rng, 1), wc=[1, 4], reads=[(1, 0), (2, 2), (3, 1)], fam='big-record'))
    many = [gen_record(rng, 2, L=rng.randint(20, 60), naux=rng.choice([0, 1, 2]), small_pos=True) for _ in range(700 if quick else 3000)]
    cases.append(rt_case(rng, many, gen_refs(rng, 2), wc=[2, 1], reads=[(1, 0), (4, 1)], fam='many-records'))
    # many CIGAR operations: n_cigar_op is a uint16, the CIGAR block 4*n bytes (16384 ops = 2^16 bytes); the
    # operations repeat a pattern of 8 so that the Coq terms can be written with repeat
    for n in [16383, 16384, 16385, 32768, 40000, 65535] + ([] if quick else [5000, 65534, 49152]):
        cg = gen_record(rng, 1, L=rng.choice([9, 10]), naux=rng.choice([1, 2]), ncig=0)
        pat = gen_cigar(rng, 8)
        cg['cigar'] = (pat * (n // 8 + 1))[:n]
        cases.append(rt_case(rng, [gen_record(rng, 1, L=5), cg, gen_record(rng, 1, L=4)], gen_refs(rng, 1), wc=[1, 2], level=rng.choice([0, 1]),
                             reads=[(1, 0), (2, 1), (1, 2)], fam='cigar-%d' % n))
    text = '@HD\tVN:1.5\tSO:unsorted\n' + ''.join('@CO\t%s\n' % ''.join(rng.choice('abcdefgh ') for _ in range(90)) for _ in range(760 if quick else 2000))
    cases.append(rt_case(rng, [gen_record(rng, 3) for _ in range(3)], gen_refs(rng, 3), text=text, wc=[1, 2], fam='big-header'))
    cases.append(rt_case(rng, [], gen_refs(rng, 2), fam='no-records'))
    cases.append(rt_case(rng, [], [], fam='no-records'))
    # records built through sam.NewRecord (validated constructor)
    for k in range(8 if quick else 60):
        r = gen_record(rng, 2, L=rng.randint(1, 40), small_pos=True)
        r.pop('dbl', None)
        r['packed'] = spec_pack(r['bases'])
        r['tlen'] = rng.randint(-1000, 1000)
        if r['ref'] < 0:
            r['pos'] = -1
        elif r['pos'] < -1:
            r['pos'] = 0
        if r['mref'] < 0:
            r['mpos'] = -1
        r['newrecord'] = True
        cases.append(rt_case(rng, [r], gen_refs(rng, 2), k=k, fam='newrecord'))
    # 5. records Write must refuse (name absent / too long, quality length mismatch) among good ones
    for k in range(4 if quick else 20):
        good = [gen_record(rng, 1) for _ in range(2)]
        bad = gen_record(rng, 1, L=4)
        c = k % 4
        if c == 0:
            bad['name'] = []
        elif c == 1:
            bad['name'] = [65] * 255
        elif c == 2:
            bad['qual'] = [30] * 3
        else:
            bad['qual'] = [30] * 5
        bad['_refuse'] = True
        cases.append(rt_case(rng, [good[0], bad, good[1]], gen_refs(rng, 1), k=k, fam='refused'))
    # 6. H built through sam.NewAux(tag, sam.Hex(bytes)): the value bytes, whose BAM form is their hex text
    for k in range(2 if quick else 8):
        r = gen_record(rng, 1, naux=1)
        val = [rng.randint(1, 255) for _ in range(rng.randint(1, 6))]
        r['aux'].append(dict(tag='hx', t='H', l=val, via='newaux', hexval=True))
        cases.append(rt_case(rng, [r], gen_refs(rng, 1), k=k, fam='hex-newaux'))
    # 7. nybble packing
    for k in range(30 if quick else 300):
        n = rng.choice([0, 1, 2, 3, 4, 5, 15, 16, 17, rng.randint(0, 64)])
        if k == 0:
            s = list(range(256))
        elif k == 1:
            s = list(range(255))
        elif rng.random() < 0.5:
            s = [ord(rng.choice(BASES)) for _ in range(n)]
        else:
            s = [rng.randrange(256) for _ in range(n)]
        cases.append(dict(op='seq', s=s, _fam='seq'))
    # 8. single records given as bytes, some malformed (decoder side of the model)
    for k in range(50 if quick else 700):
        nrefs = rng.choice([0, 1, 3])
        r = gen_record(rng, nrefs, naux=rng.choice([0, 1, 2, 3]), small_pos=True)
        data = spec_record(r)[4:]
        what = 'valid'
        c = rng.random()
        if c < 0.15:
            pass
        elif c < 0.3:
            cut = rng.randint(0, len(data))
            data = data[:cut]
            what = 'truncated'
        elif c < 0.45:
            i = rng.choice([0, 1, 2, 3, 24, 25, 26, 27])   # refID / next refID
            data[i] = rng.choice([0, 1, 2, 3, 0xff, 0xfe, 0x80])
            what = 'refid'
        elif c < 0.55:
            data[8] = rng.choice([0, 1, 2, 255, data[8] + 1 & 255])   # l_read_name
            what = 'nlen'
        elif c < 0.65:
            i = rng.choice([16, 17, 18, 19])
            data[i] = rng.choice([0, 1, 0xff, 0x80])   # l_seq
            what = 'lseq'
        elif c < 0.75:
            data[12] = rng.choice([0, 1, 2, 200])   # n_cigar_op
            what = 'ncigar'
        elif c < 0.85 and r['aux']:
            # unknown aux type or a missing terminator at the very end
            if r['aux'][-1]['t'] in 'ZH' and rng.random() < 0.6:
                data = data[:-1]
                what = 'aux-nonul'
            else:
                tail = sum(len(spec_aux(a)) for a in r['aux'])
                data[len(data) - tail + 2] = rng.choice([ord('x'), ord('a'), 0, 255, ord('z')])
                what = 'aux-type'
        else:
            data = data + [rng.randrange(256) for _ in range(rng.choice([1, 2]))]   # 1-2 trailing bytes are ignored by parseAux
            what = 'trailing'
        cases.append(dict(op='dec', nrefs=nrefs, omit=rng.choice([0, 0, 1, 2]), data=data, _fam='dec-' + what))
    # inputs that used to panic, loop or be returned with missing data (repaired in bam/reader.go): now errors
    base = gen_record(rng, 0, L=3, naux=0, ncig=1, small_pos=True)
    body = spec_record(base)[4:]
    for k, (tail, what) in enumerate([([88, 89, 105, 1, 2], 'cut-fixed'), ([88, 89, 66, 90, 8, 0, 0, 0], 'array-of-Z'),
                                      ([88, 89, 66, 115, 255, 255, 255, 255], 'array-overlong'), ([88, 89, 66, 99, 1], 'array-header-cut'),
                                      ([88, 0, 90, 97, 0], 'nul-in-tag'), ([0, 0, 72, 0, 88, 89, 67, 7], 'nul-tag-empty-H'),
                                      ([88, 89, 90, 97], 'no-nul')]):
        cases.append(dict(op='dec', nrefs=0, omit=0, data=body + tail, _fam='dec-' + what))
    for cut in (31, 33, len(body) - 1, len(body) - 2):
        cases.append(dict(op='dec', nrefs=0, omit=rng.choice([0, 1, 2]), data=body[:cut], _fam='dec-truncated'))
    return cases


# ---------------------------------------------------------------------------
# Expected in-memory views

def expected_view(r, omit):
    """Fields of the record as Read must return them (canon + omit)."""
    v = dict(name=list(r['name']), ref=r['ref'], pos=r['pos'], mapq=r['mapq'], cigar=[ln << 4 | op for ln, op in r['cigar']],
             flags=r['flags'], mref=r['mref'], mpos=r['mpos'], tlen=r['tlen'])
    if omit >= 2:
        v.update(lseq=0, dbl=[], qual=None, aux=[])
    else:
        v.update(lseq=r['L'], dbl=list(r['packed']), qual=list(r['qual']) if r['qual'] is not None else [0xff] * r['L'])
        v['aux'] = [] if omit >= 1 else [typed(a) for a in r['aux']]
    return v


def typed(a):
    d = dict(tag=a['tag'], t=a['t'])
    if 'v' in a:
        d['v'] = a['v']
    if 'l' in a:
        d['l'] = list(a['l'])
    if 'sub' in a:
        d['sub'] = a['sub']
    return d


def view_of_obs(o):
    v = {k: o[k] for k in ('name', 'ref', 'pos', 'mapq', 'cigar', 'flags', 'mref', 'mpos', 'tlen', 'lseq')}
    v['dbl'] = o['dbl'] or []
    v['qual'] = o['qual']
    vals = []
    for x in o['vals'] or []:
        d = {k: x[k] for k in ('tag', 't', 'v', 'l', 'sub') if k in x}
        if d.get('t') == 'B' and 'l' in d and d['l'] is None:
            d['l'] = []
        if d.get('t') in ('Z', 'H') and d.get('l') is None:
            d['l'] = []
        if d.get('t') == 'A' or d.get('t') in FIXED:
            d.pop('l', None)
        vals.append(d)
    v['aux'] = vals
    return v


def aux_mem_bytes(a):
    b = spec_aux(a)
    return b[:-1] if a['t'] in 'ZH' else b


def nan_canon(a):
    """Aux.Value() goes through float64 for B:f arrays, which quiets signalling NaNs; any NaN is a NaN
    (the aux bytes themselves are compared exactly elsewhere)."""
    def cn(x):
        return 'nan' if (x & 0x7f800000) == 0x7f800000 and (x & 0x7fffff) else x
    if a.get('t') == 'f':
        return dict(a, v=cn(a['v']))
    if a.get('t') == 'B' and a.get('sub') == 'f':
        return dict(a, l=[cn(x) for x in a['l']])
    return a


def diff_view(exp, got):
    for k in ('name', 'ref', 'pos', 'mapq', 'cigar', 'flags', 'mref', 'mpos', 'tlen', 'lseq', 'dbl', 'qual'):
        e, g = exp[k], got[k]
        if k == 'qual' and e == [] and g in ([], None):
            continue
        if e != g:
            return k
    if len(exp['aux']) != len(got['aux']):
        return 'aux-count'
    for e, g in zip(exp['aux'], got['aux']):
        if nan_canon(e) != nan_canon(g):
            return 'aux-' + e['t']
    return None


def size_class(n):
    if n < BUF - 2:
        return '<4K'
    if n <= BUF + 2:
        return '~4K'
    if n <= BLOCK:
        return '4K..64K'
    return '>64K'


# ---------------------------------------------------------------------------
# Oracle

def oracle_rt(c, o):
    """List of (sig, what) for one round-trip case."""
    fam = c['_fam']
    out = []
    if 'panic' in o:
        return [('rt:%s:panic' % fam, 'panic: ' + o['panic'])]
    if 'hang' in o:
        return [('rt:%s:hang' % fam, 'call did not return')]
    for k in ('write_err', 'inflate_err'):
        if k in o:
            return [('rt:%s:%s' % (fam, k), o[k])]
    recs = c['_recs']
    refused = o.get('refused') or [''] * len(recs)
    for i, (r, e) in enumerate(zip(recs, refused)):
        if bool(e) != bool(r.get('_refuse')):
            out.append(('rt:%s:refusal' % fam, 'record %d: Write returned %r, expected %s' % (i, e, 'an error' if r.get('_refuse') else 'success')))
    acc = [r for r in recs if not r.get('_refuse')]
    if not o.get('raw_same', True):
        out.append(('rt:%s:wc-dependent-bytes' % fam, 'uncompressed stream differs between write configurations (wc=%s)' % o.get('raw_other_wc')))
    raw = o['raw']
    text = list(o['text'].encode())
    want_hdr = spec_header(text, c['_refs'])
    if raw[:len(want_hdr)] != want_hdr:
        out.append(('rt:%s:header-bytes' % fam, 'binary header differs from the specification layout'))
        return out
    # bytes of each record against the specification encoder
    try:
        ptext, prefs, precs = spec_parse_stream(raw)
    except (Malformed, struct.error, IndexError) as e:
        out.append(('rt:%s:stream-malformed' % fam, 'written stream is not a BAM stream by the specification: %s' % e))
        precs = None
    hexfam = any(a.get('hexval') for r in acc for a in r['aux'])
    if precs is not None:
        if len(precs) != len(acc):
            out.append(('rt:%s:record-count' % fam, '%d records in the written stream, %d written' % (len(precs), len(acc))))
        for i, (r, p) in enumerate(zip(acc, precs)):
            want = spec_record(hexed(r))
            got = le(len(p['bytes']), 4) + list(p['bytes'])
            if mask_bin(want) != mask_bin(got):
                j = next((k for k in range(min(len(want), len(got))) if mask_bin(want)[k] != mask_bin(got)[k]), min(len(want), len(got)))
                out.append(('rt:%s:bytes:%s' % (fam, field_at(r, j)), 'record %d: byte %d of the written record differs from the specification encoder (%s)' % (i, j, field_at(r, j))))
    # records read back
    for rd in o.get('reads') or []:
        omit = rd['omit']
        cfg = 'omit%d' % omit
        if 'open_err' in rd:
            out.append(('rt:%s:%s:open' % (fam, cfg), rd['open_err']))
            continue
        if rd.get('end') != 'EOF':
            out.append(('rt:%s:%s:end' % (fam, cfg), 'stream ended with %s instead of io.EOF (rd=%d)' % (rd.get('end'), rd['rd'])))
        if [[x['name'], x['len']] for x in rd.get('refs') or []] != [list(x) for x in c['_refs']]:
            out.append(('rt:%s:%s:header-refs' % (fam, cfg), 'references read back differ'))
        if rd.get('text') != o['text']:
            out.append(('rt:%s:%s:header-text' % (fam, cfg), 'header text read back differs'))
        got = rd.get('recs') or []
        if len(got) != len(acc):
            out.append(('rt:%s:%s:count' % (fam, cfg), '%d records read, %d written (rd=%d)' % (len(got), len(acc), rd['rd'])))
        for i, (r, g) in enumerate(zip(acc, got)):
            d = diff_view(expected_view(hexed(r), omit), view_of_obs(g))
            if d:
                out.append(('rt:%s:%s:field:%s' % (fam, cfg, d), 'record %d read back with rd=%d Omit(%d): field %s differs' % (i, rd['rd'], omit, d)))
                break
            if omit == 0 and [list(x) for x in g['aux']] != [aux_mem_bytes(a) for a in hexed(r)['aux']]:
                out.append(('rt:%s:%s:field:aux-bytes' % (fam, cfg), 'record %d: aux bytes differ' % i))
                break
    if hexfam:
        out = [(s.replace('rt:hex-newaux:', 'rt:hex-newaux:H-value:'), w) for s, w in out]
    return out


def hexed(r):
    """The record with H values given as value bytes replaced by their hex text (what BAM stores)."""
    if not any(a.get('hexval') for a in r['aux']):
        return r
    r2 = dict(r)
    r2['aux'] = [dict(a, l=[ord(ch) for b in a['l'] for ch in '%02X' % b]) if a.get('hexval') else a for a in r['aux']]
    return r2


def field_at(r, j):
    if j < 4:
        return 'block_size'
    names = [(8, 'refID'), (12, 'pos'), (13, 'l_read_name'), (14, 'mapq'), (16, 'bin'), (18, 'n_cigar_op'), (20, 'flag'),
             (24, 'l_seq'), (28, 'next_refID'), (32, 'next_pos'), (36, 'tlen')]
    for end, n in names:
        if j < end:
            return n
    p = 36 + len(r['name']) + 1
    if j < p:
        return 'read_name'
    p += 4 * len(r['cigar'])
    if j < p:
        return 'cigar'
    p += (r['L'] + 1) // 2
    if j < p:
        return 'seq'
    p += r['L']
    if j < p:
        return 'qual'
    return 'aux'


def oracle_seq(c, o):
    s = c['s']
    if 'panic' in o:
        return [('seq:panic', o['panic'])]
    want = spec_pack(s)
    if not all(chr(b).upper() in BASES for b in s):
        # outside the alphabet the library follows htslib's table ('0123' are ACGT) rather than "anything else is N";
        # such sequences are outside the property's quantifier: only length and Expand consistency are judged
        want = o['dbl']
        if len(want) != (len(s) + 1) // 2:
            return [('seq:pack-length', 'NewSeq: %d doublets for %d bases' % (len(want), len(s)))]
    if o['len'] != len(s) or o['dbl'] != want:
        return [('seq:pack', 'NewSeq(%s) = %s/%s, specification packing %s' % (s[:20], o['len'], o['dbl'][:12], want[:12]))]
    exp2 = [ord(BASES[(want[i // 2] >> 4) if i % 2 == 0 else (want[i // 2] & 15)]) for i in range(len(s))]
    if o['exp'] != exp2:
        return [('seq:expand', 'Expand() = %s, expected %s' % (o['exp'][:20], exp2[:20]))]
    return []


def spec_decode_record(data, nrefs, omit):
    """What a reader may return for one block: ('rec', view) for a well formed record, else None (not judged)."""
    try:
        raw = spec_header([], [('r%d' % i, 1000 + i) for i in range(nrefs)]) + le(len(data), 4) + list(data)
        _, _, recs = spec_parse_stream(raw)
    except (Malformed, struct.error, IndexError, ValueError):
        return None
    if len(recs) != 1:
        return None
    p = recs[0]
    if 0 in p['name'] or not (-1 <= p['ref'] < nrefs) or not (-1 <= p['mref'] < nrefs) or p['L'] < 0:
        return None
    return expected_view(p, omit)


def oracle_dec(c, o):
    """Judged only where the specification gives a meaning to the bytes: a well formed record
    must be returned as such. Malformed input is C11's subject; here it only drives the model."""
    want = spec_decode_record(c['data'], c['nrefs'], c['omit'])
    if 'hang' in o:
        return [('dec:hang', 'Read did not return')]
    if want is None:
        return []
    if 'rec' not in o:
        return [('dec:wellformed-rejected', 'well formed record rejected: %s' % (o.get('err') or o.get('panic')))]
    d = diff_view(want, view_of_obs(o['rec']))
    if d:
        return [('dec:field:' + d, 'well formed record decoded with a different %s' % d)]
    return []


# ---------------------------------------------------------------------------
# Coq terms

def ccigar(xs):
    xs = list(xs)
    return cperiodic(xs, 8, clist) or clist(xs)


def crec(v):
    """rec term from an in-memory view (harness c05view)."""
    q = 'None' if v['qual'] is None else '(Some %s)' % cbytes(v['qual'])
    return '(mkRec %s %s %s %s %s %s %s %s %s %s %s %s %s)' % (
        cbytes(v['name']), cz(v['ref']), cz(v['pos']), cz(v['mapq']), ccigar(v['cigar']), cz(v['flags']), cz(v['mref']),
        cz(v['mpos']), cz(v['tlen']), cz(v['lseq']), cbytes(v['dbl'] or []), q, clist(v['aux'] or [], cbytes))


def is_valid_typed(r, nrefs):
    """The generator's own notion of a representable record (must agree with valid_rec in Coq)."""
    if r.get('_refuse'):
        return False
    if 0 in r['name']:
        return False
    for a in r['aux']:
        if a['t'] in 'ZH' and 0 in a['l']:
            return False
        if a.get('hexval') and False:
            return False
    return True


def coq_term(c, o):
    op = c['op']
    if op == 'seq':
        return 'SEQ %s %s %s %s' % (clist(c['s']), cz(o['len']), clist(o['dbl']), clist(o['exp']))
    if op == 'dec':
        if 'rec' in o:
            return 'DEC %d %d %s 0 %s' % (c['omit'], c['nrefs'], cbytes(c['data']), crec(o['rec']))
        cls = 2 if 'panic' in o else 1
        return 'DEC %d %d %s %d %s' % (c['omit'], c['nrefs'], cbytes(c['data']), cls, crec(dict(name=[], ref=0, pos=0, mapq=0, cigar=[], flags=0, mref=0, mpos=0, tlen=0, lseq=0, dbl=[], qual=None, aux=[])))
    hdr = '(mkHdr %s %s)' % (cbytes(list(o['text'].encode())), clist(c['_refs'], lambda nl: '(%s, %s)' % (clist(list(nl[0].encode())), cz(nl[1]))))
    rs = clist(o['built'], crec)
    nrefs = len(c['_refs'])
    valid = clist([is_valid_typed(r, nrefs) for r in c['_recs']], cb)
    refused = clist([bool(e) for e in (o.get('refused') or [])], cb)
    reads = []
    acc_built = [b for b, e in zip(o['built'], o.get('refused') or []) if not e]
    for rd in o['reads']:
        end = 0 if rd.get('end') == 'EOF' else 1
        got = rd.get('recs') or []
        if [mem_view(g) for g in got] == [mem_expected(b, rd['omit']) for b in acc_built]:
            reads.append('(%d, None, %d)' % (rd['omit'], end))
        else:
            reads.append('(%d, Some %s, %d)' % (rd['omit'], clist(got, crec), end))
    return 'RT %s %s %s %s %s %s' % (hdr, rs, valid, refused, cbytes(o['raw']), '[' + '; '.join(reads) + ']')


MEM = ('name', 'ref', 'pos', 'mapq', 'cigar', 'flags', 'mref', 'mpos', 'tlen', 'lseq', 'dbl', 'qual', 'aux')


def mem_view(v):
    d = {k: v[k] for k in MEM}
    d['dbl'] = d['dbl'] or []
    d['aux'] = d['aux'] or []
    return d


def mem_expected(b, omit):
    """canon + omit of a built record, on the in-memory view (only used to abbreviate the Coq term:
    Coq recomputes the same from the built record and compares it with the model's reading of the bytes)."""
    d = mem_view(b)
    if d['qual'] is None:
        d['qual'] = [255] * max(d['lseq'], 0)
    if omit >= 2:
        d.update(lseq=0, dbl=[], qual=None, aux=[])
    elif omit >= 1:
        d['aux'] = []
    return d


def strip(c):
    return {k: v for k, v in c.items() if not k.startswith('_')}


def slim(o, lim=400):
    """Observation without bulky arrays (for replay files and samples)."""
    if isinstance(o, dict):
        return {k: slim(v, lim) for k, v in o.items() if k != 'stack'}
    if isinstance(o, list):
        if len(o) > lim:
            return [slim(x, lim) for x in o[:lim]] + ['... %d more' % (len(o) - lim)]
        return [slim(x, lim) for x in o]
    if isinstance(o, str) and len(o) > 4 * lim:
        return o[:4 * lim] + '...'
    return o


def judge(c, o):
    if c['op'] == 'rt':
        return oracle_rt(c, o)
    if c['op'] == 'seq':
        return oracle_seq(c, o)
    return oracle_dec(c, o)


def run(res, rng, tier):
    import time
    t0 = time.time()
    cases = gen_cases(rng, tier)
    obs = core.run_harness('c05', [strip(c) for c in cases], jobs=8, case_timeout='60s')
    res.extra['harness_s'] = round(time.time() - t0, 1)
    t0 = time.time()
    terms = []
    seen_na = set()
    for c, o in zip(cases, obs):
        res.evaluations += 1
        fam = c['_fam']
        res.count('family/' + fam.split('-')[0])
        if c['op'] == 'rt':
            nrec = 0
            for r in c['_recs']:
                if r.get('_refuse'):
                    continue
                nrec += 1
                n = rec_size(r)
                res.count('record-size/' + size_class(n))
                res.count('seq/' + ('zero' if r['L'] == 0 else 'odd' if r['L'] % 2 else 'even'))
                res.count('qual/' + ('absent' if r['qual'] is None else 'present'))
                nc = len(r['cigar'])
                res.count('cigar-ops/' + ('0' if nc == 0 else '<16384' if nc < 16384 else '16384..32767' if nc < 32768 else '>=32768'))
                for a in r['aux']:
                    res.count('aux/' + a['t'] + (a.get('sub') or ''))
                    if a['t'] == 'B' and not a['l']:
                        res.count('aux/B-empty')
                res.nontrivial.add(('rt', tuple(r['name']), r['L'], len(r['aux']), len(r['cigar']), r['pos'], n))
            # every record of a round-trip file is one evaluation (written, read back under three Omit modes, judged)
            res.evaluations += max(0, nrec - 1)
            res.extra['traces_validated_against_impl'] = res.extra.get('traces_validated_against_impl', 0) + 1
        elif c['op'] == 'seq':
            res.nontrivial.add(('seq', tuple(c['s'])))
        else:
            res.nontrivial.add(('dec', tuple(c['data']), c['omit']))
        if 'bad_case' in o or 'crash' in o or 'garbled' in o:
            res.corr_bad.append(dict(case=slim(strip(c)), obs=slim(o), note='harness could not run the case'))
            continue
        for sig, what in judge(c, o):
            res.failures.append(dict(sig=sig, what=what, case=c, observed=slim(o)))
        if 'hang' in o or ('panic' in o and c['op'] == 'rt') or 'write_err' in o or 'inflate_err' in o:
            if not judge(c, o):
                res.corr_bad.append(dict(case=slim(strip(c)), obs=slim(o)))
            continue
        t = coq_term(c, o)
        if (len(t) > 150000 or c.get('_nocoq')) and tier == 'quick':
            # judged by the oracle only; the model is run on cases of this size in the thorough tier
            res.count('coq-skipped-large')
            continue
        terms.append((c, o, t))
        # sam.NewAux against the model's new_aux, for every field the harness built from a typed value
        if c['op'] == 'rt':
            for i, r in enumerate(c['_recs']):
                for j, a in enumerate(r['aux']):
                    if a.get('via') == 'raw' or a['t'] == 'raw':
                        continue
                    key = (a['tag'], a['t'], a.get('sub'), a.get('v'), tuple(a.get('l') or []))
                    if key in seen_na:
                        continue
                    seen_na.add(key)
                    nt = 'NA %d %d %d %d %s %s %s' % (ord(a['tag'][0]), ord(a['tag'][1]), ord(a['t']), ord(a.get('sub') or '\0'),
                                                     cz(a.get('v', 0)), clist(a.get('l') or []), cbytes(o['built'][i]['aux'][j]))
                    terms.append((dict(op='newaux', aux=typed(a), _fam='newaux'), dict(built=o['built'][i]['aux'][j]), nt))
                    res.count('newaux/' + a['t'] + (a.get('sub') or ''))
    # balanced shards: deal the terms, largest first, round-robin into G groups
    G = 16 if len(terms) >= 64 else max(1, len(terms) // 2)
    order = sorted(range(len(terms)), key=lambda i: -len(terms[i][2]))
    groups = [order[g::G] for g in range(G)]
    per = max(len(g) for g in groups) if groups else 1
    flat = []
    for g in groups:
        flat.extend(g)
        flat.extend([None] * (per - len(g)))
    filler = 'SEQ [] 0 [] []'
    bad, err = core.coq_mismatches(HEADER, 'c05case', 'c05_agree', [terms[i][2] if i is not None else filler for i in flat], 'c05', shard=per)
    if err:
        res.corr_bad.append(dict(error=err[-3000:]))
    for k in bad:
        if flat[k] is None:
            continue
        c, o, t = terms[flat[k]]
        res.corr_bad.append(dict(case=slim(strip(c)), obs=slim(o), family=c['_fam'],
                                 note='model (BamCodec/BamSpec) and implementation disagree on this case'))
    res.extra['coq_evaluated_cases'] = len(terms)
    res.extra['coq_s'] = round(time.time() - t0, 1)
    res.extra['coq_chars'] = sum(len(t[2]) for t in terms)
    res.rule = ('round-trip cases: typed records (names 1..254 bytes, any flags/MAPQ, 0..12 CIGAR ops of types 0..15 with lengths up to 2^28-1, '
                'sequences of zero/odd/even length over the 16 codes and through n16Table, qualities absent/present, every aux type incl. all B subtypes and empty arrays/strings, '
                'block sizes 4094..4098 and >64 KiB, runs of 2-4 records above 4 KiB (decreasing/equal/increasing sizes), 16383/16384/16385/32768/40000/65535 CIGAR ops, 700 records across BGZF blocks, 70 KiB header), written at several wc/levels/flush placements and read back with rd 1..4 and the three Omit modes; '
                'single-record byte strings incl. malformed ones; nybble packing over all byte values. A case is distinct by its record contents; all are non-trivial.')
    pick = [x for x in zip(cases, obs) if x[0]['op'] == 'rt'][:2] + [x for x in zip(cases, obs) if x[0]['op'] == 'dec'][:1] + [x for x in zip(cases, obs) if x[0]['op'] == 'seq'][:1]
    res.samples = [dict(case=slim(strip(c), 40), observed=slim(o, 40)) for c, o in pick]
    res.trusted = TRUSTED
    res.assumptions = ASSUME


def replay(res, rp):
    """Re-run a failing input: the saved case carries the typed records (_recs, _refs, _fam) the oracle needs."""
    c = rp.get('case')
    if not c:
        print(json.dumps(rp, indent=1)[:4000])
        return 0
    o = core.run_harness('c05', [strip(c)], case_timeout='60s')[0]
    print('case     :', json.dumps(slim(strip(c), 60))[:3000])
    print('observed :', json.dumps(slim(o, 60))[:3000])
    if c.get('op') == 'rt' and '_recs' not in c:
        print('oracle   : the saved case has no typed records; re-run ./check C05 with VERIF_SEED=%s' % rp.get('seed'))
        return 0
    if 'bad_case' in o or 'crash' in o:
        print('oracle   : harness could not run the case')
        return 1
    fails = judge(c, o)
    for sig, what in fails:
        print('oracle   : %s -- %s' % (sig, what))
    if not fails:
        print('oracle   : satisfied')
    return 1 if fails else 0


TRUSTED = [
    'Coq 8.16.1 kernel (coqc); vm_compute used for case evaluation only',
    'hand-written model coq/Model/BamCodec.v of bam.Writer.Write, bam.Reader.Read, parseAux, buildAux, sam.NewSeq/Expand and the binary header frame; '
    'tied to the source by the regenerated tables (n16Table, n16TableRev, jumps, consume, bamFixedRemainder, Reader.buf size, field order/width skeletons of Write and Read) '
    'and validated on every run against the implementation on the generated cases',
    'translator /verif/gen (tables and statement skeletons; aborts when the source leaves the shape it understands)',
    'the BGZF layer (bgzf.Writer/Reader) is taken as a faithful byte pipe here (C01/C02); the harness reads the uncompressed stream back through bgzf.Reader',
    'the SAM header text codec (MarshalText/UnmarshalText, AddReference) is opaque: header text is a byte string (C07)',
    'the reader\'s cursor (data, off) is represented by the remaining bytes; Go int is unbounded Z; sized conversions wrap explicitly',
]
ASSUME = [
    'float32 aux values are carried as their 32 bit patterns',
    'Record.Bin (bytes 10..11 of a record) is computed as the code does and excluded from the comparison with the specification encoder (C16 judges it)',
    'CIGAR operation types 11..15 are carried through unchanged (Consumes clamps them to the lastCigar entry)',
]

CLAIM = dict(
    text='Machine-checked proof (Coq 8.16.1) over a model of bam.Writer.Write / bam.Reader.Read / parseAux / buildAux / the header frame that follows the code and interprets tables and field skeletons '
         'regenerated from the Go source: for every valid record decode(encode r) = canon r (absent qualities become 0xff), the stream of header and records reads back in order and ends with EOF, '
         'encode equals an encoder written from SAMv1 4.2 over typed values except for the bin field, the Omit modes return the record minus exactly the omitted parts, '
         'the shared/private buffer decision does not influence the result on any input, and decoding one block is total (record or error). The model is run against the implementation on every check (bytes under BGZF, fields read back, all Omit modes, several wc/rd), '
         'and an independent Python encoder/decoder from the specification judges the implementation.',
    note='Trusted: Coq kernel; hand model tied by regenerated tables/skeletons and per-run correspondence; BGZF layer as byte pipe (C01/C02); header text opaque (C07); floats as bit patterns; bin field excluded (C16).',
    technique='Coq proof over hand model + source-regenerated tables/skeletons + vm_compute correspondence + spec oracle',
    design='6/C05')
