"""C06: SAM text round trip; SAM and BAM views agree; sam.Reader returns every line."""
import json
import re
import struct
from fractions import Fraction

import core
from core import cz, clist

PROPS = 'Props/C06.v'
HEADER = ('From Hts Require Import Base.Prim Generated Model.SamText Model.SamSpec Model.SamTextRun.\n'
          'Open Scope Z_scope.')

BASES = b'=ACMGRSVTWYHKDBN'
CIGOPS = 'MIDNSHP=X'            # SAMv1 section 1.4.6 (the library also knows B as a 10th)
INT_RANGE = {'c': (-128, 127), 'C': (0, 255), 's': (-32768, 32767), 'S': (0, 65535),
             'i': (-2 ** 31, 2 ** 31 - 1), 'I': (0, 2 ** 32 - 1)}
INT_SIZE = {'c': 1, 'C': 1, 's': 2, 'S': 2, 'i': 4, 'I': 4, 'f': 4}


# =============================================================== float text

def f32_value(bits):
    return Fraction(struct.unpack('<f', struct.pack('<I', bits))[0])


FLOAT_RE = re.compile(rb'^([-+]?)(\d*)(?:\.(\d*))?(?:[eE]([-+]?\d+))?$')


def text_value(txt):
    """Exact rational value of a decimal floating point text, or None."""
    m = FLOAT_RE.match(txt)
    if not m or (not m.group(2) and not m.group(3)):
        return None
    mant = Fraction(int((m.group(2) or b'0') + (m.group(3) or b'')), 10 ** len(m.group(3) or b''))
    v = mant * Fraction(10) ** int(m.group(4) or 0)
    return (-v if m.group(1) == b'-' else v), m.group(1) == b'-'


def float_text_ok(bits, txt):
    """Does the decimal text denote (round to nearest even, float32) exactly the value with these bits?
    Written from IEEE 754; independent of strconv. Returns (ok, class)."""
    exp = (bits >> 23) & 0xff
    frac = bits & 0x7fffff
    neg = bool(bits >> 31)
    if exp == 0xff:
        if frac:
            return None, 'nan'
        want = (b'-inf', b'-infinity') if neg else (b'+inf', b'inf', b'+infinity', b'infinity')
        return txt.lower() in want, 'inf'
    tv = text_value(txt)
    if tv is None:
        return False, 'finite'
    v, tneg = tv
    if tneg != neg:
        return False, 'finite'
    x = abs(f32_value(bits))
    v = abs(v)
    mag = bits & 0x7fffffff
    lo = abs(f32_value(mag - 1)) if mag > 0 else None
    hi = abs(f32_value(mag + 1)) if mag + 1 < 0x7f800000 else Fraction(2) ** 128
    even = (bits & 1) == 0
    if lo is None:
        ok_lo = v >= 0
    else:
        mid = (lo + x) / 2
        ok_lo = v > mid or (v == mid and even)
    mid = (x + hi) / 2
    ok_hi = v < mid or (v == mid and even)
    cls = 'zero' if mag == 0 else ('denormal' if exp == 0 else 'normal')
    return ok_lo and ok_hi, cls


# ================================================== record <-> spec-level view

def seq_string(rec):
    out = bytearray()
    for i in range(rec['seqlen']):
        d = rec['seq'][i >> 1]
        out.append(BASES[(d >> 4) if i % 2 == 0 else (d & 15)])
    return bytes(out)


def aux_text(a, ftext):
    """TAG:TYPE:VALUE of SAMv1 section 1.5 for a decoded aux field."""
    tag = bytes(a['tag'])
    t = a['t']
    if t == 'A':
        return tag + b':A:' + bytes([a['v']])
    if t in INT_RANGE:
        return tag + b':i:' + str(a['v']).encode()
    if t == 'f':
        return tag + b':f:' + ftext(a['v'])
    if t == 'Z':
        return tag + b':Z:' + bytes(a['vs'])
    if t == 'H':
        return tag + b':H:' + bytes(a['vs']).hex().upper().encode()
    if t == 'B':
        if a['sub'] == 'f':
            el = [ftext(v) for v in a['vs']]
        else:
            el = [str(v).encode() for v in a['vs']]
        return tag + b':B:' + a['sub'].encode() + b''.join(b',' + e for e in el)
    raise ValueError(t)


def qual_absent(q):
    return q is None or all(v == 255 for v in q)


def spec_fields(refs, rec, flagtext, ftext):
    """The fields of the alignment line, from SAMv1 section 1.4."""
    def rname(i):
        return b'*' if i < 0 else bytes(refs[i]['name'])
    rnext = b'=' if (rec['mref'] >= 0 and rec['mref'] == rec['ref']) else rname(rec['mref'])
    cigar = b'*' if not rec['cigar'] else b''.join(b'%d%s' % (co >> 4, CIGOPS[co & 15].encode()) for co in rec['cigar'])
    seq = seq_string(rec) if rec['seqlen'] else b'*'
    qual = b'*' if qual_absent(rec['qual']) else bytes((v + 33) & 0xff for v in rec['qual'])
    f = [bytes(rec['name']), flagtext, rname(rec['ref']), str(rec['pos'] + 1).encode(), str(rec['mapq']).encode(),
         cigar, rnext, str(rec['mpos'] + 1).encode(), str(rec['tlen']).encode(), seq, qual]
    return f + [aux_text(a, ftext) for a in rec['aux']]


FIELD_NAMES = ['QNAME', 'FLAG', 'RNAME', 'POS', 'MAPQ', 'CIGAR', 'RNEXT', 'PNEXT', 'TLEN', 'SEQ', 'QUAL']


def decode_aux(raw):
    """Raw sam.Aux bytes (BAM layout without terminator) -> decoded field."""
    tag, t, body = raw[:2], chr(raw[2]), bytes(raw[3:])
    fm = {'c': '<b', 'C': '<B', 's': '<h', 'S': '<H', 'i': '<i', 'I': '<I', 'f': '<I'}
    if t == 'A':
        return dict(tag=tag, t='A', v=body[0])
    if t in fm:
        return dict(tag=tag, t=t, v=struct.unpack(fm[t], body[:INT_SIZE[t]])[0])
    if t in 'ZH':
        return dict(tag=tag, t=t, vs=list(body))
    if t == 'B':
        sub = chr(body[0])
        n = struct.unpack('<I', body[1:5])[0]
        sz = INT_SIZE[sub]
        vs = [struct.unpack(fm[sub], body[5 + k * sz:5 + (k + 1) * sz])[0] for k in range(n)]
        return dict(tag=tag, t='B', sub=sub, vs=vs)
    raise ValueError('aux type %r' % t)


def cigar_consistent(cigar, seqlen):
    """Cigar.IsValid as documented: query-consuming lengths sum to the sequence length, hard clips
    only at the ends, soft clips only at the ends or next to a hard clip."""
    n = len(cigar)
    q = 0
    pos = 0
    for i, co in enumerate(cigar):
        t = co & 15
        if t > 9:
            return False
        if t == 5 and i not in (0, n - 1):
            return False
        if t == 4 and i not in (0, n - 1):
            if (cigar[i - 1] & 15) != 5 and (cigar[i + 1] & 15) != 5:
                return False
        cq = 1 if t in (0, 1, 4, 7, 8) else 0
        cr = 1 if t in (0, 2, 3, 7, 8) else (-1 if t == 9 else 0)
        if pos < 0 and cq:
            return False
        q += (co >> 4) * cq
        pos += (co >> 4) * cr
    return q == seqlen


def valid_header(refs):
    names = [bytes(r['name']) for r in refs]
    return (len(set(names)) == len(names)
            and all(n and n not in (b'*', b'=') and 9 not in n and 10 not in n and 13 not in n for n in names))


def valid_aux(a):
    if len(a['tag']) != 2 or any(c in (9, 10, 13) for c in a['tag']):
        return False
    t = a['t']
    if t == 'A':
        return 33 <= a['v'] <= 126
    if t in INT_RANGE:
        return INT_RANGE[t][0] <= a['v'] <= INT_RANGE[t][1]
    if t == 'f':
        return not is_nan(a['v'])
    if t == 'Z':
        return all(32 <= c <= 126 for c in a['vs'])
    if t == 'H':
        return all(0 <= c <= 255 for c in a['vs'])
    if t == 'B':
        if a['sub'] == 'f':
            return not any(is_nan(v) for v in a['vs'])
        lo, hi = INT_RANGE[a['sub']]
        return all(lo <= v <= hi for v in a['vs'])
    return False


def is_nan(bits):
    return (bits >> 23) & 0xff == 0xff and bits & 0x7fffff != 0


def valid_record(refs, rec, spec=True):
    """Records expressible in SAM text (the hypothesis of sam_roundtrip)."""
    if not valid_header(refs):
        return False
    if any(c in (9, 10, 13) for c in rec['name']):
        return False
    if not (0 <= rec['flags'] < 65536 and 0 <= rec['mapq'] < 256):
        return False
    if not (-1 <= rec['ref'] < len(refs) and -1 <= rec['mref'] < len(refs)):
        return False
    for k in ('pos', 'mpos'):
        if not -2 ** 63 <= rec[k] + 1 < 2 ** 63:
            return False
    if not -2 ** 63 <= rec['tlen'] < 2 ** 63:
        return False
    if any((co & 15) > (8 if spec else 9) or not 0 <= co < 2 ** 32 for co in rec['cigar']):
        return False
    sl = rec['seqlen']
    if sl < 0 or len(rec['seq']) != (sl + 1) // 2 or any(not 0 <= d < 256 for d in rec['seq']):
        return False
    if sl % 2 == 1 and rec['seq'][-1] & 15:
        return False
    if rec['cigar'] and sl and not cigar_consistent(rec['cigar'], sl):
        return False
    q = rec['qual']
    if q is not None:
        if len(q) != sl or any(not 0 <= v < 256 for v in q):
            return False
        if not qual_absent(q):
            t = [(v + 33) & 0xff for v in q]
            if 9 in t or 10 in t or 13 in t or t == [42]:
                return False
    return all(valid_aux(a) for a in rec['aux'])


# ----- independent parser of an alignment line (SAMv1 1.4/1.5), for lines the formatter made

def spec_parse(refs, line):
    f = line.split(b'\t')
    if len(f) < 11:
        return None
    names = [bytes(r['name']) for r in refs]

    def rid(n):
        return -1 if n == b'*' else names.index(n)
    try:
        flags = int(f[1], 16) if f[1][:2] in (b'0x', b'0X') else int(f[1])
        ref = rid(f[2])
        mref = ref if f[6] == b'=' else rid(f[6])
        cigar = []
        if f[5] != b'*':
            for m in re.finditer(rb'(\d+)([MIDNSHP=XB])', f[5]):
                cigar.append(int(m.group(1)) << 4 | b'MIDNSHP=XB'.index(m.group(2)))
        seq = b'' if f[9] == b'*' else f[9]
        qual = None if f[10] == b'*' else [(c - 33) & 0xff for c in f[10]]
        aux = []
        for a in f[11:]:
            tag, t, v = a[:2], chr(a[3]), a[5:]
            if t == 'A':
                aux.append(dict(tag=list(tag), t='A', v=v[0]))
            elif t == 'i':
                aux.append(dict(tag=list(tag), t='i', v=int(v)))
            elif t == 'f':
                aux.append(dict(tag=list(tag), t='f', text=v))
            elif t == 'Z':
                aux.append(dict(tag=list(tag), t='Z', vs=list(v)))
            elif t == 'H':
                aux.append(dict(tag=list(tag), t='H', vs=list(bytes.fromhex(v.decode()))))
            elif t == 'B':
                sub = chr(v[0])
                el = v[1:].split(b',')[1:] if len(v) > 1 else []
                if sub == 'f':
                    aux.append(dict(tag=list(tag), t='B', sub=sub, texts=el))
                else:
                    aux.append(dict(tag=list(tag), t='B', sub=sub, vs=[int(e) for e in el]))
        return dict(name=list(f[0]), flags=flags, ref=ref, pos=int(f[3]) - 1, mapq=int(f[4]), cigar=cigar,
                    mref=mref, mpos=int(f[7]) - 1, tlen=int(f[8]), seq=seq, qual=qual, aux=aux)
    except (ValueError, IndexError):
        return None


def aux_same_value(a, b):
    """a: original decoded aux; b: decoded aux from the library or from spec_parse (floats may be text)."""
    if list(a['tag']) != list(b['tag']):
        return False
    ta, tb = a['t'], b['t']
    if ta in INT_RANGE:
        return tb in INT_RANGE and a['v'] == b['v']
    if ta != tb:
        return False
    if ta == 'A':
        return a['v'] == b['v']
    if ta == 'f':
        if 'text' in b:
            return bool(float_text_ok(a['v'], b['text'])[0])
        return a['v'] == b['v']
    if ta in 'ZH':
        return list(a['vs']) == list(b['vs'])
    if ta == 'B':
        if a['sub'] != b['sub']:
            return False
        if 'texts' in b:
            return len(b['texts']) == len(a['vs']) and all(float_text_ok(x, t)[0] for x, t in zip(a['vs'], b['texts']))
        return list(a['vs']) == list(b['vs'])
    return False


def qual_canon(q, sl):
    return [255] * sl if q is None else list(q)


def diff_fields(rec, got, view=False):
    """Names of fields in which `got` (library dump with decoded aux, or spec_parse view) differs from rec."""
    bad = []
    for k, nm in (('name', 'QNAME'), ('flags', 'FLAG'), ('ref', 'RNAME'), ('pos', 'POS'), ('mapq', 'MAPQ'),
                  ('cigar', 'CIGAR'), ('mref', 'RNEXT'), ('mpos', 'PNEXT'), ('tlen', 'TLEN')):
        if list(rec[k]) != list(got[k]) if isinstance(rec[k], list) else rec[k] != got[k]:
            bad.append(nm)
    if view:
        if seq_string(rec) != got['seq']:
            bad.append('SEQ')
        if qual_absent(rec['qual']) != (got['qual'] is None) or (got['qual'] is not None and list(rec['qual']) != got['qual']):
            bad.append('QUAL')
    else:
        if rec['seqlen'] != got['seqlen'] or list(rec['seq']) != list(got['seq']):
            bad.append('SEQ')
        if qual_canon(rec['qual'], rec['seqlen']) != qual_canon(got['qual'], got['seqlen']):
            bad.append('QUAL')
    if len(rec['aux']) != len(got['aux']):
        bad.append('AUX:count')
    else:
        for a, b in zip(rec['aux'], got['aux']):
            if not aux_same_value(a, b):
                bad.append('AUX:' + aux_desc(a))
    return bad


def aux_desc(a):
    t = a['t']
    if t == 'B':
        return 'B:%s%s' % (a['sub'], '-empty' if not a['vs'] else '')
    if t in 'ZH':
        extra = ''
        if not a['vs']:
            extra = '-empty'
        elif t == 'H' and 0 in a['vs']:
            extra = '-zero-byte'
        elif t == 'H' and any((c >> 4) > 9 or (c & 15) > 9 for c in a['vs']):
            extra = '-letter-digits'
        return t + extra
    if t == 'f':
        return 'f'
    return t


# ================================================================= generators

NAME_CH = [c for c in range(33, 127) if c != 64]
REF_CH = b'0123456789ABCDEFGHIJKLMNOPQRSTUVWXYZabcdefghijklmnopqrstuvwxyz!#$%&+./:;?@^_|~-'


def gen_header(rng):
    n = rng.choice([1, 1, 2, 3, 4])
    names = []
    while len(names) < n:
        if names and rng.random() < 0.3:          # near-duplicates: prefixes / one more character
            nm = names[-1] + bytes([rng.choice(REF_CH)])
        else:
            nm = bytes(rng.choice(REF_CH) for _ in range(rng.choice([1, 2, 4, 8])))
        if nm not in names:
            names.append(nm)
    return [dict(name=list(nm), len=rng.choice([1, 1000, 2 ** 29 - 1, 2 ** 31 - 1])) for nm in names]


def gen_cigar(rng, seqlen):
    """A CIGAR whose query-consuming operations sum to seqlen (seqlen >= 1), per SAMv1 1.4.6."""
    ops = []
    remaining = seqlen
    lead, trail = [], []
    if rng.random() < 0.3:
        lead.append((5, rng.choice([0, 1, 7, 300])))
    if rng.random() < 0.3 and remaining > 1:
        k = rng.randrange(1, remaining)
        lead.append((4, k))
        remaining -= k
    if rng.random() < 0.3 and remaining > 1:
        k = rng.randrange(1, remaining)
        trail.append((4, k))
        remaining -= k
    if rng.random() < 0.3:
        trail.append((5, rng.choice([0, 1, 2 ** 28 - 1])))
    core_ops = []
    while remaining > 0:
        k = rng.randrange(1, remaining + 1) if rng.random() < 0.6 else remaining
        core_ops.append((rng.choice([0, 0, 1, 7, 8]), k))
        remaining -= k
        if remaining > 0 and rng.random() < 0.5:
            core_ops.append((rng.choice([2, 3, 6]), rng.choice([0, 1, 5, 1000, 2 ** 28 - 1])))
    ops = lead + core_ops + trail
    return [(ln << 4) | t for t, ln in ops]


_EDGE_POOL = [0, 1, -1, 2, -128, -129, 127, 128, 255, 256, -32768, -32769, 32767, 32768, 65535, 65536,
              -2 ** 31, -2 ** 31 + 1, 2 ** 31 - 1, 2 ** 31, 2 ** 32 - 1, 2 ** 32 - 2]
INT_EDGES = {t: sorted({v for v in _EDGE_POOL + [lo, lo + 1, hi, hi - 1, lo // 2, hi // 2] if lo <= v <= hi})
             for t, (lo, hi) in INT_RANGE.items()}

F32_EDGES = [0, 0x80000000, 1, 0x80000001, 0x007fffff, 0x00800000, 0x7f7fffff, 0xff7fffff, 0x7f800000, 0xff800000,
             0x3f800000, 0xbf800000, 0x3dcccccd, 0x40490fdb, 0x4b800000, 0x4b7fffff, 0x5a0e1bca, 0x38d1b717,
             0x3a83126f, 0x49742400, 0x49742408, 0x501502f9, 0x358637bd]


def gen_f32(rng, nan_ok=False):
    r = rng.random()
    if r < 0.45:
        return rng.choice(F32_EDGES)
    if r < 0.6:
        return rng.randrange(0, 0x00800000) | (rng.getrandbits(1) << 31)      # denormals
    while True:
        b = rng.getrandbits(32)
        if nan_ok or not is_nan(b):
            return b


def gen_aux(rng, tags):
    while True:
        tag = [rng.choice(b'ABCXYZabcxyz'), rng.choice(b'ABCXYZabz0129')]
        if tuple(tag) not in tags:
            tags.add(tuple(tag))
            break
    t = rng.choice(['A', 'c', 'C', 's', 'S', 'i', 'I', 'f', 'Z', 'H', 'B', 'B', 'i', 'Z'])
    a = dict(tag=tag, t=t)
    if t == 'A':
        a['v'] = rng.choice([33, 126, 42, 58, 61, rng.randrange(33, 127)])
    elif t in INT_RANGE:
        lo, hi = INT_RANGE[t]
        a['v'] = rng.choice(INT_EDGES[t]) if rng.random() < 0.7 else rng.randrange(lo, hi + 1)
    elif t == 'f':
        a['v'] = gen_f32(rng)
    elif t == 'Z':
        n = rng.choice([0, 0, 1, 3, 12])
        a['vs'] = [rng.choice([32, 33, 126, 58, 44, 42, rng.randrange(32, 127)]) for _ in range(n)]
    elif t == 'H':
        n = rng.choice([0, 1, 2, 5])
        a['vs'] = [rng.choice([0, 1, 0x1f, 0xa0, 0xff, 0x99, rng.randrange(256)]) for _ in range(n)]
    else:
        sub = rng.choice('cCsSiIf')
        n = rng.choice([0, 0, 1, 2, 5])
        a['sub'] = sub
        if sub == 'f':
            a['vs'] = [gen_f32(rng) for _ in range(n)]
        else:
            lo, hi = INT_RANGE[sub]
            a['vs'] = [rng.choice(INT_EDGES[sub]) if rng.random() < 0.6 else rng.randrange(lo, hi + 1) for _ in range(n)]
    return a


def gen_record(rng, refs, simple=False):
    """A record expressible in SAM text."""
    nref = len(refs)
    name = [rng.choice(NAME_CH) for _ in range(rng.choice([1, 2, 5, 12]))]
    if rng.random() < 0.05:
        name = [42]
    flags = rng.choice([0, 1, 4, 16, 99, 147, 0x800, 0xfff, 0xffff, 0x8000, rng.randrange(65536), rng.randrange(4096)])
    ref = rng.choice([-1] + list(range(nref)) * 2)
    mref = rng.choice([-1, ref, ref, rng.randrange(nref)])
    posv = [0, 1, 9, 99, 12345, 2 ** 29, 2 ** 31 - 2]
    pos = -1 if ref < 0 else rng.choice(posv)
    mpos = -1 if mref < 0 else rng.choice(posv)
    if rng.random() < 0.08:
        pos, mpos = rng.choice([-1, -2, 2 ** 40]), rng.choice([-1, -5, 2 ** 62])
    tlen = rng.choice([0, 0, 1, -1, 250, -250, 2 ** 31 - 1, -2 ** 31, rng.randrange(-10 ** 6, 10 ** 6)])
    mapq = rng.choice([0, 1, 9, 10, 60, 99, 100, 254, 255, rng.randrange(256)])
    seqlen = rng.choice([0, 0, 1, 1, 2, 3, 4, 7, 16, 33])
    bases = [rng.randrange(16) if rng.random() < 0.4 else rng.choice([1, 2, 4, 8, 15]) for _ in range(seqlen)]
    seq = []
    for i in range(0, seqlen, 2):
        seq.append(bases[i] << 4 | (bases[i + 1] if i + 1 < seqlen else 0))
    r = rng.random()
    if seqlen == 0:
        cigar = [] if r < 0.6 else [(rng.choice([1, 5, 100]) << 4) | rng.choice([0, 2, 3])]
    else:
        cigar = [] if r < 0.15 else gen_cigar(rng, seqlen)
    r = rng.random()
    if r < 0.2:
        qual = None
    elif r < 0.35:
        qual = [255] * seqlen
    elif r < 0.85:
        qual = [rng.choice([0, 1, 9, 40, 93, rng.randrange(94)]) for _ in range(seqlen)]
    else:
        qual = [rng.choice([0, 93, 94, 200, 222, 254, 255, rng.randrange(256)]) for _ in range(seqlen)]
    tags = set()
    naux = 0 if simple else rng.choice([0, 1, 1, 2, 3, 5])
    aux = [gen_aux(rng, tags) for _ in range(naux)]
    rec = dict(name=name, flags=flags, ref=ref, pos=pos, mapq=mapq, cigar=cigar, mref=mref, mpos=mpos, tlen=tlen,
               seqlen=seqlen, seq=seq, qual=qual, aux=aux)
    if not valid_record(refs, rec):
        # the only invalid things the generator can produce are in QUAL (tab/newline/lone '*'): repair
        rec['qual'] = None if seqlen == 0 else [30] * seqlen
    return rec


def gen_odd_record(rng, refs):
    """Records outside the valid class (model and implementation must still agree on them)."""
    rec = gen_record(rng, refs)
    k = rng.randrange(9)
    if k == 0:
        rec['qual'] = [10] * (rec['seqlen'] + 1)                # length mismatch: MarshalSAM error
    elif k == 1 and rec['seqlen'] >= 2:
        rec['seq'] = rec['seq'][:-1]                              # Expand indexes past Seq
    elif k == 2:
        rec['cigar'] = rec['cigar'] + [(3 << 4) | rng.choice([9, 10, 11, 15])]   # B and unknown operations
    elif k == 3:
        rec['name'] = rec['name'] + [9, 120]                      # TAB inside the name
    elif k == 4 and rec['seqlen'] == 1:
        rec['qual'] = [9]                                         # formats as a lone '*'
    elif k == 5:
        rec['qual'] = [] if rec['seqlen'] else None
        rec['seqlen'] += 0
    elif k == 6 and rec['seqlen'] % 2 == 1:
        rec['seq'][-1] |= rng.randrange(1, 16)                    # junk in the unused low nibble
    elif k == 7:
        rec['aux'].append(dict(tag=[88, 65], t='A', v=rng.choice([9, 32, 127, 128, 233, 255])))
    else:
        rec['qual'] = [232] * rec['seqlen'] if rec['seqlen'] else None    # +33 gives a TAB
    return rec


FLAG_TEXTS = [b'0', b'4', b'65535', b'65536', b'0x0', b'0xffff', b'0XFF', b'0x10000', b'0b101', b'0B11', b'0o17', b'017',
              b'08', b'1_0', b'1__0', b'_1', b'1_', b'0x_1f', b'0_7', b'+4', b'-0', b'', b' 4', b'4 ', b'0x', b'0b', b'pu',
              b'00', b'0xg', b'1e2', b'0x1_f', b'0b1_0', b'0o_7', b'0_x1']
INT_TEXTS = [b'0', b'1', b'-1', b'+5', b'-0', b'007', b'', b'-', b'+', b'1 ', b'0x10', b'1_0', b'9223372036854775807',
             b'9223372036854775808', b'-9223372036854775808', b'-9223372036854775809', b'99999999999999999999', b'12a']
MAPQ_TEXTS = [b'0', b'255', b'256', b'-1', b'+1', b'007', b'', b'0x1', b'1_0', b'99', b'2 5']
CIGAR_TEXTS = [b'*', b'', b'M', b'0M', b'5M3', b'7', b'77', b'5M5', b'4M', b'4m', b'4Q', b'2M2B2M', b'268435455M',
               b'268435456M', b'600000000D4M', b'1000000000M', b'10000000000000M', b'**', b'4M*', b'1H2S1M1S1H', b'1M1H1M',
               b'1M1S1M', b'2S1H1M', b'4=', b'2X2I', b'1M1P1M1N1M1D1M', b'4B4M', b'1M9B3M', b'00004M', b'4M\x00']
SEQ_TEXTS = [b'*', b'', b'ACGT', b'acgt', b'ACGTN', b'=ACMGRSVTWYHKDBN', b'A', b'.', b'AC GT', b'ACGU', b'A*', b'\xffCGT']
QUAL_TEXTS = [b'*', b'', b'IIII', b'!', b'~~~~', b'**', b'*!', b' !!!', b'\x7f\x80\xff!', b'!!!!!']
AUX_TEXTS = [b'XY:i:0', b'XY:i:255', b'XY:i:256', b'XY:i:65535', b'XY:i:65536', b'XY:i:4294967295', b'XY:i:4294967296',
             b'XY:i:-1', b'XY:i:-128', b'XY:i:-129', b'XY:i:-32768', b'XY:i:-32769', b'XY:i:-2147483648', b'XY:i:-2147483649',
             b'XY:i:+7', b'XY:i:', b'XY:i:1_0', b'XY:i:0x1', b'XY:i:007', b'XY:A:a', b'XY:A:', b'XY:A:ab', b'XY:A:\xe9',
             b'XY:Z:', b'XY:Z:a', b'XY:Z:hello world:,*', b'XY:H:', b'XY:H:1', b'XY:H:1f', b'XY:H:1F', b'XY:H:1g', b'XY:H:001f',
             b'XY:H:1f0', b'XY:f:1', b'XY:f:1.5', b'XY:f:-0', b'XY:f:1e-45', b'XY:f:1e50', b'XY:f:inf', b'XY:f:+Inf',
             b'XY:f:-Inf', b'XY:f:nan', b'XY:f:NaN', b'XY:f:0x1p-2', b'XY:f:', b'XY:f:1_0', b'XY:f:.5', b'XY:f:5.',
             b'XY:f:3.4028236e38', b'XY:f:3.4028235e38', b'XY:f:1e-46', b'XY:f:abc',
             b'XY:B:c', b'XY:B:c,', b'XY:B:c,1', b'XY:B:c,1,', b'XY:B:c,-128,127', b'XY:B:c,128', b'XY:B:c,-129', b'XY:B:C,255,0',
             b'XY:B:C,256', b'XY:B:C,-1', b'XY:B:C,0x10,0b1,0o7,017,1_0', b'XY:B:s,-32768,32767', b'XY:B:s,32768', b'XY:B:S,65535',
             b'XY:B:S,65536', b'XY:B:i,-2147483648,2147483647', b'XY:B:i,2147483648', b'XY:B:I,4294967295', b'XY:B:I,4294967296',
             b'XY:B:f', b'XY:B:f,1,2.5,-0,+Inf', b'XY:B:f,1e50', b'XY:B:f,', b'XY:B:d,1', b'XY:B:', b'XY:B:c1', b'XY:B:c;1',
             b'XY:B:I', b'XY:B:S', b'XY:B:,1', b'XY:B:c,+1,-0x10', b'XY:B:c,1__0', b'XY:B:C,_1', b'XY:B:C,0_1', b'XY:B:C,0x_1',
             b'XY:Q:1', b'XY:c:1', b'XY;i:1', b'XY:i;1', b'XY:i', b'XY', b'', b'X:i:1', b'XYZ:i:1', b'XY:i:1:2', b'XY:Z:\xff\x00']


def mutate_line(rng, line, refs):
    """Replace one field of a well-formed line by an edge-case text."""
    f = line.split(b'\t')
    k = rng.randrange(14)
    names = [bytes(r['name']) for r in refs]
    if k == 0:
        f[1] = rng.choice(FLAG_TEXTS)
    elif k == 1:
        f[rng.choice([3, 7, 8])] = rng.choice(INT_TEXTS)
    elif k == 2:
        f[4] = rng.choice(MAPQ_TEXTS)
    elif k == 3:
        f[5] = rng.choice(CIGAR_TEXTS)
    elif k == 4:
        f[rng.choice([2, 6])] = rng.choice([b'*', b'=', b'', b'nosuchref', names[0], names[-1], names[0] + b'x', names[0][:-1]])
    elif k == 5:
        f[9] = rng.choice(SEQ_TEXTS)
        if rng.random() < 0.5:
            f[5] = b'*'
    elif k == 6:
        f[10] = rng.choice(QUAL_TEXTS)
    elif k == 7:
        f = f[:rng.randrange(0, 11)]
    elif k == 8:
        f = f[:11] + [rng.choice(AUX_TEXTS) for _ in range(rng.choice([1, 2]))]
    elif k == 9:
        f = f + [rng.choice(AUX_TEXTS)]
    elif k == 10:
        f[9] = rng.choice([b'ACGT', b'ACGTA'])
        f[5] = rng.choice(CIGAR_TEXTS)
        f[10] = rng.choice([b'*', b'IIII', b'IIIII'])
    elif k == 11:
        f[6] = rng.choice([b'=', f[2], b'*'])
    elif k == 12:
        i = rng.randrange(len(f))
        f[i] = f[i] + rng.choice([b' ', b'\r', b'\x00', b'x'])
    else:
        f = f[:11] + [a for a in AUX_TEXTS[rng.randrange(len(AUX_TEXTS)):][:3]]
    return b'\t'.join(f)


# ============================================================== Coq terms

def c_bytes(b):
    return clist(list(b))


def c_ref(i):
    return 'None' if i < 0 else '(Some %d%%nat)' % i


def c_aux(a):
    t = a['t']
    tg = '%d %d' % (a['tag'][0], a['tag'][1])
    if t == 'A':
        v = '(AvA %d)' % a['v']
    elif t in INT_RANGE:
        v = '(AvInt %d %s)' % (ord(t), cz(a['v']))
    elif t == 'f':
        v = '(AvF %d)' % a['v']
    elif t == 'Z':
        v = '(AvZ %s)' % clist(a['vs'])
    elif t == 'H':
        v = '(AvH %s)' % clist(a['vs'])
    elif a['sub'] == 'f':
        v = '(AvBF %s)' % clist(a['vs'])
    else:
        v = '(AvBI %d %s)' % (ord(a['sub']), clist(a['vs']))
    return '(mk_aux %s %s)' % (tg, v)


def c_rec(r):
    q = 'None' if r['qual'] is None else '(Some %s)' % clist(r['qual'])
    return '(mk_rec %s %s %s %s %s %s %s %s %s %s %s %s %s)' % (
        clist(r['name']), cz(r['flags']), c_ref(r['ref']), cz(r['pos']), cz(r['mapq']), clist(r['cigar']),
        c_ref(r['mref']), cz(r['mpos']), cz(r['tlen']), cz(r['seqlen']), clist(r['seq']), q,
        '[' + '; '.join(c_aux(a) for a in r['aux']) + ']')


def c_hdr(refs):
    return '[' + '; '.join('(%s, %d)' % (clist(r['name']), r['len']) for r in refs) + ']'


def dump_to_rec(d):
    r = dict(d)
    r['aux'] = [decode_aux(a) for a in d['aux']]
    return r


def c_out_line(o):
    if 'panic' in o:
        return '(Panic 0)'
    if 'err' in o:
        return '(Err 0)'
    return '(Ok %s)' % clist(o['line'])


def c_out_rec(o):
    if o is None or 'panic' in o:
        return '(Panic 0)'
    if 'err' in o:
        return '(Err 0)'
    return '(Ok %s)' % c_rec(dump_to_rec(o['rec']))


def c_ftab(rec, ftexts):
    bits = set()
    for a in rec['aux']:
        if a['t'] == 'f':
            bits.add(a['v'])
        elif a['t'] == 'B' and a['sub'] == 'f':
            bits.update(a['vs'])
    return '[' + '; '.join('(%d, %s)' % (b, c_bytes(ftexts[b])) for b in sorted(bits)) + ']'


def float_texts_of_line(line):
    """Texts the parser hands to strconv.ParseFloat: f fields and elements of B:f arrays."""
    out = []
    for a in line.split(b'\t')[11:]:
        if len(a) >= 6 and a[2:3] == b':' and a[4:5] == b':':
            if a[3:4] == b'f':
                out.append(a[5:])
            elif a[3:4] == b'B' and a[5:6] == b'f' and a[6:7] == b',':
                out.extend(a[7:].split(b','))
    return out


def c_ptab(lines, ptexts):
    ts = []
    seen = set()
    for ln in lines:
        for t in float_texts_of_line(ln):
            if t not in seen:
                seen.add(t)
                v = ptexts.get(t)
                ts.append('(%s, %s)' % (c_bytes(t), 'None' if v is None else '(Some %d)' % v))
    return '[' + '; '.join(ts) + ']'


# ================================================================ oracle

def strip(o):
    if isinstance(o, dict):
        return {k: strip(v) for k, v in o.items() if k != 'stack'}
    if isinstance(o, list):
        return [strip(x) for x in o]
    return o


def judge_rt(case, o, ftexts):
    """Failures (sig, what) of one round-trip case; only for valid records."""
    refs, rec = case['refs'], case['rec']
    fails = []
    if 'fmt' not in o:
        return [('rt:harness', 'no observation: %s' % str(o)[:200])]

    def ftext(bits):
        return ftexts[bits]
    for fi, fname in ((0, 'dec'), (1, 'hex')):
        m = o['fmt'][fi]
        if 'line' not in m:
            fails.append(('fmt:%s:%s' % (fname, 'panic' if 'panic' in m else 'error'),
                          'MarshalSAM failed on a valid record: %s' % (m.get('panic') or m.get('err'))))
            continue
        line = bytes(m['line'])
        flagtext = str(rec['flags']).encode() if fi == 0 else b'0x%x' % rec['flags']
        want = spec_fields(refs, rec, flagtext, ftext)
        got = line.split(b'\t')
        if got != want:
            bad = None
            for k in range(max(len(got), len(want))):
                if k >= len(got) or k >= len(want) or got[k] != want[k]:
                    bad = FIELD_NAMES[k] if k < 11 else ('AUX:' + aux_desc(rec['aux'][k - 11]) if k - 11 < len(rec['aux']) else 'AUX:extra')
                    break
            fails.append(('fmt:%s:%s' % (fname, bad), 'line differs from the SAMv1 formatter in field %s: got %r, specification %r'
                          % (bad, got[k] if k < len(got) else None, want[k] if k < len(want) else None)))
            continue
        sp = spec_parse(refs, line)
        if sp is None or diff_fields(rec, sp, view=True):
            fails.append(('fmt:%s:ambiguous:%s' % (fname, ','.join(diff_fields(rec, sp, view=True)) if sp else 'unparsable'),
                          'the line does not denote the record under an independent SAMv1 parser'))
        p = m.get('parse') or {}
        if 'rec' not in p:
            kind = 'panic' if 'panic' in p else 'err'
            fails.append(('rt:%s:parse-%s' % (fname, kind), 'UnmarshalSAM of the line MarshalSAM produced: %s' % (p.get('panic') or p.get('err')), 'shrink'))
            continue
        back = dump_to_rec(p['rec'])
        bad = diff_fields(rec, back)
        if bad:
            fails.append(('rt:%s:field:%s' % (fname, bad[0]), 'parsed record differs from the original in %s' % ','.join(bad)))
        re_key = 're' if fi == 0 else 'rehex'
        if p.get(re_key, {}).get('line') != m['line']:
            fails.append(('rt:%s:reformat' % fname, 'formatting the parsed record gives a different line: %r' % (p.get(re_key),)))
    return fails


def bam_expressible(refs, rec):
    """Records the BAM encoding can hold (SAMv1 4.2) and for which the law of bam_sam_agree is claimed."""
    if not 1 <= len(rec['name']) <= 254 or 0 in rec['name']:
        return False
    if not (-1 <= rec['pos'] < 2 ** 31 - 1 and -1 <= rec['mpos'] < 2 ** 31 - 1 and -2 ** 31 <= rec['tlen'] < 2 ** 31):
        return False
    if len(rec['cigar']) > 65535:
        return False
    if rec['ref'] < 0 and rec['pos'] != -1 or rec['mref'] < 0 and rec['mpos'] != -1:
        return False
    for a in rec['aux']:
        if a['t'] == 'Z' and 0 in a['vs']:
            return False
    return True


def judge_bam(case, o):
    refs, rec = case['refs'], case['rec']
    b = o.get('bam') or {}
    line0 = (o['fmt'][0] or {}).get('line')
    if line0 is None:
        return []
    # an H value is kept as raw bytes and written NUL-terminated: a zero byte cuts it short (known finding)
    hzero = any(a['t'] == 'H' and 0 in a['vs'] for a in rec['aux'])
    if 'line' not in b:
        kind = 'panic' if 'panic' in b else 'err'
        what = 'record does not survive bam.Writer/bam.Reader: %s' % (b.get('panic') or b.get('err'))
        return [('bam:%s:aux-H-zero-byte' % kind, what)] if hzero else [('bam:%s' % kind, what, 'shrink-bam')]
    if b['line'] != line0:
        what = 'SAM line after the BAM round trip differs: %r vs %r' % (bytes(b['line']), bytes(line0))
        return [('bam:line:aux-H-zero-byte', what)] if hzero else [('bam:line', what, 'shrink-bam')]
    return []


def split_lines_spec(data):
    """Lines of a text: LF or CRLF terminated, a non-empty unterminated last line counts."""
    parts = data.split(b'\n')
    if parts[-1] == b'':
        parts.pop()
    return [p[:-1] if p.endswith(b'\r') else p for p in parts]


def judge_reader(case, o):
    meta = case['meta']
    tag = 'reader:%s:%s:%s' % ('hdr' if case['header'] else 'nohdr', meta['eol'], 'final-newline' if meta['final'] else 'no-final-newline')
    if meta.get('long'):
        tag += ':long-line'
    if 'reads' not in o:
        return [(tag + ':newreader', 'NewReader failed: %s' % o.get('newreader_err', o))]
    reads = o['reads'] or []
    want = split_lines_spec(bytes(case['input']))
    fails = []
    for k, r in enumerate(reads):
        if r is not None and 'panic' in r:
            ln = want[k] if k < len(want) else None
            fails.append((tag + ':panic' + (':empty-line' if ln == b'' else ''), 'Read number %d panicked (%s) on line %r' % (k, r['panic'], ln)))
            return fails
    if len(reads) != len(want):
        what = 'dropped' if len(reads) < len(want) else 'extra'
        return [(tag + ':' + what, 'input has %d lines, Read returned %d results before io.EOF' % (len(want), len(reads)))]
    for k, (r, ln) in enumerate(zip(reads, want)):
        good = meta['good'][k]
        if good is None:
            continue
        if good and 'line' not in r:
            fails.append((tag + ':record-lost', 'line %d %r is a well-formed record but Read returned %s' % (k, ln, r)))
        elif good and bytes(r['line']) != meta['canon'][k]:
            fails.append((tag + ':record-differs', 'line %d: %r read back as %r' % (k, ln, bytes(r['line']))))
        elif not good and 'rec' in r:
            fails.append((tag + ':garbage-accepted', 'line %d %r is not an alignment line but a record was returned' % (k, ln)))
        if fails:
            break
    return fails


# ================================================================== driver

def aux_floats(rec):
    for a in rec['aux']:
        if a['t'] == 'f':
            yield a['v']
        elif a['t'] == 'B' and a['sub'] == 'f':
            yield from a['vs']


def shrink_rt(case, sigprefix, bam=False):
    """Smaller failing cases: same record with one aux field (or none). Returns (desc, case)."""
    rec = case['rec']
    cands = [('no-aux', dict(rec, aux=[]))] + [('aux-' + aux_desc(a), dict(rec, aux=[a])) for a in rec['aux']]
    cs = [dict(op='rt', refs=case['refs'], rec=r) for _, r in cands]
    obs = core.run_harness('c06', cs)
    for (desc, _), c, o in zip(cands, cs, obs):
        if 'fmt' not in o:
            continue
        if bam:
            fs = judge_bam(c, o)
        else:
            bits = sorted(set(aux_floats(c['rec'])))
            ft = {}
            if bits:
                fo = core.run_harness('c06', [dict(op='f32', bits=bits)])[0]
                ft = {x['bits']: bytes(x['text']) for x in fo['f']}
            fs = judge_rt(c, o, ft)
        if any(f[0].startswith(sigprefix) for f in fs):
            return desc, c, o
    return 'whole-record', case, None


LONG_TARGETS = [4094, 4095, 4096, 4097, 4098, 4099, 8191, 8192, 8193, 8194, 20000]


def gen_long_line(rng, refs, total, eol_len, variant):
    """A well-formed alignment line whose length including its terminator is exactly `total`:
    long SEQ/QUAL (variant 'seq') or a large Z aux field (variant 'aux'); bufio's buffer is 4096 bytes."""
    want = total - eol_len
    rec = gen_record(rng, refs, simple=True)
    rec['aux'] = [dict(tag=[90, 76], t='Z', vs=[])]
    if variant == 'seq':
        n = max(1, (want - 200) // 2)
        bases = [rng.choice([1, 2, 4, 8, 15]) for _ in range(n)]
        rec['seqlen'] = n
        rec['seq'] = [bases[i] << 4 | (bases[i + 1] if i + 1 < n else 0) for i in range(0, n, 2)]
        rec['qual'] = [rng.randrange(0, 94) for _ in range(n)]
        rec['cigar'] = [(n << 4) | 0]
    ln = b'\t'.join(spec_fields(refs, rec, str(rec['flags']).encode(), lambda b: b'1'))
    pad = want - len(ln)
    assert pad >= 0, (want, len(ln))
    rec['aux'][0]['vs'] = [rng.choice(b'ACGTacgt0123456789:;,. ') for _ in range(pad)]
    ln = b'\t'.join(spec_fields(refs, rec, str(rec['flags']).encode(), lambda b: b'1'))
    assert len(ln) == want and valid_record(refs, rec)
    return ln


def gen_long_reader_case(rng, total, eol, final, pos, variant, header):
    refs = gen_header(rng)
    e = {'lf': b'\n', 'crlf': b'\r\n'}[eol]
    short = []
    for _ in range(3):
        rec = gen_record(rng, refs, simple=True)
        short.append(b'\t'.join(spec_fields(refs, rec, str(rec['flags']).encode(), lambda b: b'1')))
    # the last line carries no terminator when there is no final newline
    last_unterminated = (pos == 'last' and not final)
    long_ln = gen_long_line(rng, refs, total, 0 if last_unterminated else len(e), variant)
    lines = {'first': [long_ln] + short, 'middle': short[:1] + [long_ln] + short[1:], 'last': short + [long_ln]}[pos]
    data = b''
    for j, ln in enumerate(lines):
        data += ln + (b'' if (j == len(lines) - 1 and not final) else e)
    return dict(op='reader', refs=refs, header=header, input=list(data),
                meta=dict(eol=eol, final=final, good=[True] * len(lines), canon=list(lines), long=True))


def corpus_cases():
    """Cases kept from earlier findings (corpus/C06/*.json), run first on every check."""
    import glob
    import os
    out = []
    for p in sorted(glob.glob(os.path.join(core.ROOT, 'corpus', 'C06', '*.json'))):
        try:
            d = json.load(open(p))
        except (OSError, ValueError):
            continue
        c = d.get('case', d)
        if c.get('op') in ('rt', 'reader', 'parse'):
            out.append(c)
    return out


def reader_meta(c):
    data = bytes(c['input'])
    lines = split_lines_spec(data)
    eol = 'crlf' if b'\r\n' in data and data.count(b'\r\n') == data.count(b'\n') else ('lf' if b'\r\n' not in data else 'mixed')
    return dict(eol=eol, final=data.endswith(b'\n'), good=[None] * len(lines), canon=[None] * len(lines))


def run(res, rng, tier):
    quick = tier == 'quick'
    corpus = corpus_cases()
    n_rt = 130 if quick else 4000
    n_odd = 36 if quick else 600
    n_parse = 300 if quick else 6000
    n_reader = 48 if quick else 800

    # ---- 1. round-trip cases
    rt_cases = [c for c in corpus if c['op'] == 'rt']
    n_corpus_rt = len(rt_cases)
    for k in range(n_rt + n_odd):
        refs = gen_header(rng)
        rec = gen_record(rng, refs, simple=(k % 7 == 0)) if k < n_rt else gen_odd_record(rng, refs)
        rt_cases.append(dict(op='rt', refs=refs, rec=rec))
    rt_obs = core.run_harness('c06', rt_cases, jobs=8)

    # ---- 2. float text: law parse(fmt x) = x, checked against strconv and exactly against IEEE 754
    bits = set(F32_EDGES) | {0x7fc00000, 0xffc00001, 0x7f800001}
    for c in rt_cases:
        bits.update(aux_floats(c['rec']))
    for _ in range(200 if quick else 20000):
        bits.add(gen_f32(rng, nan_ok=True))
    bits = sorted(bits)
    fobs = core.run_harness('c06', [dict(op='f32', bits=bits)])[0]
    ftexts = {}
    for x in fobs.get('f', []):
        b, txt = x['bits'], bytes(x['text'])
        ftexts[b] = txt
        res.evaluations += 1
        ok, cls = float_text_ok(b, txt)
        res.count('float/' + cls)
        res.nontrivial.add(('f32', b))
        if cls == 'nan':
            res.count('float/nan-excluded-from-law')
            continue
        if 9 in txt or 44 in txt or 10 in txt:
            res.failures.append(dict(sig='float:text-not-clean:' + cls, what='the text %r of float32 0x%08x contains a TAB, comma or newline' % (txt, b),
                                     case=dict(op='f32', bits=[b]), observed=x))
        elif x.get('back') != b:
            res.failures.append(dict(sig='float:law:' + cls, what='ParseFloat(%r, 32) = %s, not the bits 0x%08x that were formatted' % (txt, x.get('back', x.get('perr')), b),
                                     case=dict(op='f32', bits=[b]), observed=x))
        elif not ok:
            res.failures.append(dict(sig='float:value:' + cls, what='the text %r does not round to float32 0x%08x' % (txt, b),
                                     case=dict(op='f32', bits=[b]), observed=x))

    # ---- 3. parser cases: edge-case texts put into well-formed lines
    parse_cases = []
    good_lines = []
    for c, o in zip(rt_cases[:n_corpus_rt + n_rt], rt_obs):
        m = (o.get('fmt') or [{}])[0]
        if 'line' in m and valid_record(c['refs'], c['rec']):
            good_lines.append((c['refs'], bytes(m['line'])))
    if not good_lines:
        refs = gen_header(rng)
        good_lines = [(refs, b'r\t0\t*\t0\t0\t*\t*\t0\t0\t*\t*')]
    base_refs = [dict(name=list(b'chr1'), len=1000), dict(name=list(b'chr10'), len=5)]
    base = b'q1\t0\tchr1\t5\t30\t4M\t=\t9\t12\tACGT\tIIII'
    fixed = []
    for k, texts in ((1, FLAG_TEXTS), (3, INT_TEXTS), (7, INT_TEXTS), (8, INT_TEXTS), (4, MAPQ_TEXTS), (5, CIGAR_TEXTS), (9, SEQ_TEXTS), (10, QUAL_TEXTS)):
        for t in texts:
            f = base.split(b'\t')
            f[k] = t
            fixed.append(b'\t'.join(f))
    for t in AUX_TEXTS:
        fixed.append(base + b'\t' + t)
    for ct in CIGAR_TEXTS:
        fixed.append(b'\t'.join([b'q2', b'0', b'*', b'0', b'0', ct, b'*', b'0', b'0', b'*', b'*']))
    if quick:
        fixed = [t for t in fixed if rng.random() < 0.5]
    parse_cases += [c for c in corpus if c['op'] == 'parse']
    for t in fixed:
        parse_cases.append(dict(op='parse', refs=base_refs, line=list(t)))
    while len(parse_cases) < n_parse:
        refs, ln = rng.choice(good_lines)
        parse_cases.append(dict(op='parse', refs=refs, line=list(mutate_line(rng, ln, refs))))
    parse_obs = core.run_harness('c06', parse_cases, jobs=4)

    # ---- 4. reader cases
    reader_cases = [dict(c, meta=reader_meta(c)) for c in corpus if c['op'] == 'reader']
    for k in range(n_reader):
        refs = gen_header(rng)
        eol = rng.choice(['lf', 'crlf', 'mixed'])
        final = rng.random() < 0.5
        header = rng.random() < 0.7
        nl = rng.choice([1, 1, 2, 3, 5])
        lines, good, canon = [], [], []
        for j in range(nl):
            r = rng.random()
            if r < 0.72:
                rec = gen_record(rng, refs, simple=rng.random() < 0.5)
                # H fields are left out here: the specification writes upper-case digits, and this
                # part compares what is read with the line that was fed in
                rec['aux'] = [a for a in rec['aux'] if a['t'] != 'H']
                fl = spec_fields(refs, rec, str(rec['flags']).encode(), lambda b: ftexts.get(b) or b'1')
                if any(b not in ftexts for b in aux_floats(rec)):
                    rec['aux'] = []
                    fl = fl[:11]
                # lines as this library writes them (lower-case hex digits are read back as such)
                ln = b'\t'.join(fl)
                lines.append(ln)
                good.append(True)
                canon.append(ln)
            elif r < 0.86:
                lines.append(b'')
                good.append(False)
                canon.append(None)
            else:
                lines.append(rng.choice([b'garbage', b'a\tb\tc', b'\t\t\t\t\t\t\t\t\t\t', b'x\t0\t*\t0\t0\t*\t*\t0\t0']))
                good.append(False)
                canon.append(None)
        if not final and lines[-1] == b'':
            lines[-1] = b'x\t0'
        if not header and (lines[0][:1] == b'@' or lines[0] == b''):
            lines[0] = b'x\t0'
            good[0] = False
        data = b''
        for j, ln in enumerate(lines):
            e = {'lf': b'\n', 'crlf': b'\r\n'}.get(eol) or rng.choice([b'\n', b'\r\n'])
            if j == len(lines) - 1 and not final:
                e = b''
            data += ln + e
        reader_cases.append(dict(op='reader', refs=refs, header=header, input=list(data),
                                 meta=dict(eol=eol, final=final, good=good, canon=canon)))
    # lines around and above bufio's 4096-byte buffer (the model splits the whole text, so the buffer
    # boundary is an implementation detail that only these cases exercise)
    if quick:
        combos = [(t, rng.choice(['lf', 'crlf']), rng.random() < 0.5, rng.choice(['first', 'middle', 'last']),
                   rng.choice(['seq', 'aux']), rng.random() < 0.7) for t in LONG_TARGETS]
        combos += [(4097, 'lf', True, 'first', 'seq', True), (4098, 'crlf', False, 'last', 'aux', True),
                   (4096, 'crlf', True, 'middle', 'seq', False)]
    else:
        combos = [(t, e, f, p, rng.choice(['seq', 'aux']), rng.random() < 0.7)
                  for t in LONG_TARGETS + [4100, 4200, 12288, 12289] for e in ('lf', 'crlf') for f in (True, False)
                  for p in ('first', 'middle', 'last')]
    for t, e, f, p, v, hd in combos:
        reader_cases.append(gen_long_reader_case(rng, t, e, f, p, v, hd))
    reader_obs = core.run_harness('c06', [{k: v for k, v in c.items() if k != 'meta'} for c in reader_cases], jobs=4)

    # ---- 5. ParseFloat results for every text the model will hand to parse_f32
    all_lines = []
    for o in rt_obs:
        for m in (o.get('fmt') or [])[:2]:
            if 'line' in m:
                all_lines.append(bytes(m['line']))
    all_lines += [bytes(c['line']) for c in parse_cases]
    for c in reader_cases:
        all_lines += split_lines_spec(bytes(c['input']))
    texts = sorted({t for ln in all_lines for t in float_texts_of_line(ln)})
    ptexts = {}
    if texts:
        po = core.run_harness('c06', [dict(op='ftext', texts=[list(t) for t in texts])])[0]
        for t, v in zip(texts, po.get('bits', [])):
            ptexts[t] = v

    # ---- 6. judge + build the correspondence terms
    terms = []          # (case, obs, coq term)
    shrinks = {}

    def add_fail(sig, what, case, obs, expected=None):
        res.failures.append(dict(sig=sig, what=what, case={k: v for k, v in case.items() if k != 'meta'}, observed=strip(obs), expected=expected))

    for c, o in zip(rt_cases, rt_obs):
        res.evaluations += 1
        rec, refs = c['rec'], c['refs']
        valid = valid_record(refs, rec)
        res.count('rt/%s/seq%s/cigar%s/qual-%s/aux%d' % ('valid' if valid else 'odd', 'len0' if rec['seqlen'] == 0 else '+', len(rec['cigar']) and '+' or '0',
                                                        'nil' if rec['qual'] is None else ('ff' if qual_absent(rec['qual']) else 'set'), min(len(rec['aux']), 3)))
        for a in rec['aux']:
            res.count('aux/' + aux_desc(a))
        res.nontrivial.add(('rt', json.dumps(rec, sort_keys=True), json.dumps(refs)))
        if 'hang' in o or 'crash' in o or 'bad_case' in o or 'fmt' not in o:
            res.corr_bad.append(dict(case=c, obs=strip(o)))
            continue
        if valid:
            fs = judge_rt(c, o, ftexts)
            if bam_expressible(refs, rec):
                fs += judge_bam(c, o)
            for f in fs:
                sig, what = f[0], f[1]
                cc, oo = c, o
                if len(f) > 2:
                    # name the feature: look for a one-aux-field sub-record that fails the same way
                    # (a few times per run only; later ones keep the unrefined signature prefix)
                    if shrinks.get(sig, 0) < 3 and sum(shrinks.values()) < 12:
                        shrinks[sig] = shrinks.get(sig, 0) + 1
                        desc, cc, oo2 = shrink_rt(c, sig, bam=(f[2] == 'shrink-bam'))
                        oo = oo2 or o
                    else:
                        ds = sorted({'aux-' + aux_desc(a) for a in rec['aux'] if aux_desc(a).endswith(('-empty', '-zero-byte'))})
                        desc = ds[0] if len(ds) == 1 else 'unshrunk'
                    sig = sig + ':' + desc
                add_fail(sig, what, cc, oo)
        hdr = c_hdr(refs)
        ft = c_ftab(rec, ftexts)
        built = dump_to_rec(o['built'])
        # the Coq record is the one the harness really built (NewAux output decoded), not the request
        for fi in range(3):
            m = o['fmt'][fi]
            back, pt = 'None', '[]'
            if 'parse' in m:
                back = '(Some %s)' % c_out_rec(m['parse'])
                pt = c_ptab([bytes(m['line'])], ptexts)
            terms.append((c, m, 'CFmt %s %s %s %d %s %s %s' % (hdr, ft, pt, fi, c_rec(dict(rec, aux=built['aux'])), c_out_line(m), back)))
    for c, o in zip(parse_cases, parse_obs):
        res.evaluations += 1
        ln = bytes(c['line'])
        kind = 'panic' if 'panic' in o else ('err' if 'err' in o else 'ok')
        res.count('parse/' + kind)
        res.nontrivial.add(('parse', ln, json.dumps(c['refs'])))
        if 'hang' in o or 'crash' in o or 'bad_case' in o:
            res.corr_bad.append(dict(case=c, obs=strip(o)))
            continue
        terms.append((c, o, 'CParse %s %s %s %s' % (c_hdr(c['refs']), c_ptab([ln], ptexts), clist(c['line']), c_out_rec(o))))
    for c, o in zip(reader_cases, reader_obs):
        res.evaluations += 1
        meta = c['meta']
        if meta.get('long'):
            res.count('reader/long-line/maxlen=%d' % max(len(x) for x in split_lines_spec(bytes(c['input']))))
        res.count('reader/%s/%s/%s/lines%d%s' % ('hdr' if c['header'] else 'nohdr', meta['eol'], 'final-nl' if meta['final'] else 'no-final-nl',
                                                 len(meta['good']), '/has-empty' if b'' in split_lines_spec(bytes(c['input'])) else ''))
        res.nontrivial.add(('reader', bytes(c['input']), c['header']))
        if 'hang' in o or 'crash' in o or 'bad_case' in o:
            res.corr_bad.append(dict(case={k: v for k, v in c.items() if k != 'meta'}, obs=strip(o)))
            continue
        for f in judge_reader(c, o):
            add_fail(f[0], f[1], c, o, expected=dict(lines=[list(x) for x in split_lines_spec(bytes(c['input']))]))
        if c['header'] and 'reads' in o and len(c['input']) <= 3000:   # long inputs: implementation + oracle only
            lines = split_lines_spec(bytes(c['input']))
            outs = '[' + '; '.join(c_out_rec(r) for r in (o['reads'] or [])) + ']'
            terms.append(({k: v for k, v in c.items() if k != 'meta'}, o,
                          'CRead %s %s %s %s' % (c_hdr(c['refs']), c_ptab(lines, ptexts), clist(c['input']), outs)))

    bad, err = core.coq_mismatches(HEADER, 'c06case', 'c06_agree', [t[2] for t in terms], 'c06', shard=200, jobs=6)
    if err:
        res.corr_bad.append(dict(error=err))
    for i in bad:
        c, o, t = terms[i]
        res.corr_bad.append(dict(case=c, obs=strip(o), coq_case=t[:4000],
                                 note='Coq model (Model/SamText.v) and implementation disagree on this case'))
    res.extra['correspondence_terms'] = len(terms)
    res.extra['traces_validated_against_impl'] = len(terms)
    res.rule = ('records generated over: 1-4 references with near-duplicate names, ref/mate nil/same/different, positions incl. -1 and 2^31-2, '
                'sequence lengths 0..33 over all 16 nucleotide codes, CIGARs consistent with the sequence (clips, all operations, lengths up to 2^28-1), '
                'quality nil / all 0xff / 0..93 / arbitrary bytes, 0-5 aux fields over all 11 types with boundary integers, float boundary classes, empty and '
                'non-empty Z/H/B; records outside the valid class (length mismatches, short Seq, unknown CIGAR ops, TAB in name); lines with one field replaced '
                'by an edge-case text (base-0 integer syntax, signs, CIGAR without letter, aux of every malformed shape); reader inputs with LF/CRLF/mixed '
                'line ends, with and without final newline, empty and garbage lines, with and without header; reader inputs with one line of 4094..4099, 8191..8194 and 20000 bytes '
                '(long SEQ/QUAL or a large Z field; first, middle or last, followed by short lines). A case is distinct by its full content; '
                'all are non-trivial (each runs MarshalSAM/UnmarshalSAM/Reader.Read on a full line).')
    picks = [(rt_cases[0], rt_obs[0]), (parse_cases[0], parse_obs[0]), (parse_cases[-1], parse_obs[-1]),
             ({k: v for k, v in reader_cases[0].items() if k != 'meta'}, reader_obs[0])]
    res.samples = [dict(case=c, observed=strip(o)) for c, o in picks]
    res.trusted = TRUSTED
    res.assumptions = ASSUME


def replay(res, rp):
    c = rp.get('case')
    if not c:
        print(json.dumps(rp, indent=1)[:4000])
        return 0
    o = core.run_harness('c06', [c])[0]
    print('case     :', json.dumps(c)[:3000])
    if c.get('op') == 'rt':
        for fi, nm in ((0, 'decimal'), (1, 'hex')):
            m = (o.get('fmt') or [{}, {}])[fi]
            print('%-9s:' % nm, bytes(m['line']) if 'line' in m else m)
            print('  parse  :', {k: v for k, v in (m.get('parse') or {}).items() if k in ('err', 'panic')} or 'ok')
        b = o.get('bam') or {}
        print('bam      :', bytes(b['line']) if 'line' in b else b)
        bits = sorted(set(aux_floats(c['rec'])))
        ft = {}
        if bits:
            fo = core.run_harness('c06', [dict(op='f32', bits=bits)])[0]
            ft = {x['bits']: bytes(x['text']) for x in fo['f']}
        fs = judge_rt(c, o, ft) + (judge_bam(c, o) if bam_expressible(c['refs'], c['rec']) else [])
    elif c.get('op') == 'reader':
        print('input    :', bytes(c['input']))
        print('observed :', json.dumps(strip(o))[:3000])
        lines = split_lines_spec(bytes(c['input']))
        cc = dict(c, meta=dict(eol='?', final=bytes(c['input']).endswith(b'\n'), good=[None] * len(lines), canon=[None] * len(lines)))
        fs = judge_reader(cc, o)
    elif c.get('op') == 'f32':
        print('observed :', o)
        x = o['f'][0]
        ok, cls = float_text_ok(x['bits'], bytes(x['text']))
        fs = [] if cls == 'nan' or (ok and x.get('back') == x['bits']) else [('float', 'law fails')]
    else:
        print('observed :', json.dumps(strip(o))[:3000])
        fs = [('parse:panic', o['panic'])] if 'panic' in o else []
    print('oracle   :', fs or 'no violation')
    return 1 if fs else 0


TRUSTED = [
    'Coq 8.16.1 kernel (coqc); vm_compute used for case evaluation only',
    'hand-written model coq/Model/SamText.v of MarshalSAM/UnmarshalSAM/ParseAux/ParseCigar/IsValid/Reader.Read (tables and format strings regenerated from the Go source by gen/emit_samtext.go); validated on every run against the implementation on generated records, edge-case lines and reader inputs',
    'model of fmt.Sprintf (verbs %s %v %d %c %x %02x on strings, integers, bytes, Stringers) and of strconv.ParseUint/ParseInt/Atoi (base 0 prefixes and underscores) written from the Go library source',
    'Python glue lib/c06.py: decoding of raw sam.Aux bytes into typed values, serialisation of cases into Coq terms',
    'Go int (64 bit) is modelled as unbounded Z with the int64 range check of strconv made explicit',
]
ASSUME = [
    'float32 text: strconv formatting/parsing enter as variables fmt_f32/parse_f32 with the laws parse_f32 (fmt_f32 x) = Some x and "the text has no TAB or comma" for non-NaN x (premises of sam_roundtrip); both are validated on every run against strconv and exactly against IEEE 754 on all boundary classes (NaN excluded: its payload is not carried by the text)',
    'references of a record are references of the header (pointer equality = index equality); header names are pairwise distinct, non-empty, not "*" or "=" and free of TAB (invariant owned by C07)',
    'bam_sam_agree is stated over an abstract BAM codec with its round-trip law as hypothesis (the BAM codec is property C05); the harness checks the agreement on the real bam.Writer/bam.Reader',
]

CLAIM = dict(
    text='Machine-checked proof (Coq 8.16.1) about a model of sam.Record.MarshalSAM/UnmarshalSAM, ParseAux, ParseCigar, Cigar.IsValid and sam.Reader.Read that follows the Go code '
         '(tables and format strings regenerated from the source on every run): for every record expressible in SAM text (all fields, all eleven aux types), parse(format(r)) succeeds, re-formats to the same line and is '
         'field-wise equal (decimal and hex flags; float text law as premise); the line equals a formatter written from SAMv1 1.4/1.5; formatting is invariant under the BAM view equivalence; the reader returns '
         'exactly one result per input line (LF/CRLF, unterminated last line, empty lines without panic). The model is run against the implementation on generated cases inside coqc.',
    note='Trusted: Coq kernel; the hand-written model incl. its fmt/strconv subset; Python glue. float32 text is a Section hypothesis validated against strconv and IEEE 754 on every run. '
         'The BAM codec is abstract (law as hypothesis); no-header reader mode is checked by the oracle only.',
    technique='Coq proof over a hand-written executable model + vm_compute correspondence + independent SAMv1 formatter/parser oracle',
    design='6/C06')
