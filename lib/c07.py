"""C07: SAM/BAM header serialisation round trips and identity invariants under edits."""
import base64
import glob
import json
import os
import struct

import core
import c07gen
from core import cz

PROPS = 'Props/C07.v'
HEADER = 'From Coq Require Import String.\nFrom Hts Require Import Base.Prim Model.Header Model.HeaderRun.\nOpen Scope Z_scope.\nOpen Scope string_scope.'
CORPUS = os.path.join(core.ROOT, 'corpus', 'C07')


# ------------------------------------------------------------- Coq terms

def cs(s):
    """A byte string as a Coq term: (L "...") with ~hh escapes, decoded in Coq."""
    if isinstance(s, str):
        s = s.encode('latin-1')
    out = []
    for b in s:
        if 32 <= b <= 126 and b not in (34, 126):
            out.append(chr(b))
        else:
            out.append('~%02x' % b)
    return '(L "%s")' % ''.join(out)


def clist(xs, f):
    return '[' + '; '.join(f(x) for x in xs) + ']'


def dt_table():
    """raw DT value -> canonical form (None: rejected); closed under canonicalisation,
    so that text the library printed can be read back by the model"""
    t = [(d, c07gen.parse_dt(d)) for d in c07gen.DT_RAW]
    canon = sorted({c for _, c in t if c} | {c07gen.canon_api_date(d) for d in c07gen.API_DATES if d})
    have = {d for d, _ in t}
    return t + [(c, c07gen.parse_dt(c)) for c in canon if c not in have]


def ur_table():
    t = list(c07gen.URI_RAW)
    have = {u for u, _ in t}
    canon = sorted({c for _, c in t if c} | {u for u in c07gen.URIS if u})
    return t + [(c, c) for c in canon if c not in have]


def coq_op(o):
    k = o['op']
    g = lambda f: cs(o.get(f, '') or '')
    if k == 'newref':
        md5 = bytes.fromhex(o.get('md5', '') or '')
        return '(ONewRef %s %s %s %s %s %s)' % (cs(o['name']), cz(o['len']), cs(md5), g('as'), g('sp'), g('uri'))
    if k == 'newrg':
        dt = c07gen.canon_api_date(o.get('dt', '') or '')
        return '(ONewRG %s %s %s %s %s %s %s %s %s %s %s %s)' % (
            cs(o['name']), g('cn'), g('ds'), g('lb'), g('pg'), g('pl'), g('pu'), g('sm'), g('fo'), g('ks'),
            cs(dt or ''), cz(o.get('pi', 0)))
    if k == 'newpg':
        return '(ONewPG %s %s %s %s %s)' % (cs(o['name']), g('pn'), g('cl'), g('pp'), g('vn'))
    if k in ('cloneref', 'clonerg', 'clonepg'):
        return '(%s %s)' % ({'cloneref': 'OCloneRef', 'clonerg': 'OCloneRG', 'clonepg': 'OClonePG'}[k], cz(o['r']))
    if k == 'newhdr':
        t = 'None' if o.get('text') is None else '(Some %s)' % cs(o['text'])
        return '(ONewHdr %s %s)' % (t, clist(o.get('rs', []), cz))
    if k == 'sethd':
        return '(OSetHD %s %s %s %s)' % (cz(o['h']), g('vn'), cz(o['so']), cz(o['go']))
    if k == 'addco':
        return '(OAddCo %s %s)' % (cz(o['h']), g('text'))
    if k in ('addref', 'rmref', 'addrg', 'rmrg', 'addpg', 'rmpg'):
        c = {'addref': 'OAddRef', 'rmref': 'ORmRef', 'addrg': 'OAddRG', 'rmrg': 'ORmRG', 'addpg': 'OAddPG', 'rmpg': 'ORmPG'}[k]
        return '(%s %s %s)' % (c, cz(o['h']), cz(o['r']))
    if k in ('setname', 'setrgname', 'setuid'):
        c = {'setname': 'OSetName', 'setrgname': 'OSetRGName', 'setuid': 'OSetUID'}[k]
        return '(%s %s %s)' % (c, cz(o['r']), cs(o['name']))
    if k == 'clone':
        return '(OClone %s)' % cz(o['h'])
    if k == 'decode':
        return '(ODecode %s)' % cz(o['h'])
    if k == 'unmarshal':
        return '(OUnmarshal %s %s)' % (cz(o['h']), g('text'))
    if k == 'merge':
        return '(OMerge %s)' % clist(o['hs'], cz)
    raise ValueError(k)


def coq_snap(s, with_bin):
    if s.get('alias', -1) >= 0:
        return '(SAlias %s)' % cz(s['alias'])
    refs = clist(s['refs'], lambda r: '(%s, %s, %s, %s)' % (cz(r[0]), cs(r[1]), cz(r[2]), cz(r[3])))
    rgs = clist(s['rgs'], lambda r: '(%s, %s, %s)' % (cz(r[0]), cs(r[1]), cz(r[2])))
    pgs = clist(s['pgs'], lambda r: '(%s, %s, %s)' % (cz(r[0]), cs(r[1]), cz(r[2])))
    seen = lambda l: clist(l, lambda r: '(%s, %s)' % (cs(r[0]), cz(r[1])))
    b = '(Some %s)' % cs(base64.b64decode(s['bin'])) if with_bin else 'None'
    return '(SSnap %s %s %s %s %s %s %s %s)' % (cs(s['text']), b, refs, rgs, pgs, seen(s['seenr']), seen(s['seeng']), seen(s['seenp']))


def coq_case(c, o):
    """(tables, [(op, observation)]) — an observation lists only the headers whose
    snapshot changed in that step (all of them, with binaries, at the last step)."""
    steps = o['steps']
    items = []
    prev = []
    for k, st in enumerate(steps):
        last = k == len(steps) - 1
        if st.get('panic'):
            items.append('(%s, OPanic)' % coq_op(c['ops'][k]))
            break
        H = st.get('H') or []
        ch = []
        for i, s in enumerate(H):
            if last or i >= len(prev) or prev[i] != s:
                ch.append('(%s, %s)' % (cz(i), coq_snap(s, last)))
        prev = H
        links = 'None'
        if st.get('links') is not None:
            links = '(Some %s)' % clist(st['links'], lambda row: clist(row, lambda r: '(%s, %s, %s, %s)' % (cz(r[0]), cz(r[1]), cs(r[2]), cz(r[3]))))
        items.append('(%s, OStep %s %s %s %s)' % (coq_op(c['ops'][k]), cz(st['e']), clist(st['n'], cz), clist(ch, lambda x: x), links))
    return '(c07_dts, c07_urs, %s)' % clist(items, lambda x: x)


def coq_header():
    dts = clist(dt_table(), lambda p: '(%s, %s)' % (cs(p[0]), 'None' if p[1] is None else '(Some %s)' % cs(p[1])))
    urs = clist(ur_table(), lambda p: '(%s, %s)' % (cs(p[0]), 'None' if p[1] is None else '(Some %s)' % cs(p[1])))
    return HEADER + '\nDefinition c07_dts : table := %s.\nDefinition c07_urs : table := %s.' % (dts, urs)


# ----------------------------------------------------------------- oracle

def spec_binary(text, refs):
    """BAM header block per SAM specification section 4.2."""
    b = b'BAM\x01' + struct.pack('<i', len(text)) + text + struct.pack('<i', len(refs))
    for _id, name, ln, _own in refs:
        nb = name.encode('latin-1') + b'\x00'
        b += struct.pack('<i', len(nb)) + nb + struct.pack('<i', ln)
    return b


def judge(c, o):
    """[(sig, what, step)] for one history."""
    out = []
    if 'steps' not in o:
        return [('harness:' + ('hang' if 'hang' in o else 'crash'), json.dumps(o)[:300], 0)]
    for k, st in enumerate(o['steps']):
        op = c['ops'][k]['op']
        if st.get('panic'):
            out.append(('panic:%s' % op, 'operation panicked: ' + st['panic'], k))
            break
        for v in st.get('viol', []):
            out.append(('%s:%s' % (v.split()[0], op), v, k))
        for i, s in enumerate(st.get('H') or []):
            if s.get('alias', -1) >= 0:
                continue
            want = spec_binary(s['text'].encode('latin-1'), s['refs'])
            if base64.b64decode(s['bin']) != want:
                out.append(('binary-layout:%s' % op, 'h%d binary is not the BAM header block of its text and references' % i, k))
        for row in st.get('links') or []:
            for r in row:
                if r[0] != 1 or r[2] != r[4] or r[3] != r[5]:
                    out.append(('merge-links:%s' % op, 'source reference %r (len %d) linked to %r (len %d, id %d, owned and listed: %d)' % (r[4], r[5], r[2], r[3], r[1], r[0]), k))
        if out:
            break
    return out


def run_one(ops):
    return core.run_harness('c07', [dict(ops=ops)], case_timeout='20s')[0]


def shrink(ops, sig):
    """Greedy: drop operations while the same signature is still reported."""
    def fails(xs):
        o = run_one(xs)
        return any(s == sig for s, _, _ in judge(dict(ops=xs), o))
    cur = list(ops)
    budget = 120
    i = len(cur) - 2
    while i >= 0 and budget > 0:
        cand = cur[:i] + cur[i + 1:]
        budget -= 1
        if fails(cand):
            cur = cand
        i -= 1
    return cur


def check_tables(res):
    """The tables given to the model for the opaque libraries are what the
    libraries do (time parsing/formatting through the @RG parser, URL
    normalisation through the @SQ parser), and formatting is stable."""
    qs = ['dt:' + d for d, _ in dt_table()] + ['ur:' + u for u, _ in ur_table()]
    o = core.run_harness('c07', [dict(lib=qs)])[0]
    got = o.get('lib', [])
    want = [('error' if c is None else 'ok:' + c) for _, c in dt_table()] + \
           [('error' if c is None else 'ok:' + c) for _, c in ur_table()]
    for q, g, w in zip(qs, got, want):
        res.evaluations += 1
        if g != w:
            res.failures.append(dict(sig='table:' + q[:2], what='library answer %r for %r, the model is given %r' % (g, q, w), case=dict(lib=[q]), observed=g, expected=w))
    # law fmt (parse (fmt x)) = fmt x on every canonical value
    canon = sorted({c for _, c in dt_table() if c} | {c07gen.canon_api_date(d) for d in c07gen.API_DATES if d})
    ucanon = sorted({c for _, c in ur_table() if c} | {u for u in c07gen.URIS if u})
    qs2 = ['dt:' + c for c in canon] + ['ur:' + u for u in ucanon]
    o2 = core.run_harness('c07', [dict(lib=qs2)])[0]
    for q, g in zip(qs2, o2.get('lib', [])):
        res.evaluations += 1
        if g != 'ok:' + q[3:]:
            res.failures.append(dict(sig='law:' + q[:2], what='canonical value %r is not a fixed point of parse/format: %r' % (q[3:], g), case=dict(lib=[q]), observed=g, expected='ok:' + q[3:]))


def nontrivial(c, o):
    """A history is non-trivial when at least 3 of its operations changed some header."""
    n = 0
    prev = None
    for st in o.get('steps', []):
        if st.get('H') is not None and st['H'] != prev:
            n += 1
        prev = st.get('H')
    return n >= 3


def run(res, rng, tier):
    nhist, maxops = (120, 30) if tier == "quick" else (1500, 300)
    cases = []
    for p in sorted(glob.glob(os.path.join(CORPUS, '*.json'))):
        cases.append(dict(ops=json.load(open(p))['ops'], corpus=os.path.basename(p)))
    ncorpus = len(cases)
    for i in range(nhist):
        m = maxops if (tier == 'quick' or i % 10 == 0) else 40
        cases.append(dict(ops=c07gen.gen_history(rng, m)))
    check_tables(res)
    obs = core.run_harness('c07', [dict(ops=c['ops']) for c in cases], jobs=8, case_timeout='60s')
    terms = []
    seen_sigs = set()
    for c, o in zip(cases, obs):
        res.evaluations += 1
        steps = o.get('steps', [])
        for k, st in enumerate(steps):
            res.count('%s/%s' % (c['ops'][k]['op'], {0: 'ok', -1: 'skipped', -2: 'panic'}.get(st['e'], 'error')))
        if nontrivial(c, o):
            res.nontrivial.add(json.dumps(c['ops'], sort_keys=True))
        for sig, what, k in judge(c, o):
            f = dict(sig=sig, what=what, case=dict(ops=c['ops'][:k + 1]), observed=dict(step=k, result={x: y for x, y in steps[k].items() if x != 'H'} if steps else o))
            if sig not in seen_sigs and not sig.startswith('harness:'):
                seen_sigs.add(sig)
                small = shrink(c['ops'][:k + 1], sig)
                f['shrunk_from'] = f['case']
                f['case'] = dict(ops=small)
            res.failures.append(f)
        if 'steps' in o:
            terms.append((c, o))
    if MODEL:
        tms = [coq_case(c, o) for c, o in terms]
        bad, err = core.coq_mismatches(coq_header(), 'c07case', 'c07_agree', tms, 'c07', shard=45 if tier == "quick" else 60)
        if err:
            res.corr_bad.append(dict(error=err))
        for i in bad:
            c, o = terms[i]
            res.corr_bad.append(dict(case=dict(ops=c['ops']), obs='model and implementation disagree on this history (rerun with --replay to see the step)',
                                     note='Model/Header.v no longer follows sam/header.go, parse_header.go, reference.go'))
    res.rule = ('random edit histories (%d, up to %d operations each, plus %d corpus histories) over 4 names, 2 lengths, 2 checksums and 3 URIs so that collisions are frequent: '
                'New*/Clone of items, NewHeader (from items or text), field edits, Add/Remove/SetName for references, read groups and programs, Header.Clone, MergeHeaders of 1-3 headers, '
                'UnmarshalText of 1-4 generated lines (well formed, duplicate, truncated and malformed fields), binary decode; '
                'a history counts as non-trivial when at least 3 of its operations changed some header; histories are distinct by their operation lists' % (nhist, maxops, ncorpus))
    res.samples = [dict(case=c['ops'][:8], observed=[dict(e=s['e'], n=s['n']) for s in o.get('steps', [])[:8]]) for c, o in list(zip(cases, obs))[ncorpus:ncorpus + 3]]
    res.extra['traces_validated_against_impl'] = len(terms) if MODEL else 0
    res.extra['operations_run'] = sum(len(o.get('steps', [])) for o in obs)
    res.trusted = TRUSTED
    res.assumptions = ASSUME


MODEL = os.path.exists(os.path.join(core.COQ, 'Model', 'HeaderRun.v'))


def replay(res, rp):
    c = rp.get('case')
    if not c and rp.get('correspondence'):
        c = rp['correspondence'][0].get('case')
    if not c or 'ops' not in c:
        print(json.dumps(rp, indent=1)[:4000])
        return 0
    o = run_one(c['ops'])
    bad = judge(c, o)
    for k, st in enumerate(o.get('steps', [])):
        print('step %2d %-10s e=%s n=%s %s' % (k, c['ops'][k]['op'], st['e'], st['n'], json.dumps(c['ops'][k])))
        for v in st.get('viol', []):
            print('         oracle:', v)
        if st.get('panic'):
            print('         panic :', st['panic'])
    print('oracle   :', bad)
    if MODEL and 'steps' in o:
        r, err = core.coq_eval(coq_header(), ['c07_first_bad %s' % coq_case(c, o)], 'c07r')
        print('model    : first step where model and implementation differ =', r[0] if r else err[-1500:])
    return 1 if bad else 0


TRUSTED = [
    'Coq 8.16.1 kernel (coqc); vm_compute used for case evaluation only',
    'hand-written model coq/Model/Header.v of sam/header.go, parse_header.go, reference.go, read_group.go, program.go; run against the implementation on every history (error class, identity fields, name tables, text after every operation; binary at the end)',
    'harness/c07.go observes private identity fields through the add-only hooks sam/verif_hooks_c07.go',
]
ASSUME = [
    'time parsing/formatting and URL parsing are opaque functions with the law fmt (parse (fmt x)) = fmt x; the tables used when running the model are written from ISO 8601 / the documented normalisation and compared with the libraries on every run',
    'strings given to the API contain no TAB/LF/CR (comments: no LF/CR) and item tags are unique per item, as the SAM format requires',
    'a header with any @HD field has a version (the format has nowhere else to store the fields)',
    'Go maps are modelled as association lists; int32 ids never overflow (fewer than 2^31 items)',
]

CLAIM = dict(
    text='Machine-checked proof (Coq 8.16.1, no axioms) about a hand-written model of the SAM header code (items with identity in stores, name tables, '
         'the five line parsers with checked indexing, text and binary codecs): for EVERY history of New*/Clone/NewHeader/Add*/Remove*/SetName/SetUID/Header.Clone/'
         'MergeHeaders/UnmarshalText/DecodeBinary operations (error results included, any date/URI parser) every operation returns without panic and the identity '
         'invariant HInv holds afterwards (ids = indices, owner = header, names pairwise distinct, name table exact, unlisted items released); MergeHeaders links '
         'every source reference to an owned, listed reference of the same name and length. The model is run step by step against the implementation on random '
         'edit histories on every run, and an independent oracle checks the invariants and the text/binary round trips on the real objects. '
         'Text and binary round trips are proved in full for every header of an HInv world whose values are printable (WFH: no TAB/LF/CR in values, ranges, canonical dates/URIs, distinct non-standard tags): '
         'NewHeader(MarshalText h) and DecodeBinary(EncodeBinary h) succeed and expose the same values, text and bytes (incl. non-standard @SQ tags); '
         'wfh_preserved: every history with clean arguments (clean_op) keeps every header printable, so both round trips hold for every header built through the API (binary decode as a history step excepted).',
    note='Trusted: Coq kernel; the hand model (tied to the code by correspondence runs only); opaque time/URL functions (tables validated against the libraries on every run); '
         'Go maps as association lists; sort.Sort on tag pairs as insertion sort (tags unique per item). 13 defects found and repaired in the library (see design/C07.md).',
    technique='Coq proof over hand model (invariant by induction over histories) + vm_compute correspondence on edit histories + invariant/round-trip oracle on the real objects',
    design='6/C07')
