"""C07 case generator: random edit histories over small name alphabets, and the
independent tables for the libraries the model treats as opaque (ISO 8601
dates accepted by the SAM header parser, URI normalisation)."""
import datetime
import re

NAMES = ['A', 'B', 'C', 'D']
LENS = [10, 20]
MD5S = ['', '', '00112233445566778899aabbccddeeff', 'ffeeddccbbaa99887766554433221100']
SMALL = ['', '', 'x', 'y', 'p q ']
# canonical URIs (fixed points of the header parser's normalisation)
URIS = ['', '', '', 'http://h/p', 'ftp://h/q', 'file:///d/f']
# URI field values for text lines: (raw, canonical or None when the line is an error)
URI_RAW = [('http://h/p', 'http://h/p'), ('ftp://h/q', 'ftp://h/q'), ('file:///d/f', 'file:///d/f'),
           ('/d/f', 'file:///d/f'), ('d/f', 'file://d/f'), ('https://h/p', 'file://h/p'),
           ('%zz', None), (':x', None), ('', 'file:')]
# API dates (RFC 3339) and their canonical SAM form
API_DATES = ['', '', '2014-08-13T16:02:01Z', '2014-08-13T16:02:01+05:30', '1999-12-31T23:59:59-08:00']


def canon_api_date(s):
    if s == '':
        return None
    m = re.match(r'^(\d{4}-\d\d-\d\dT\d\d:\d\d:\d\d)(Z|[+-]\d\d:\d\d)$', s)
    z = m.group(2)
    return m.group(1) + ('+0000' if z == 'Z' else z.replace(':', ''))


# ---- ISO 8601 forms the SAM header parser accepts (written from the list of
# layouts in the SAM specification section 1.3 "DT" / ISO 8601; local = UTC) ----

def _valid(y, mo, d, h=0, mi=0, s=0):
    try:
        datetime.datetime(int(y), int(mo), int(d), int(h), int(mi), int(s))
        return int(y) >= 1
    except ValueError:
        return False


def parse_dt(raw):
    """Canonical 'YYYY-MM-DDTHH:MM:SS+hhmm' or None when not accepted."""
    v = raw.replace(':', '')
    m = re.match(r'^(\d{4})(-?)(\d\d)\2(\d\d)$', v)
    if m:
        y, _, mo, d = m.groups()
        if not _valid(y, mo, d):
            return None
        return '%s-%s-%sT00:00:00+0000' % (y, mo, d)
    m = re.match(r'^(\d{4})(-?)(\d\d)\2(\d\d)T(\d\d)(\d\d)(\d\d)([.,]\d+)?(Z|[+-]\d{4})?$', v)
    if m:
        y, _, mo, d, h, mi, s, frac, z = m.groups()
        if not _valid(y, mo, d, h, mi, s):
            return None
        if z is None:
            z = '+0000'
        elif z == 'Z':
            z = '+0000'
        else:
            if int(z[1:3]) > 23 or int(z[3:5]) > 59:
                return None
        return '%s-%s-%sT%s:%s:%s%s' % (y, mo, d, h, mi, s, z)
    return None


DT_RAW = ['2014-08-13', '20140813', '2014-08-13T16:02:01Z', '20140813T160201Z', '2014-08-13T16:02:01',
          '20140813T160201', '2014-08-13T16:02:01+00:00', '2014-08-13T16:02:01.000+00:00',
          '2014-08-13T16:02:01.123Z', '20140813T160201.5+0530', '2014-08-13T16:02:01-0800',
          '2014-08-13T16:02:01+0000', '2014-02-30', '2014-13-01T00:00:00Z', 'yesterday', '', '2014-08-13T25:00:00Z',
          '2014-08-13 16:02:01', '2014-08-13T16:02Z']

ATOI_RAW = ['10', '20', '1', '0', '-5', '+7', '007', '2147483647', '2147483648', '-2147483648', '-2147483649',
            '9223372036854775807', '9223372036854775808', '99999999999999999999', 'abc', '', '1x', '-', '+', '1_0', ' 1']


def atoi(s):
    """strconv.Atoi as documented: optional sign, decimal digits, int64 range."""
    if not re.match(r'^[+-]?[0-9]+$', s):
        return None
    v = int(s)
    if v < -(1 << 63) or v > (1 << 63) - 1:
        return None
    return v


HEX_RAW = ['00112233445566778899aabbccddeeff', 'FFEEDDCCBBAA99887766554433221100', '0011', '', '0',
           '00112233445566778899aabbccddeef', '00112233445566778899aabbccddeeff00', '00112233445566778899aabbccddeeffzz',
           'zz112233445566778899aabbccddeeff', '00112233445566778899aabbccddeeff0', '0g']


def tagval(rng, pool):
    return rng.choice(pool)


def gen_field(rng, kind):
    """One TAB-separated field of a header line (mostly well formed)."""
    x = rng.random()
    if x < 0.04:
        return rng.choice(['VN', 'S', '', 'SN', 'ab', 'SNxA', 'LN-5', 'ID', 'I:', ':::x'])
    if kind == 'HD':
        t = rng.choice(['VN', 'VN', 'SO', 'GO', 'XX', 'ab'])
        if t == 'VN':
            return 'VN:' + rng.choice(['1.5', '1.0', ''])
        if t == 'SO':
            return 'SO:' + rng.choice(['unknown', 'unsorted', 'queryname', 'coordinate', 'bogus', ''])
        if t == 'GO':
            return 'GO:' + rng.choice(['none', 'query', 'reference', 'bogus'])
        return t + ':' + rng.choice(SMALL)
    if kind == 'SQ':
        t = rng.choice(['SN', 'SN', 'LN', 'LN', 'AS', 'M5', 'SP', 'UR', 'XA', 'XB', 'ab'])
        if t == 'SN':
            return 'SN:' + rng.choice(NAMES + ['', '*'])
        if t == 'LN':
            return 'LN:' + (rng.choice(['10', '20']) if rng.random() < 0.8 else rng.choice(ATOI_RAW))
        if t == 'M5':
            return 'M5:' + (rng.choice(HEX_RAW[:2]) if rng.random() < 0.5 else rng.choice(HEX_RAW))
        if t == 'UR':
            return 'UR:' + rng.choice(URI_RAW)[0]
        return t + ':' + rng.choice(SMALL)
    if kind == 'RG':
        t = rng.choice(['ID', 'ID', 'ID', 'CN', 'DS', 'DT', 'FO', 'KS', 'LB', 'PG', 'PI', 'PL', 'PU', 'SM', 'XA', 'ab'])
        if t == 'ID':
            return 'ID:' + rng.choice(NAMES + [''])
        if t == 'DT':
            return 'DT:' + rng.choice(DT_RAW)
        if t == 'PI':
            return 'PI:' + rng.choice(ATOI_RAW)
        if t in ('FO', 'KS') and rng.random() < 0.5:
            return t + ':' + rng.choice(['*', '*', 'TACG', 'ACMGRSVTWYHKDBN'])
        return t + ':' + rng.choice(SMALL)
    if kind == 'PG':
        t = rng.choice(['ID', 'ID', 'ID', 'PN', 'CL', 'PP', 'VN', 'XA', 'ab'])
        if t == 'ID':
            return 'ID:' + rng.choice(NAMES + [''])
        return t + ':' + rng.choice(SMALL)
    return rng.choice(['hello', '', 'a b', 'x:y'])


# @SQ lines with several non-standard tags in non-alphabetical order (as samtools writes TP/AN): a small fixed
# pool, so that identical lines are repeated within a text, across headers that are merged later, and against
# equal references added through the API; comparing two such references must leave both as they are
TAGGED_SQ = ['@SQ\tSN:%s\tLN:10\t%s' % (nm, tg) for nm in NAMES[:3]
             for tg in ('XB:y\tXA:x', 'TP:linear\tAN:one\tab:p', 'zz:1\tXA:x\tMM:2')]


def gen_line(rng):
    x = rng.random()
    if x > 0.88:
        return rng.choice(TAGGED_SQ)
    if x < 0.03:
        return rng.choice(['', '@', '@S', 'SQ\tSN:A\tLN:10', '@XX\tab:c', '@CO', '@SQ', '@HD', '@RG', '@PG', '@SQ\tSN:A',
                           '@CO\t', '@HD\tVN', '@SQ\tSN:A\tL', '@RG\tI', '@PG\tID'])
    kind = rng.choice(['HD', 'SQ', 'SQ', 'SQ', 'SQ', 'RG', 'RG', 'PG', 'PG', 'CO'])
    if kind == 'CO':
        n = rng.choice([1, 1, 1, 2, 3])
        return '@CO\t' + '\t'.join(gen_field(rng, 'CO') for _ in range(n))
    if kind == 'SQ':
        fs = ['SN:' + rng.choice(NAMES), 'LN:' + rng.choice(['10', '20'])]
        if rng.random() < 0.15:
            fs = fs[:1] if rng.random() < 0.5 else []
        fs += [gen_field(rng, 'SQ') for _ in range(rng.choice([0, 0, 1, 1, 2]))]
        if rng.random() < 0.1:
            rng.shuffle(fs)
    elif kind == 'HD':
        fs = ['VN:1.5'] if rng.random() < 0.8 else []
        fs += [gen_field(rng, 'HD') for _ in range(rng.choice([0, 1, 1, 2]))]
    else:
        fs = ['ID:' + rng.choice(NAMES)] if rng.random() < 0.9 else []
        fs += [gen_field(rng, kind) for _ in range(rng.choice([0, 0, 1, 2, 3]))]
    l = '@' + kind + ''.join('\t' + f for f in fs)
    if rng.random() < 0.05:
        l += '\r'
    return l


def gen_text(rng, maxlines=4):
    n = rng.choice([1, 1, 1, 2, 2, 3, maxlines])
    t = '\n'.join(gen_line(rng) for _ in range(n))
    if rng.random() < 0.8:
        t += '\n'
    return t


def gen_history(rng, maxops):
    """A list of operations. Handles are chosen against optimistic counts of
    what exists; an operation naming a missing handle is skipped by both sides."""
    ops = []
    nh = nr = ng = np_ = 0
    n = rng.randrange(max(3, maxops // 3), maxops + 1)
    style = rng.random()

    def pick(k):
        # handles are taken modulo the number of existing objects; negative = most recent ones
        return rng.randrange(0, 12) if rng.random() < 0.6 else -1 - rng.randrange(3)

    def newref():
        return dict(op='newref', name=rng.choice(NAMES), len=rng.choice(LENS), md5=rng.choice(MD5S),
                    **{'as': rng.choice(SMALL)}, sp=rng.choice(SMALL), uri=rng.choice(URIS))

    def newrg():
        d = dict(op='newrg', name=rng.choice(NAMES), dt=rng.choice(API_DATES), pi=rng.choice([0, 0, 300, -1]))
        for k in ('cn', 'ds', 'lb', 'pg', 'pl', 'pu', 'sm', 'fo', 'ks'):
            d[k] = rng.choice(SMALL)
        if rng.random() < 0.3:
            # values the specification singles out: FO is "*" or nucleotides, KS a base string
            d['fo'] = rng.choice(['*', '*', 'ACMGRSVTWYHKDBN', 'TACG'])
            d['ks'] = rng.choice(['', 'TCAG', '*'])
        return d

    def newpg():
        return dict(op='newpg', name=rng.choice(NAMES), pn=rng.choice(SMALL), cl=rng.choice(SMALL),
                    pp=rng.choice(SMALL), vn=rng.choice(SMALL))

    if style > 0.85:
        # several headers over the same few names with differing optional fields, then a merge
        k = rng.choice([2, 3, 3, 4])
        for i in range(k):
            m = rng.choice([1, 1, 2])
            for nm in rng.sample(NAMES[:2], m):
                ops.append(dict(op='newref', name=nm, len=rng.choice([10, 10, 10, 20]), md5=rng.choice(MD5S[1:]),
                                **{'as': rng.choice(SMALL)}, sp='', uri=rng.choice(URIS)))
            ops.append(dict(op='newhdr', text=None, rs=list(range(nr, nr + m))))
            nr += m
            nh += 1
        ops.append(dict(op='merge', hs=list(range(k))))
        nh += 1
        nr += 2
    # opening: some objects and a header
    for _ in range(rng.randrange(0, 4)):
        ops.append(newref()); nr += 1
    if rng.random() < 0.5:
        k = rng.randrange(0, nr + 1)
        rs = rng.sample(range(nr), k) if nr else []
        if rng.random() < 0.08 and nr:
            rs.append(rng.randrange(nr))
        ops.append(dict(op='newhdr', text=None, rs=rs)); nh += 1
    else:
        ops.append(dict(op='newhdr', text=gen_text(rng) if rng.random() < 0.7 else None, rs=[])); nh += 1
        nr += 2; ng += 1; np_ += 1
    weights = [('newref', 8), ('newrg', 4), ('newpg', 4), ('addref', 14), ('rmref', 8), ('setname', 6),
               ('addrg', 7), ('rmrg', 5), ('setrgname', 3), ('addpg', 7), ('rmpg', 5), ('setuid', 3),
               ('clone', 3), ('merge', 4), ('unmarshal', 8), ('decode', 2), ('newhdr', 3), ('sethd', 3),
               ('addco', 2), ('cloneref', 3), ('clonerg', 1), ('clonepg', 1)]
    if style < 0.2:     # reference-heavy
        weights = [(o, w * (3 if 'ref' in o or o in ('setname', 'merge') else 1)) for o, w in weights]
    elif style < 0.3:   # text-heavy
        weights = [(o, w * (4 if o in ('unmarshal', 'newhdr') else 1)) for o, w in weights]
    names = [o for o, w in weights for _ in range(w)]
    while len(ops) < n:
        o = rng.choice(names)
        if o == 'newref':
            ops.append(newref()); nr += 1
        elif o == 'newrg':
            ops.append(newrg()); ng += 1
        elif o == 'newpg':
            ops.append(newpg()); np_ += 1
        elif o in ('addref', 'rmref'):
            ops.append(dict(op=o, h=pick(nh), r=pick(nr)))
        elif o in ('addrg', 'rmrg'):
            ops.append(dict(op=o, h=pick(nh), r=pick(ng)))
        elif o in ('addpg', 'rmpg'):
            ops.append(dict(op=o, h=pick(nh), r=pick(np_)))
        elif o == 'setname':
            ops.append(dict(op=o, r=pick(nr), name=rng.choice(NAMES + [''])))
        elif o == 'setrgname':
            ops.append(dict(op=o, r=pick(ng), name=rng.choice(NAMES)))
        elif o == 'setuid':
            ops.append(dict(op=o, r=pick(np_), name=rng.choice(NAMES)))
        elif o == 'clone':
            if nh < 5:
                ops.append(dict(op=o, h=pick(nh))); nh += 1; nr += 2; ng += 1; np_ += 1
        elif o == 'decode':
            if nh < 5:
                ops.append(dict(op=o, h=pick(nh))); nh += 1; nr += 2; ng += 1; np_ += 1
        elif o == 'merge':
            if nh < 5:
                k = rng.choice([1, 2, 2, 2, 3])
                ops.append(dict(op=o, hs=[pick(nh) for _ in range(k)])); nh += 1; nr += 3; ng += 1; np_ += 1
        elif o == 'unmarshal':
            ops.append(dict(op=o, h=pick(nh), text=gen_text(rng))); nr += 1; ng += 1; np_ += 1
        elif o == 'newhdr':
            if nh < 5:
                if rng.random() < 0.5:
                    ops.append(dict(op=o, text=gen_text(rng), rs=[])); nr += 1
                else:
                    k = rng.randrange(0, min(nr, 3) + 1)
                    ops.append(dict(op=o, text=None, rs=[pick(nr) for _ in range(k)]))
                nh += 1
        elif o == 'sethd':
            # an @HD field is only set together with a version (the format has nowhere else to store it)
            vn = rng.choice(['1.5', '1.6', '1.5'])
            so, go = rng.randrange(4), rng.randrange(4)
            ops.append(dict(op=o, h=pick(nh), vn=vn, so=so, go=go))
        elif o == 'addco':
            ops.append(dict(op=o, h=pick(nh), text=rng.choice(['hello', '', 'a b', 'tab\there', 'x\ty\tz', '@CO', 'ends in space '])))
        elif o in ('cloneref',):
            ops.append(dict(op=o, r=pick(nr))); nr += 1
        elif o == 'clonerg':
            ops.append(dict(op=o, r=pick(ng))); ng += 1
        elif o == 'clonepg':
            ops.append(dict(op=o, r=pick(np_))); np_ += 1
    return ops


def lib_queries():
    return ['dt:' + d for d in DT_RAW] + ['ur:' + u for u, _ in URI_RAW]
