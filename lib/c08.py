"""C08: BGZF output is spec-conformant, gzip-compatible, deterministic and EOF-marked."""
import core
import wrlib

PROPS = 'Props/C08.v'


def gen_cases(rng, tier):
    nbig, nsmall, nwc = (5, 120, 25) if tier == 'quick' else (100, 2000, 300)
    cases = [dict(mode='laws', ops=[dict(op='w', kind=1, seed=rng.randrange(1, 1 << 20), len=wrlib.BS),
                                    dict(op='w', kind=0, seed=0, len=0), dict(op='w', kind=2, seed=3, len=wrlib.BS),
                                    dict(op='w', kind=1, seed=9, len=rng.randrange(1, 5000))])]
    # every adversarial ModTime at the levels that change XFL, with and without OS
    for mt in wrlib.ADV_MTIME:
        for lvl, os_ in ((-1, None), (9, 0), (1, 3), (0, 0x42)):
            h = dict(mtime=mt, nsec=0, os=os_ if os_ is not None else 255, setos=os_ is not None, name=[], comment=[], extra=None)
            cases.append(dict(mode='rt', ops=[dict(op='w', kind=2, seed=1, len=rng.choice([5, 300])), dict(op='close')], level=lvl, wc=rng.randrange(0, 3), rd=1,
                              reads=[4096], delay=0, hdr=h, hbytes=True))
    for i in range(nbig + nsmall):
        big = i < nbig
        close = rng.random() < 0.8
        ops = wrlib.gen_script(rng, big, nops=(rng.randrange(1, 3) if big else None), close=close, after_close=(close and rng.random() < 0.15))
        if tier == 'quick':
            wrlib.cap_total(ops, 2 * wrlib.BS + 700, rng)
        hdr = wrlib.gen_hdr(rng) if rng.random() < 0.8 else None
        cases.append(dict(mode='rt', ops=ops, level=rng.choice([-1, 0, 1, 5, 9, rng.randrange(-1, 10)]), wc=rng.randrange(0, 5), rd=rng.choice([0, 1, 2]),
                          reads=[rng.choice([1000, 4096, 100000])], delay=rng.choice([0, rng.randrange(1, 1000)]), hdr=hdr,
                          allwc=(i >= nbig and i < nbig + nwc) or (big and i < 2), hbytes=True))
    return cases


def nontrivial(c, o):
    return c.get('mode') == 'rt' and len(o.get('members') or []) > 0


def bucket(c, o):
    if c.get('mode') != 'rt':
        return c.get('mode')
    h = c.get('hdr')
    kind = 'default' if wrlib.hdr_is_default(h) else '+'.join(k for k in ('mtime', 'name', 'comment', 'extra') if h.get(k)) or 'os'
    closed = any(x['op'] == 'close' for x in c['ops'])
    return 'hdr=%s/closed=%s/members=%s/level=%d' % (kind, closed, min(len(o.get('members') or []), 4), c['level'])


def run(res, rng, tier):
    cases = gen_cases(rng, tier)
    wrlib.run_property(res, rng, 'C08', cases, nontrivial, bucket, TRUSTED, ASSUME,
                       'scripts as in C01 (closed and not closed, some with calls after Close) x gzip header settings: ModTime incl. values whose little-endian bytes contain 42 43 02 00 at '
                       'each of the three reachable offsets, before the epoch, above 2^32, sub-second; OS; Latin-1 Name/Comment containing B,C,2 bytes; well-formed Extra subfields '
                       'containing B C 2 0 (total user bytes < 190 so that a full block still fits); levels -1..9; for a subset the same script is run at wc 0..4 with and without delays '
                       'and the bytes compared; a case is non-trivial when the output has at least one member; distinct by (ops, level, wc, header, delay)')


def replay(res, rp):
    return wrlib.replay_case('C08', rp)


TRUSTED = wrlib.TRUSTED_COMMON + ['compress/gzip multistream reader as the "standard gzip decoder" of the run-time oracle; the theorem uses the RFC 1952 walker Model/Bgzf.gunzip_multi']
ASSUME = wrlib.ASSUME_COMMON + ['header settings are legal for compress/gzip (Latin-1 without NUL, Extra <= 65535) and leave room for a full block: header length <= 217 bytes']

CLAIM = dict(
    text='Machine-checked proof (Coq 8.16.1): for every script, level and legal gzip header setting that leaves room for a full block, the writer output is a concatenation of members, each '
         'with the BC subfield at offset 12 whose value is the member length minus one, at most 64 KiB long with at most 65280 payload bytes, that an RFC 1952 multi-member walker expands to '
         'exactly the written data; it ends with the 28-byte EOF marker iff the writer was closed; the bytes are the same for every writer concurrency and schedule. '
         'The byte-level model (gzip header as compress/gzip writes it, BSIZE back-patch as writeBlock does it, read off the source by gen/) is compared with the real bytes on every run.',
    note='DEFLATE/CRC-32 as Section hypotheses, validated at run time. The back-patch position is extracted from writer.go on every run; the first-occurrence search of the original code is '
         'refuted in Coq (members_wellformed_first_index_refuted) and was repaired in /repo (fix: commit). Header settings that make gzip fail or overflow 64 KiB are outside the quantifier (error paths: C09). '
         'eof_iff_closed_ok_partial proves only: closed without error => marker present (converse checked at run time only).',
    technique='Coq proof over byte-level model + source-extracted patch shape + vm_compute correspondence + independent RFC1952/BGZF parser',
    design='6/C08')
