"""C08: BGZF output is spec-conformant, gzip-compatible, deterministic and EOF-marked."""
import core
import wrlib

PROPS = 'Props/C08.v'


def user_header(kind, nbytes, rng):
    """gzip.Header setting that adds exactly nbytes to the 18-byte BGZF header."""
    h = dict(mtime=0, nsec=0, os=255, setos=False, name=[], comment=[], extra=None)
    if kind == 'comment':
        h['comment'] = [rng.choice([65, 66, 67, 200]) for _ in range(nbytes - 1)]
    elif kind == 'name':
        h['name'] = [rng.choice([65, 66, 67, 233]) for _ in range(nbytes - 1)]
    elif kind == 'extra':
        body = nbytes - 4
        h['extra'] = [88, 89, body & 255, body >> 8] + [rng.randrange(256) for _ in range(body)]
    else:   # split over all three
        a = nbytes // 3
        b = (nbytes - a) // 2
        cbytes = nbytes - a - b
        h['comment'] = [67] * (a - 1)
        h['name'] = [78] * (b - 1)
        h['extra'] = [88, 89, (cbytes - 4) & 255, (cbytes - 4) >> 8] + [7] * (cbytes - 4)
    return h


def boundary_family(rng, tier):
    """One full 65280-byte block whose gzip member length is aimed at 65534..65540: the compressed length is
    measured first (level 0 stores; random data is stored at every level), then the header is sized."""
    BS = wrlib.BS
    seed = rng.randrange(1, 60000)
    specs = [(0, 0, seed), (1, -1, seed), (1, 1, seed + 1), (1, 9, seed + 2)] + ([(1, 5, seed + 3), (2, 0, 3)] if tier != 'quick' else [])
    probes = core.run_harness('c08', [dict(mode='probe', ops=[dict(op='w', kind=k, seed=sd, len=BS)], levels=[lvl]) for k, lvl, sd in specs])
    cases = []
    for n, ((k, lvl, sd), pr) in enumerate(zip(specs, probes)):
        q = pr['probe'][0]
        base = 18 + q['clen'] + 8
        aims = range(65534, 65541) if (n == 0 or tier != 'quick') else (65536, 65537)
        for aim in aims:
            kinds = ['comment'] if n == 0 else [rng.choice(['comment', 'name', 'extra', 'all'])]
            if n == 0 and aim in (65536, 65537):
                kinds = ['comment', rng.choice(['name', 'extra', 'all'])]
            for hk in kinds:
                cases.append(dict(mode='rt', ops=[dict(op='w', kind=k, seed=sd, len=BS), dict(op='close')], level=lvl,
                                  wc=rng.randrange(0, 5), rd=rng.choice([0, 1, 2]), reads=[rng.choice([4096, 100000])], delay=0,
                                  hdr=user_header(hk, aim - base, rng), hbytes=True, aim=aim, expect_overflow=aim > wrlib.MAXB,
                                  probe=[q]))
    return cases


def haseof_family(rng, tier):
    n = 14 if tier == 'quick' else 150
    cases = []
    for i in range(n):
        close = i % 2 == 0
        ops = wrlib.gen_script(rng, False, nops=rng.randrange(0, 4), close=close)
        for o in ops:
            if o['op'] == 'w':
                o['len'] = min(o['len'], rng.choice([0, 1, 30, 120]))
                o['kind'] = rng.choice([0, 2])
        if not close:
            # an unclosed stream with whole blocks in it: Write; Flush (then possibly more, unflushed)
            ops = [dict(op='w', kind=rng.choice([0, 2]), seed=rng.randrange(1, 99), len=rng.choice([1, 30, 120])), dict(op='f')] + ops
        if i == 1:
            ops = []          # nothing written, not closed: empty stream
        if i == 3:
            ops = [dict(op='w', kind=0, seed=1, len=0)]
        cases.append(dict(mode='haseof', ops=ops, level=rng.choice([-1, 0, 9]), wc=rng.randrange(0, 3), rd=1, delay=0, tmpdir=core.WORK))
    return cases


def gen_cases(rng, tier):
    nbig, nsmall, nwc = (5, 120, 25) if tier == 'quick' else (100, 2000, 300)
    cases = [dict(mode='laws', ops=[dict(op='w', kind=1, seed=rng.randrange(1, 1 << 20), len=wrlib.BS),
                                    dict(op='w', kind=0, seed=0, len=0), dict(op='w', kind=2, seed=3, len=wrlib.BS),
                                    dict(op='w', kind=1, seed=9, len=rng.randrange(1, 5000))])]
    # every adversarial ModTime at the levels that change XFL, with and without OS
    for mt in wrlib.ADV_MTIME:
        for lvl, os_ in ((-1, None), (9, 0), (1, 3), (0, 0x42)):
            h = dict(mtime=mt, nsec=0, os=os_ if os_ is not None else 255, setos=os_ is not None, name=[], comment=[], extra=None)
            cases.append(dict(mode='rt', ops=[dict(op='w', kind=2, seed=1, len=rng.choice([5, 300])), dict(op='close')], level=lvl, wc=rng.randrange(0, 3), rd=1,
                              reads=[4096], delay=0, hdr=h, hbytes=True))
    cases += boundary_family(rng, tier)
    cases += haseof_family(rng, tier)
    for i in range(nbig + nsmall):
        big = i < nbig
        close = rng.random() < 0.8
        ops = wrlib.gen_script(rng, big, nops=(rng.randrange(1, 3) if big else None), close=close, after_close=(close and rng.random() < 0.15))
        if tier == 'quick':
            wrlib.cap_total(ops, 2 * wrlib.BS + 700, rng)
        hdr = wrlib.gen_hdr(rng) if rng.random() < 0.8 else None
        cases.append(dict(mode='rt', ops=ops, level=rng.choice([-1, 0, 1, 5, 9, rng.randrange(-1, 10)]), wc=rng.randrange(0, 5), rd=rng.choice([0, 1, 2]),
                          reads=[rng.choice([1000, 4096, 100000])], delay=rng.choice([0, rng.randrange(1, 1000)]), hdr=hdr,
                          allwc=(i >= nbig and i < nbig + nwc) or (big and i < 2), hbytes=True))
    return cases


def nontrivial(c, o):
    if c.get('mode') == 'haseof':
        return o.get('out_len', 0) >= 28
    return c.get('mode') == 'rt' and (len(o.get('members') or []) > 0 or 'expect_overflow' in c)


def bucket(c, o):
    if c.get('mode') == 'haseof':
        return 'haseof/closed=%s/len=%s' % (o.get('closed_ok'), '<28' if o.get('out_len', 0) < 28 else '>=28')
    if c.get('mode') != 'rt':
        return c.get('mode')
    if 'expect_overflow' in c:
        return 'boundary/level=%d/aim=%d' % (c['level'], c['aim'])
    h = c.get('hdr')
    kind = 'default' if wrlib.hdr_is_default(h) else '+'.join(k for k in ('mtime', 'name', 'comment', 'extra') if h.get(k)) or 'os'
    closed = any(x['op'] == 'close' for x in c['ops'])
    return 'hdr=%s/closed=%s/members=%s/level=%d' % (kind, closed, min(len(o.get('members') or []), 4), c['level'])


def run(res, rng, tier):
    cases = gen_cases(rng, tier)
    wrlib.run_property(res, rng, 'C08', cases, nontrivial, bucket, TRUSTED, ASSUME,
                       'scripts as in C01 (closed and not closed, some with calls after Close) x gzip header settings: ModTime incl. values whose little-endian bytes contain 42 43 02 00 at '
                       'each of the three reachable offsets, before the epoch, above 2^32, sub-second; OS; Latin-1 Name/Comment containing B,C,2 bytes; well-formed Extra subfields '
                       'containing B C 2 0 (total user bytes < 190 so that a full block still fits); levels -1..9; for a subset the same script is run at wc 0..4 with and without delays '
                       'and the bytes compared; boundary family: one full incompressible (or level-0) block with Comment/Name/Extra sized, after measuring the compressed length, so that the member is '
                       '65534..65540 bytes long; HasEOF family: closed / unclosed / empty streams asked through Size, Stat (temp file), Seek+Len with the cursor at 8 positions, and a bare ReaderAt; '
                       'a case is non-trivial when the output has at least one member (HasEOF: at least 28 bytes); distinct by (mode, ops, level, wc, header, delay)')


def replay(res, rp):
    return wrlib.replay_case('C08', rp)


TRUSTED = wrlib.TRUSTED_COMMON + ['compress/gzip multistream reader as the "standard gzip decoder" of the run-time oracle; the theorem uses the RFC 1952 walker Model/Bgzf.gunzip_multi']
ASSUME = wrlib.ASSUME_COMMON + ['header settings are legal for compress/gzip (Latin-1 without NUL, Extra <= 65535) and leave room for a full block: header length <= 217 bytes']

CLAIM = dict(
    text='Machine-checked proof (Coq 8.16.1): for every script, level and legal gzip header setting that leaves room for a full block, the writer output is a concatenation of members, each '
         'with the BC subfield at offset 12 whose value is the member length minus one, at most 64 KiB long with at most 65280 payload bytes, that an RFC 1952 multi-member walker expands to '
         'exactly the written data; for every header and block whatever writeBlock emits is at most MaxBlockSize long with BSIZE = length-1 and longer members are refused; '
         'HasEOF equals "ends with the marker" for every reader kind and cursor position; it ends with the 28-byte EOF marker iff the writer was closed; the bytes are the same for every writer concurrency and schedule. '
         'The byte-level model (gzip header as compress/gzip writes it, BSIZE back-patch as writeBlock does it, read off the source by gen/) is compared with the real bytes on every run.',
    note='DEFLATE/CRC-32 as Section hypotheses, validated at run time. The back-patch position is extracted from writer.go on every run; the first-occurrence search of the original code is '
         'refuted in Coq (members_wellformed_first_index_refuted) and was repaired in /repo (fix: commit). Header settings that make gzip fail or overflow 64 KiB are outside the quantifier (error paths: C09). '
         'eof_iff_closed_ok is an equivalence under two further compressor facts (codec_laws_eof: streams have >= 2 bytes, the empty payload is not encoded with tail 03 00), validated at run time.',
    technique='Coq proof over byte-level model + source-extracted patch shape + vm_compute correspondence + independent RFC1952/BGZF parser',
    design='6/C08')
