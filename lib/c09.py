"""C09: I/O faults never hang and are never swallowed by the BGZF reader or writer."""
import json

import core
from core import cz, cb, clist

PROPS = 'Props/C09.v'
HEADER = ('From Hts Require Import Base.Prim Generated Model.FaultWriter Model.FaultReader.\n'
          'Open Scope Z_scope.')
BS = 0xff00

OPNAME = {0: 'Write', 1: 'Flush', 2: 'Wait', 3: 'Close', 4: 'SetBadHeader', 5: 'SetGoodHeader'}
ROPNAME = {0: 'Read', 1: 'Seek', 2: 'Close', 3: 'Recover'}


# ------------------------------------------------------------------ cases

def writer_scripts(rng, tier):
    W, F, T, C, H, G = (lambda n: [0, n]), [1], [2], [3], [4], [5]
    fam = [
        [W(3 * BS), C],
        [W(10), F, W(10), F, T, C],
        [W(10), F, T, W(10), F, T, C],
        [W(BS + 5), W(7), F, T, C, C],
        [W(2 * BS), F, W(5), T, C, W(5)],
        [W(5), C],
        [W(BS - 3), W(10), W(4 * BS), T, C],
        [F, T, C],
        [W(7), F, W(7), F, W(7), F, W(7), F, W(7), F, T, C],
        [W(5 * BS + 1), F, F, T, T, C, T, F],
        [W(9), F, W(0), W(BS), W(BS), F, C],
    ]
    hdr = [
        [W(5), F, T, H, W(5), F, T, C],
        [H, W(3 * BS), C],
        [W(5), F, H, W(5), F, G, W(5), F, T, C],
        [H, W(5), F, W(5), F, T, C],
    ]
    nrand = 4 if tier == 'quick' else 25
    for _ in range(nrand):
        s = []
        for _ in range(rng.randrange(1, 7)):
            r = rng.random()
            if r < 0.5:
                s.append(W(rng.choice([0, 1, 9, BS - 1, BS, BS + 1, 2 * BS, 3 * BS + 7, rng.randrange(1, 4 * BS)])))
            elif r < 0.8:
                s.append(F)
            else:
                s.append(T)
        s.append(C)
        if rng.random() < 0.3:
            s.append(rng.choice([W(3), F, T, C]))
        fam.append(s)
    return fam, hdr


def sim_enqueues(script):
    """Upper bound of the number of underlying writes of a fault-free run."""
    n, nxt = 0, 0
    for op in script:
        if op[0] == 0:
            rem = op[1]
            while rem > 0:
                k = 0
                if nxt == 0 or nxt + rem <= BS:
                    k = min(BS - nxt, rem)
                    rem -= k
                    nxt += k
                if nxt == BS or k == 0:
                    n += 1
                    nxt = 0
        elif op[0] == 1 and nxt:
            n += 1
            nxt = 0
        elif op[0] == 3:
            return n + 2
    return n


def gen_writer(rng, tier):
    fam, hdr = writer_scripts(rng, tier)
    cases = []
    wcs = [1, 2, 4] if tier == 'quick' else [0, 1, 2, 3, 8]
    for s in fam:
        top = sim_enqueues(s)
        ks = list(range(0, top)) + [-1]
        if tier == 'quick' and len(ks) > 4:
            ks = ks[:2] + [ks[-2], -1] + rng.sample(ks[2:-2], 1)
        for wc in wcs:
            for k in ks:
                for pol in ('lazy', 'eager', 'free'):
                    if tier == 'quick' and pol == 'free' and k not in (0, 1):
                        continue
                    partial = (pol == 'lazy' and k >= 0 and (k + wc) % 2 == 0)
                    # transient: only the k-th underlying Write is refused, later ones would succeed
                    wtrans = k >= 0 and (k + wc) % 3 != 0
                    cases.append(dict(kind='w', wc=wc, script=s, k=k, partial=partial, policy=pol, wtrans=wtrans))
    for s in hdr:
        for wc in wcs:
            for pol in ('eager', 'free'):
                cases.append(dict(kind='w', wc=wc, script=s, k=-1, partial=False, policy=pol))
    return cases


def gen_reader(rng, tier):
    cases = []
    R, S, C = (lambda n: [0, n]), (lambda m, o: [1, m, o]), [2]
    layouts = [[40, 50, 60], [30, 1, 45, 20], [25, 25, 25, 25, 25]]
    if tier != 'quick':
        layouts += [[rng.randrange(1, 200) for _ in range(rng.randrange(2, 8))] for _ in range(6)]
    for blocks in layouts:
        nb = len(blocks)
        total = sum(blocks)
        scripts = [
            [R(total + 10), C],
            [R(7)] * 4 + [R(total), C],
            [R(blocks[0]), R(5), S(1, 0), R(10), C],
            [R(blocks[0] + 3), S(1, 0), R(blocks[1] + 2), S(0, 0), R(20), S(nb - 1, 0), R(30), R(5), C],
            [S(nb - 1, 3), R(10), S(1, 0), R(total), C],
            [R(blocks[0]), R(1), S(1, 0), R(5), S(2, 0), R(5), S(0, 1), R(total), R(1), C],
        ]
        # a Seek that fails in the underlying seeker, then the caller retries: the same
        # offset, another offset, or reads first (seekk selects which Seek call fails)
        scripts += [
            [S(2, 0), S(2, 0), R(10), C],
            [R(5), S(2, 0), S(2, 3), R(20), S(0, 0), R(10), C],
            [S(1, 0), R(5), S(1, 0), R(total), C],
            [S(2, 0), S(1, 0), R(10), S(2, 0), S(2, 0), R(10), C],
        ]
        nrand = 2 if tier == 'quick' else 6
        for _ in range(nrand):
            s = []
            for _ in range(rng.randrange(2, 8)):
                if rng.random() < 0.6:
                    s.append(R(rng.choice([1, 5, blocks[0], blocks[0] + 1, total])))
                else:
                    m = rng.randrange(nb)
                    s.append(S(m, rng.randrange(0, blocks[m] + 1) if blocks[m] else 0))
            s.append(C)
            scripts.append(s)
        # keep every Seek inside the data blocks of this layout
        scripts = [[(S(min(op[1], nb - 1), min(op[2], blocks[min(op[1], nb - 1)])) if op[0] == 1 else op) for op in s] for s in scripts]
        for s in scripts:
            nseek = sum(1 for op in s if op[0] == 1)
            for rd in (1, 2):
                for cache in ((0, 1) if tier == 'quick' else (0, 1, 2, 3)):
                    # the fault offset: member xm, offset xoff inside it (clamped to the member)
                    xs = [(-1, 0)]
                    for xm in range(nb + 2):
                        for xoff in (0, 5, 18, 25, 9999):
                            xs.append((xm, xoff))
                    xs = [(-1, 0)] + rng.sample(xs[1:], 3 if tier == 'quick' else 10)
                    for (xm, xoff) in xs:
                        for trans in ((0, 1) if xm >= 0 else (0,)):
                            cases.append(dict(kind='r', rd=rd, cache=cache, blocks=blocks, xm=xm, xoff=xoff,
                                              trans=trans, seekk=-1, ops=s, seeker=True))
                    for j in range(min(nseek, 3 if tier != 'quick' else 2)):
                        cases.append(dict(kind='r', rd=rd, cache=cache, blocks=blocks, xm=-1, xoff=0,
                                          trans=0, seekk=j, ops=s, seeker=True))
    # Seek faults repeated 1..2*rd times (persistent until the seeker recovers, or exactly t
    # transient failures), then recovery, then Seek + Read: every call must return and the
    # bytes after recovery must be the right ones.  rd 1..4, without and with a cache.
    REC = [3]
    blocks = [40, 50, 60]
    total = sum(blocks)
    for rd in (1, 2, 3, 4):
        for cache in (0, 1):
            ts = range(1, 2 * rd + 1) if tier != 'quick' else sorted({1, rd - 1 or 1, rd, rd + 1, 2 * rd})
            for t in ts:
                ops = [S(2, 0)] * t + [REC, S(2, 0), R(10), S(0, 0), R(total), C]
                cases.append(dict(kind='r', rd=rd, cache=cache, blocks=blocks, xm=-1, xoff=0, trans=0, seekk=0, seekn=-1, ops=ops, seeker=True))
                ops = [R(5)] + [S(1, 3)] * t + [REC, S(1, 0), R(60), S(2, 1), R(5), C]
                cases.append(dict(kind='r', rd=rd, cache=cache, blocks=blocks, xm=-1, xoff=0, trans=0, seekk=0, seekn=-1, ops=ops, seeker=True))
                ops = [S(2, 0)] * (t + 2) + [R(10), S(1, 0), R(5), C]
                cases.append(dict(kind='r', rd=rd, cache=cache, blocks=blocks, xm=-1, xoff=0, trans=0, seekk=0, seekn=t, ops=ops, seeker=True))
    return cases


# ----------------------------------------------------------------- oracle

def pattern(block, i):
    return (block * 37 + i * 11 + 5) & 0xff


def oracle_writer(c, o):
    fails = []
    script = c['script']
    res = o.get('res') or []
    if o.get('hang', -1) >= 0:
        op = script[o['hang']]
        fails.append(('writer:hang:%s' % OPNAME[op[0]],
                      '%s (call %d of the script) never returns: every goroutine of the writer is parked' % (OPNAME[op[0]], o['hang'])))
        return fails
    if 'panic' in o:
        return [('writer:panic', o['panic'])]
    closed_at = next((i for i, op in enumerate(script) if op[0] == 3), None)
    if closed_at is not None and o.get('leak', 0) > 0:
        fails.append(('writer:leak', '%d goroutine(s) of the library remain after Close' % o['leak']))
    known = False
    badhdr = False
    lostblock = False
    for i, (op, r) in enumerate(zip(script, res)):
        name = OPNAME[op[0]]
        if op[0] == 4:
            badhdr = True
            continue
        if op[0] == 5:
            badhdr = False
            continue
        if r['c'] == 5:
            fails.append(('writer:panic:' + name, r.get('m', '')))
            continue
        if op[0] == 0 and op[1] > 0 and badhdr and r['c'] == 0:
            lostblock = True
        if op[0] == 3:
            if i == closed_at and r['c'] == 0 and r['f'] > 0:
                fails.append(('writer:swallowed:Close', 'an underlying Write failed (%d) but Close returned nil' % r['f']))
            if i == closed_at and r['c'] == 0 and (lostblock or (badhdr and any(x[0] == 0 and x[1] > 0 for x in script[:i]))):
                fails.append(('writer:swallowed-compress:Close', 'a block could not be compressed but Close returned nil'))
        if known and r['c'] == 0:
            fails.append(('writer:swallowed:' + name, '%s returned nil after an earlier call had reported the failure' % name))
        if op[0] == 2 and r['c'] == 0 and r['f'] > 0:
            fails.append(('writer:swallowed:Wait', 'Wait returned nil although an underlying Write had failed'))
        if op[0] == 0 and r['c'] == 0 and r['n'] != op[1]:
            fails.append(('writer:shortwrite', 'Write returned n=%d < %d with a nil error' % (r['n'], op[1])))
        if r['c'] in (1, 4):
            known = True
    if o.get('wafter', 0) > 0:
        fails.append(('writer:write-after-failure', 'the underlying writer was called again (%d times) after a Write had failed: later blocks would follow a hole' % o['wafter']))
    if o.get('prefix_ok') is False:
        fails.append(('writer:not-a-prefix', 'the whole members accepted by the underlying writer do not decode to a prefix of the data accepted by Write'))
    st = o.get('stream') or {}
    if o.get('wfailed', 0) == 0 and st.get('tail', 0) != 0:
        fails.append(('writer:stream-tail', 'bytes accepted by the underlying writer are not whole members'))
    return fails


def oracle_reader(c, o):
    fails = []
    if 'panic' in o:
        return [('reader:panic', o['panic'])]
    blocks = c['blocks']
    flat = []
    start = []
    for b, n in enumerate(blocks):
        start.append(len(flat))
        flat.extend(pattern(b, i) for i in range(n))
    # members beyond the data blocks (written by Close) are empty and start at the end
    nm = len(o.get('offs', [])) - 1
    while len(start) < nm:
        start.append(len(flat))
    if o.get('hang', -1) >= 0:
        h = o['hang']
        name = 'NewReader' if h == 0 else ROPNAME[c['ops'][h - 1][0]]
        # shape of the history: which kind of fault, and how many Seek calls of the API had failed before
        fault = 'fetch' if c['xm'] >= 0 else ('seek' if c['seekk'] >= 0 else 'none')
        nfs = sum(1 for op, r in zip(c['ops'], o.get('res') or []) if op[0] == 1 and r.get('c') not in (0, None))
        return [('reader:hang:%s:after-%s-fault:%d-failed-seeks' % (name, fault, nfs),
                 '%s never returns (fault kind: %s; %d Seek calls had returned an error before)' % (name, fault, nfs))]
    if o.get('leak', 0) > 0 and o['open']['c'] == 0:
        fails.append(('reader:leak', '%d goroutine(s) of the library remain after Close' % o['leak']))
    pos = 0
    for op, r in zip(c['ops'], o.get('res') or []):
        if r['c'] == 5:
            slug = 'unexpected-block' if 'unexpected block' in r.get('m', '') else 'other'
            fails.append(('reader:panic:%s:%s' % (ROPNAME[op[0]], slug), r.get('m', '')))
            break
        if op[0] == 0:
            data = list(bytes.fromhex(r.get('d', '')))
            if pos is not None:
                want = flat[pos:pos + len(data)]
                if data != want:
                    fails.append(('reader:wrong-bytes', 'Read returned %s at flat position %d where the file holds %s' % (data[:12], pos, want[:12])))
                    break
                pos += len(data)
                if r['c'] == 3 and pos != len(flat):
                    fails.append(('reader:early-eof', 'clean EOF at flat position %d of %d' % (pos, len(flat))))
                    break
        elif op[0] == 1:
            if r.get('c') == 0:
                m = min(op[1], nm - 1)
                pos = start[m] + op[2]
            else:
                pos = None
    return fails


def oracle(c, o):
    fs = oracle0(c, o)
    if c['kind'] == 'r':
        cfg = ':rd%s:%s' % ('1' if c['rd'] == 1 else 'N', ['nocache', 'lru', 'fifo', 'random'][c['cache']])
        fs = [(s + cfg, w) for s, w in fs]
    return fs


def oracle0(c, o):
    if 'hang' in o and isinstance(o['hang'], bool):
        return [(c['kind'] + ':watchdog', 'the harness watchdog fired')]
    if 'crash' in o or 'garbled' in o:
        return [(c['kind'] + ':crash', str(o)[:300])]
    return oracle_writer(c, o) if c['kind'] == 'w' else oracle_reader(c, o)


# ------------------------------------------------------- Coq case terms

def wop(op):
    return {0: 'OWrite %s' % cz(op[1] if len(op) > 1 else 0), 1: 'OFlush', 2: 'OWait', 3: 'OClose', 4: 'OHdr true', 5: 'OHdr false'}[op[0]]


def writer_term(c, o):
    res = o.get('res') or []
    rs = clist(['(%s, %s)' % (cz(r['c']), cz(r['n'])) for r in res], str)
    return 'mkWCase %s %s %s %s %s %s %s %s %s' % (
        cz(c['wc']), clist([wop(x) for x in c['script']], lambda x: '(%s)' % x), cz(c['k']),
        {'lazy': 'PLazy', 'eager': 'PEager', 'free': 'PFree'}[c['policy']],
        rs, cz(o.get('hang', -1)), cz(o.get('leak', 0)), cz(o.get('wcalls', 0)), cz(o.get('wafter', 0)))


def reader_term(c, o):
    offs = o['offs']
    nm = len(offs) - 1
    mem = []
    for i in range(nm):
        n = c['blocks'][i] if i < len(c['blocks']) else 0
        mem.append('(%s, %s)' % (cz(offs[i + 1] - offs[i]), clist([pattern(i, j) for j in range(n)])))
    ops = []
    for op in c['ops']:
        if op[0] == 0:
            ops.append('(RRead %s)' % cz(op[1]))
        elif op[0] == 1:
            ops.append('(RSeek %s %s)' % (cz(min(op[1], nm - 1)), cz(op[2])))
        else:
            ops.append('RClose')
    res = []
    for r in o.get('res') or []:
        res.append('(%s, %s)' % (cz(min(r['c'], 4)), clist(list(bytes.fromhex(r.get('d', ''))))))
    return 'mkRCase %s %s %s %s %s %s %s' % (
        clist(mem, str), cz(o['x']), cz(c['trans']), cz(c['seekk']), clist(ops, str), cz(min(o['open']['c'], 4)), clist(res, str))


# -------------------------------------------------------------------- run

def strip(o):
    return {k: v for k, v in o.items() if k != 'stack'}


def run(res, rng, tier):
    cases = gen_writer(rng, tier) + gen_reader(rng, tier)
    import time
    t0 = time.time()
    obs = core.run_harness('c09', cases, jobs=8, case_timeout='30s')
    res.notes.append('harness %.1fs for %d cases' % (time.time() - t0, len(cases)))
    wterms, rterms = [], []
    for c, o in zip(cases, obs):
        res.evaluations += 1
        if c['kind'] == 'w':
            key = ('w', c['wc'], json.dumps(c['script']), c['k'], c['partial'], c['policy'], c.get('wtrans', False))
            res.count('writer/%s/wc=%d/%s' % (c['policy'], c['wc'], 'fault' if c['k'] >= 0 else 'nofault'))
            if c['k'] >= 0 and o.get('wfailed', 0) > 0 or any(op[0] == 4 for op in c['script']):
                res.nontrivial.add(key)
        else:
            key = ('r', c['rd'], c['cache'], json.dumps(c['blocks']), c['xm'], c['xoff'], c['trans'], c['seekk'], c.get('seekn', 0), json.dumps(c['ops']))
            res.count('reader/rd=%d/cache=%d/%s' % (c['rd'], c['cache'], 'seekfault' if c['seekk'] >= 0 else ('readfault' if c['xm'] >= 0 else 'nofault')))
            if o.get('fails', 0) > 0 or (c['seekk'] >= 0 and o.get('seeks', 0) > c['seekk']):
                res.nontrivial.add(key)
        fs = oracle(c, o)
        for sig, what in fs[:1]:
            res.failures.append(dict(sig=sig, what=what, case=c, observed=strip(o), stack=o.get('stack', '')[:4000],
                                     expected='every call returns; no library goroutine after Close; failures reported; bytes correct for their position'))
        if 'crash' in o or 'garbled' in o or 'bad_case' in o or isinstance(o.get('hang'), bool):
            res.corr_bad.append(dict(case=c, obs=strip(o)))
            continue
        if c['kind'] == 'w':
            wterms.append((c, o, writer_term(c, o)))
        elif c['rd'] == 1 and c['cache'] == 0 and o.get('hang', -1) < 0 and c.get('seekn', 0) in (0, 1) and not any(op[0] == 3 for op in c['ops']):
            rterms.append((c, o, reader_term(c, o)))
    terms = [(c, o, 'CW (%s)' % t) for c, o, t in wterms] + [(c, o, 'CR (%s)' % t) for c, o, t in rterms]
    t0 = time.time()
    bad, err = core.coq_mismatches(HEADER, 'c09case', 'c09_agree', [t[2] for t in terms], 'c09', shard=400)
    res.notes.append('coq evaluation %.1fs for %d cases' % (time.time() - t0, len(terms)))
    if err:
        res.corr_bad.append(dict(error=err))
    for i in bad:
        c, o, t = terms[i]
        res.corr_bad.append(dict(case=c, obs=strip(o), coq_case=t, note='model and implementation disagree'))
    res.extra['traces_validated_against_impl'] = len(wterms) + len(rterms)
    res.rule = ('writer: script family (multi-block writes, Flush/Wait patterns, calls after Close, header made incompressible) + random scripts '
                'x wc x index k of the failing underlying Write (every index of the fault-free run in thorough, a spread in quick) x partial count '
                'x schedule policy (lazy: an underlying Write is delayed until the API call is blocked; eager: background drained between calls; free: Go scheduler); '
                'reader: member layouts x read/seek scripts x rd x cache x fault offset (member, offset in member incl. header, after header, payload, last byte) '
                'x persistent/transient x failing Seek index. A case is non-trivial when the injected fault was actually reached (or the header made a block incompressible); distinct by all parameters.')
    pick = [i for i, c in enumerate(cases) if (c['kind'] == 'w' and c['k'] >= 0) or (c['kind'] == 'r' and c['xm'] >= 0)]
    res.samples = [dict(case=cases[i], observed=strip(obs[i])) for i in (pick[:2] + pick[-2:])]
    res.trusted = TRUSTED
    res.assumptions = ASSUME


def replay(res, rp):
    c = rp.get('case')
    if not c:
        print(json.dumps(rp, indent=1)[:4000])
        return 0
    o = core.run_harness('c09', [c])[0]
    fs = oracle(c, o)
    print('case     :', json.dumps(c))
    print('observed :', json.dumps(strip(o))[:3000])
    print('oracle   :', fs)
    if fs and o.get('stack'):
        print(o['stack'][:3000])
    return 1 if fs else 0


TRUSTED = [
    'Coq 8.16.1 kernel (coqc); vm_compute for case evaluation and for the finite checks over the generated channel skeleton',
    'the writer model is a schedule-driven transition system: Go channels, sync.WaitGroup, the goroutine scheduler and the mutex-protected error latch are modelled (atomic steps: channel send/receive, Add/Done, setErr, Error), not verified',
    'translator gen/emit_c09.go reads the channel skeleton of bgzf/writer.go (sends, receives, Add/Done/Wait, go, defer, return, break); the model variant is computed from it',
    'harness doubles and the goroutine census (runtime.Stack) that decides "every goroutine of the case is parked"',
    'reader model: sync reader (rd=1, no cache) at member granularity; bufio/compress/gzip call patterns are abstracted to "bytes below X are delivered, then the error"',
    'axioms: none (Print Assumptions: Closed under the global context)',
]
ASSUME = [
    'a failing underlying Write returns an error (possibly after a partial count), never a silent short write',
    'gzip never produces an empty member, so writeOK never takes its empty-buffer return',
    'liveness is proved for the transition system of the model (every maximal run is finite and ends with all calls returned), not for the Go runtime',
    'async reader (rd>1) and cached readers are judged by the oracle on the implementation only',
]

CLAIM = dict(
    text='Machine-checked proof (Coq 8.16.1) over a schedule-driven model of the bgzf.Writer pipeline (compressor pool, queue/waiting/flush channels, emitter goroutine, wait groups, error latch) with an arbitrary fault plan: '
         'for every script, wc, fault index and schedule no reachable state has a blocked API call with no thread able to move, after Close every thread has terminated, nothing is written to the underlying writer after a failed call, '
         'and a failed underlying write is reported by Close, by Wait and by every later Write/Flush/Wait; token conservation (one qwg.Done and one return to the pool per queued block on every path) is proved over the channel skeleton '
         'regenerated from writer.go on every run, which also selects the model variant. A sync-reader model with a fault offset proves that the block served always is the member at its base (the invariant the stale-block defect broke). '
         'Model and implementation are run on the same fault cases under lock-step schedules forced by holding underlying calls until the API call is parked (goroutine census); an oracle judges hangs, leaks, swallowed errors and returned bytes, also for rd>1 and caches.',
    note='Trusted: Coq kernel; the model of Go channels/WaitGroup/scheduler (atomic steps); gen/emit_c09.go (skeleton extraction); the goroutine census of the harness. '
         'Partial: deadlock freedom and termination of threads after Close are proved, a termination measure for every run is not; the sync reader theorem is at flat byte positions incl. EOF only at the true end (rd=1, no cache); '
         'the async reader and caches are covered by the oracle on the implementation only and have two recorded findings (hang / panic after a fault).',
    technique='Coq proof (invariants over a small-step concurrent model, all schedules) + skeleton regenerated from source + lock-step correspondence + fault-injection oracle',
    design='6/C09')
