"""C10: truncated or corrupted streams are never read as different valid data."""
import json
import time

import core
from core import cz, cb, clist

PROPS = 'Props/C10.v'
HEADER = ('From Hts Require Import Base.Prim Generated Model.Corrupt.\n'
          'Open Scope Z_scope.')


def pat(i, n):
    return [(i * 29 + j * 7 + 3) & 0xff for j in range(n)]


def workloads(rng, tier):
    ws = []
    # level 0 = stored deflate blocks: these streams are also evaluated by the Coq model
    for level in ((0, -1) if tier == 'quick' else (0, -1, 9, 1)):
        ws.append(dict(kind='bgzf', blocks=[pat(0, 5), pat(1, 9), pat(2, 3)], level=level, wc=1))
        ws.append(dict(kind='bgzf', blocks=[pat(0, 12), []], level=level, wc=2))          # Write, Flush, Close: empty last block
        ws.append(dict(kind='bgzf', blocks=[[], pat(3, 7)], level=level, wc=1))
    ws.append(dict(kind='bgzf', blocks=[pat(4, 40), pat(5, 1)], level=0, wc=1))
    # several small data blocks: BSIZE of one member and the sum of two or three members differ in the low byte only
    ws.append(dict(kind='bgzf', blocks=[pat(6, 8), pat(7, 11), pat(8, 6), pat(9, 20)], level=-1, wc=2))
    ws.append(dict(kind='bam', recs=[-2, -3, -2, 4], level=-1, wc=1))
    ws.append(dict(kind='bam', recs=[5, 3, 4], level=0, wc=1, split=[40, 80, 120, 160]))
    ws.append(dict(kind='bgzf', blocks=[], level=-1, wc=1))                                # only Close
    for level in (-1, 0):
        ws.append(dict(kind='bam', recs=[-4, 3, -5], level=level, wc=1))                  # flushes at record boundaries
        ws.append(dict(kind='bam', recs=[6, 2], level=level, wc=1))
    # the same BAM data re-blocked: block boundaries inside the header, inside a record,
    # right after a record's length prefix (-4) and inside the prefix (-2)
    ws.append(dict(kind='bam', recs=[5, 3, 4], level=-1, wc=1, split=[10, 60, -4]))
    ws.append(dict(kind='bam', recs=[5, 3, 4], level=0, wc=1, split=[-2, -20]))
    # a FULL first block (0xff00 bytes) followed by a block of more than 256 bytes: a BSIZE
    # substitution that makes member 0 span member 1 as well joins more than MaxBlockSize bytes
    # and must be rejected (io.ErrShortBuffer).  Candidates: the second block's length is varied
    # so that the joined size differs from BSIZE in one byte; run() keeps those with a target.
    for L, per in ((300, 16), (400, 8), (520, 32), (700, 5)):
        ws.append(dict(kind='bgzf', blocks=[[65280, 11, 251], [L, 12, per]], level=-1, wc=1, big=True))
    # a member that inflates to exactly MaxBlockSize = 65536 bytes (legal; bgzf.Writer stops at 65280): the
    # reader's buffer is filled completely, and the gzip trailer (CRC-32, ISIZE) is checked by the read after that
    ws.append(dict(kind='bgzf', blocks=[], raw=[[65536, 7], [100, 3]], level=-1, wc=1, big=True, maxmember=True))
    ws.append(dict(kind='bgzf', blocks=[], raw=[[65535, 9], [65536, 2]], level=-1, wc=1, big=True, maxmember=True))
    ws.append(dict(kind='bgzf', blocks=[[65280, 13, 251], [256, 14, 16], [300, 15, 16]], level=0, wc=1, big=True))   # level 0: a joined size that still fits 16 bits cannot exceed the buffer
    for L in (300, 350, 410, 480):
        ws.append(dict(kind='bam', recs=[30000, 30000], level=-1, wc=1, split=[65280, 65280 + L], big=True))
    if tier != 'quick':
        for _ in range(6):
            ws.append(dict(kind='bgzf', blocks=[pat(rng.randrange(50), rng.randrange(0, 300)) for _ in range(rng.randrange(1, 6))],
                           level=rng.choice([0, -1, 1, 9]), wc=rng.choice([1, 2])))
        for _ in range(3):
            ws.append(dict(kind='bam', recs=[rng.choice([-1, 1]) * rng.randrange(1, 40) for _ in range(rng.randrange(1, 8))],
                           level=rng.choice([0, -1]), wc=1))
    return ws


def region(lay, pos):
    """Name of the byte region of the untouched stream that pos lies in."""
    b = lay['bounds']
    for i in range(len(b) - 1):
        if b[i] <= pos < b[i + 1]:
            o, sz = pos - b[i], b[i + 1] - b[i]
            last = i == len(b) - 2
            if o < 10:
                r = 'gzhdr%d' % o
            elif o < 12:
                r = 'xlen'
            elif o < 16:
                r = 'subfield'
            elif o < 18:
                r = 'bsize'
            elif o >= sz - 4:
                r = 'isize'
            elif o >= sz - 8:
                r = 'crc'
            else:
                r = 'payload'
            return ('eofmarker:' if last else '') + r, i, o
    return 'beyond', -1, 0


def merge_targets(lay):
    """Single-byte BSIZE substitutions that make a member's announced size span
    exactly this member and one or more following ones."""
    b = lay['bounds']
    out = []
    for i in range(len(b) - 1):
        cur = b[i + 1] - b[i] - 1
        for j in range(i + 1, len(b) - 1):
            tgt = b[j + 1] - b[i] - 1
            if tgt >= 65536:
                break
            if tgt & 0xff00 == cur & 0xff00:
                out.append([1, b[i] + 16, tgt & 0xff])
            elif tgt & 0xff == cur & 0xff:
                out.append([1, b[i] + 17, tgt >> 8])
    return out


def mutations(rng, tier, w, lay, n, exhaustive_framing, bsize_all=True):
    muts = [[0, k] for k in range(n)] + merge_targets(lay)
    vals_small = [0, 1, 0x80, 0xff]
    for pos in range(n):
        reg, _, o = region(lay, pos)
        if (exhaustive_framing and 'payload' not in reg) or (bsize_all and reg.endswith('bsize')):
            vs = range(256)
        else:
            vs = set(vals_small + [rng.randrange(256) for _ in range(2 if tier == 'quick' else 12)])
        for v in vs:
            muts.append([1, pos, v])
    return muts


MAGIC = bytes.fromhex('1f8b08040000000000ff0600424302001b0003000000000000000000')   # SAMv1 section 4.1.2


def oracle(w, lay, stream, m, o):
    """(sig, what) if the observation violates the property."""
    kind = w['kind']
    mutated = stream[:m[1]] if m[0] == 0 else stream[:m[1]] + [m[2]] + stream[m[1] + 1:]
    want_eof = -1 if len(mutated) < 28 else int(bytes(mutated[-28:]) == MAGIC)
    if o['eof'] != want_eof and o['e'] != 2:
        return (kind + ':haseof:wrong', 'HasEOF reports %d on a stream whose last 28 bytes %s the EOF marker' % (o['eof'], 'are' if want_eof == 1 else 'are not'))
    if o['e'] == 2:
        return ('%s:%s:panic' % (kind, 'trunc' if m[0] == 0 else 'subst'), 'reader panicked: ' + o.get('m', ''))
    bounds = lay['bounds']
    if m[0] == 0:
        n = m[1]
        if not o['pre']:
            return (kind + ':trunc:wrong-data', 'reading the first %d bytes returned data that is not a prefix of the original' % n)
        if o['e'] == 0:
            if n not in bounds:
                reg, i, off = region(lay, n)
                return ('%s:trunc:clean-end-inside-block:at+%d' % (kind, off if off <= 18 else 19),
                        'stream cut at %d (offset %d inside member %d) is read as a clean end of data' % (n, off, i))
            j = bounds.index(n)
            if kind == 'bgzf':
                if o['n'] != lay['ubounds'][j]:
                    return (kind + ':trunc:clean-end-short', 'clean end after %d bytes, the complete members hold %d' % (o['n'], lay['ubounds'][j]))
            else:
                if n > 0 and lay['ubounds'][j] not in lay['recbounds']:
                    if o['n'] == -1:
                        return (kind + ':trunc:newreader-eof-inside-header', 'bam.NewReader returns io.EOF for a stream cut at a block boundary inside the BAM header')
                    return (kind + ':trunc:clean-end-inside-record', 'cut at a block boundary inside a record is read as a clean end after %d records' % o['n'])
            if o['eof'] == 1:
                return (kind + ':trunc:haseof-true', 'HasEOF reports true for the first %d of %d bytes' % (n, len(stream)))
        return None
    pos, v = m[1], m[2]
    if stream[pos] == v:
        return None
    if o['e'] == 0 and not o['eq']:
        reg, i, off = region(lay, pos)
        return ('%s:subst:%s:different-data' % (kind, reg),
                'byte %d (%s of member %d) changed from %d to %d: the stream is read without error but %s' %
                (pos, reg, i, stream[pos], v, 'as a proper prefix of the data' if o['pre'] else 'as different data'))
    if o.get('stale'):
        return (kind + ':subst:stale-after-error', 'after the error, Seek to the failing block succeeded and Read returned bytes')
    return None


# ------------------------------------------------------- Coq case terms

def coq_term(stream, m, o):
    if m[0] == 0:
        b = stream[:m[1]]
    else:
        b = list(stream)
        b[m[1]] = m[2]
    return 'mkCCase %s %s %s %s' % (clist(b), clist(list(bytes.fromhex(o.get('d', '')))), cz(o['e']), cz(o['eof']))


def stored_header_positions(lay, stream):
    """Positions of the stored-block header bytes of level-0 members (the Coq model only knows stored blocks)."""
    ps = set()
    b = lay['bounds']
    for i in range(len(b) - 1):
        p = b[i] + 18
        end = b[i + 1] - 8
        while p < end:
            ps.add(p)
            if stream[p] == 3:
                ps.add(p + 1)
            if p + 5 > end:
                break
            ln = stream[p + 1] | stream[p + 2] << 8
            p += 5 + ln
    return ps


def run(res, rng, tier):
    ws = workloads(rng, tier)
    t0 = time.time()
    base = core.run_harness('c10', [dict(w, rd=1, muts=[], full=True) for w in ws], jobs=4)
    cases = []
    maxlen = 600 if tier == 'quick' else 4096
    ex = rng.randrange(len(ws))
    for wi, (w, lay) in enumerate(zip(ws, base)):
        if 'len' not in lay:
            res.corr_bad.append(dict(case=w, obs=lay))
            continue
        n = lay['len']
        if n > maxlen and not w.get('big'):
            continue
        if w.get('maxmember'):
            b = lay['bounds']
            st = lay['stream']
            muts = [[0, k] for k in (b[1] - 9, b[1] - 8, b[1] - 4, b[1] - 1, b[1], n - 28)]
            for i in range(len(b) - 2):
                for pos in range(b[i + 1] - 8, b[i + 1]):          # CRC-32 and ISIZE of the member
                    muts += [[1, pos, st[pos] ^ 1], [1, pos, st[pos] ^ 0x80]]
                span = b[i + 1] - 8 - (b[i] + 18)
                for k in range(12):                                 # bytes of its deflate data
                    pos = b[i] + 18 + (k * span) // 12 + rng.randrange(max(1, span // 12))
                    muts.append([1, pos, st[pos] ^ (1 << rng.randrange(8))])
            res.count('bgzf/max-member-mutations', len(muts))
        elif w.get('big'):
            # only the computed merge targets, the BSIZE bytes of member 0 around them, and a few cuts
            muts = merge_targets(lay) + [[0, k] for k in (0, 18, lay['bounds'][1], lay['bounds'][1] + 18, n - 28, n - 1)]
            res.count('%s/full-block-merge-targets' % w['kind'], sum(1 for m in merge_targets(lay) if m[1] < lay['bounds'][1]))
        else:
            muts = mutations(rng, tier, w, lay, n, exhaustive_framing=(wi == ex or tier != 'quick'), bsize_all=(tier != 'quick' or wi % 3 == 0))
        res.count('%s/bsize-merge-targets' % w['kind'], len(merge_targets(lay)))
        for rd in (1, 2):
            step = 1500
            for i in range(0, len(muts), step):
                full = (w['kind'] == 'bgzf' and w['level'] == 0 and rd == 1 and not w.get('big'))
                cases.append((wi, dict(w, rd=rd, muts=muts[i:i + step], full=full, reseek=(rd == 1))))
    obs = core.run_harness('c10', [c for _, c in cases], jobs=8, case_timeout='120s')
    res.notes.append('harness %.1fs' % (time.time() - t0))
    terms = []
    for (wi, c), o in zip(cases, obs):
        w, lay = ws[wi], base[wi]
        stream = lay['stream']
        if 'obs' not in o:
            res.corr_bad.append(dict(case=dict(c, muts=len(c['muts'])), obs={k: v for k, v in o.items() if k != 'stack'}))
            res.failures.append(dict(sig='%s:harness-case-failed' % w['kind'], what=str(o)[:300], case=dict(c, muts=c['muts'][:3])))
            continue
        hdrpos = stored_header_positions(lay, stream) if c.get('full') else set()
        for m, ob in zip(c['muts'], o['obs']):
            res.evaluations += 1
            reg = 'trunc' if m[0] == 0 else region(lay, m[1])[0]
            res.count('%s/rd=%d/%s/%s' % (w['kind'], c['rd'], reg.split(':')[-1].rstrip('0123456789'), ['clean', 'error', 'panic'][ob['e']]))
            if m[0] == 0 or stream[m[1]] != m[2]:
                res.nontrivial.add((wi, tuple(m)))
            f = oracle(w, lay, stream, m, ob)
            if f:
                res.failures.append(dict(sig=f[0], what=f[1], case=dict(w, rd=c['rd'], muts=[m], full=False, reseek=c.get('reseek', False)),
                                         observed=ob, expected='an error, or exactly the original data; a clean end only at a block (and record) boundary with HasEOF false'))
            if c.get('full') and not (m[0] == 1 and m[1] in hdrpos) and ob['e'] != 2:
                if rng.random() < ((0.5 if m[0] == 0 else 0.04) if tier == 'quick' else (1.0 if m[0] == 0 else 0.2)):
                    terms.append((w, m, ob, coq_term(stream, m, ob)))
    cap = 450 if tier == 'quick' else 4000
    if len(terms) > cap:
        terms = rng.sample(terms, cap)
    t0 = time.time()
    bad, err = core.coq_mismatches(HEADER, 'ccase', 'ccase_agree', [t[3] for t in terms], 'c10', shard=400)
    res.notes.append('coq evaluation %.1fs for %d cases' % (time.time() - t0, len(terms)))
    if err:
        res.corr_bad.append(dict(error=err))
    for i in bad:
        w, m, ob, t = terms[i]
        res.corr_bad.append(dict(case=dict(w, muts=[m]), obs=ob, coq_case=t[:600], note='byte-level model (stored deflate, CRC-32 computed in Coq) and implementation disagree'))
    res.extra['traces_validated_against_impl'] = len(terms)
    res.extra['exhaustive'] = True
    res.rule = ('small closed streams written by bgzf.Writer / bam.Writer (levels 0,-1,1,9; multi-block, empty blocks, Write/Flush/Close; BAM with flushes at and inside record boundaries); '
                'for each stream EVERY truncation length 0..len-1 and, at every byte position, a set of substituted values (0,1,0x80,0xff + random; all 256 values on the framing bytes of one stream per run, of every stream in thorough), '
                'each read with rd=1 and rd=2; a mutation is non-trivial when it changes the stream; distinct by (stream, mutation)')
    res.samples = [dict(workload=ws[wi], mutation=c['muts'][k], observed=o['obs'][k]) for (wi, c), o in list(zip(cases, obs))[:3] for k in (0, len(c['muts']) // 2) if 'obs' in o]
    res.trusted = TRUSTED
    res.assumptions = ASSUME


def replay(res, rp):
    c = rp.get('case')
    if not c:
        print(json.dumps(rp, indent=1)[:4000])
        return 0
    lay = core.run_harness('c10', [dict(c, muts=[], full=True)])[0]
    o = core.run_harness('c10', [c])[0]
    rc = 0
    for m, ob in zip(c['muts'], o.get('obs', [])):
        f = oracle(c, lay, lay['stream'], m, ob)
        print('mutation :', m, ' observed :', ob, ' oracle :', f)
        if f:
            rc = 1
    return rc


TRUSTED = [
    'Coq 8.16.1 kernel (coqc); vm_compute for case evaluation',
    'DEFLATE and CRC-32 are Section variables of the theorems (inflate with the law "inflate (deflate d ++ r) = (d, r)", crc32 uninterpreted); for the comparison run they are instantiated by a stored-block inflater and a bitwise CRC-32 written in Coq, on level-0 streams',
    'compress/gzip header parsing and multistream behaviour are modelled by hand from gunzip.go',
    'the oracle (Python) uses the BSIZE framing and compress/gzip / the SAM specification layout computed by the harness on the untouched stream',
    'axioms: none',
]
ASSUME = [
    'a substitution inside the deflate payload that yields data with equal CRC-32 and length cannot be excluded (stated as corruption_payload_partial)',
    'BAM layer: judged by the oracle on the implementation (record framing is not in the Coq model)',
]

CLAIM = dict(
    text='Machine-checked proof (Coq 8.16.1) over a byte-level model of the BGZF member reader on arbitrary bytes (gzip header parse, BSIZE, exact-size member read, inflate as a Section function, CRC-32/ISIZE check, multistream, HasEOF): '
         'every proper prefix of a closed stream yields a prefix of the data and then an error, or a clean end exactly at a member boundary; accepted data always carries the CRC-32 and length stored in the trailer; a changed CRC/ISIZE byte is rejected. '
         'The model is evaluated in Coq (stored deflate + CRC-32 in Coq) on every truncation and on sampled substitutions of level-0 streams and compared with the implementation; an independent oracle judges every truncation length and byte substitution of small BGZF and BAM streams for rd=1,2.',
    note='Proved: truncation incl. HasEOF not true at the cut and the BAM record layer (framing level); CRC/ISIZE, BSIZE (any value; multistream joins members), ID1/ID2/CM, ignored FLG bits. Partial: payload substitutions that keep CRC-32 and length cannot be excluded; FLG with FEXTRA cleared or FNAME/FCOMMENT/FHCRC set, XLEN, SI1/SI2/SLEN are decided by enumeration on the implementation only. DEFLATE laws: inflate(deflate d ++ r) = (d, r); a proper prefix of a deflate stream does not decode.',
    technique='Coq proof over a byte-level parser model with DEFLATE/CRC as Section variables + vm_compute correspondence on stored streams + exhaustive mutation oracle',
    design='6/C10')
