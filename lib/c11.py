"""C11: decoders are total (value or error, never a panic or hang; returned
values are safe to hand to the library's own accessors / writers)."""
import json
import os
import re
import subprocess

import core
import c11gen as g
import c11coq

PROPS = 'Props/C11.v'
MEM_KB = 2500000          # ulimit -v of the harness process in kB (memory guard)
CASE_TIMEOUT = "5s"


# ------------------------------------------------------------------ running

def run_cases_par(cases, jobs=6):
    """run_cases on interleaved shares of the cases in parallel processes."""
    from concurrent.futures import ThreadPoolExecutor
    if len(cases) < 4 * jobs:
        return run_cases(cases)
    shares = [cases[i::jobs] for i in range(jobs)]
    with ThreadPoolExecutor(max_workers=jobs) as ex:
        outs = list(ex.map(run_cases, shares))
    obs = [None] * len(cases)
    for i, o in enumerate(outs):
        obs[i::jobs] = o
    return obs


def recheck_hangs(cases, obs):
    """A case that did not return in time is run again alone, with longer
    watchdogs: slow zeroing of a declared gigabyte on a loaded machine is not a hang."""
    global CASE_TIMEOUT
    idx = [i for i, o in enumerate(obs) if o.get('hang') or any(p['r'] == 'hang' for p in o.get('post', []))]
    old = CASE_TIMEOUT
    CASE_TIMEOUT = '25s'
    os.environ['VERIF_POST_TIMEOUT'] = '20s'
    try:
        for i in idx[:400]:
            o2 = run_cases([cases[i]])[0]
            o2['rechecked'] = True
            obs[i] = o2
    finally:
        CASE_TIMEOUT = old
        os.environ.pop('VERIF_POST_TIMEOUT', None)
    return len(idx)


def run_cases(cases):
    """Run the cases in harness processes under a memory limit; a process that
    dies (out of memory) or ends itself after a hang is restarted on the rest."""
    obs = []
    todo = list(cases)
    restarts = 0
    while todo:
        inp = ''.join(json.dumps(c, separators=(',', ':')) + '\n' for c in todo)
        env = dict(core.GOENV, VERIF_CASE_TIMEOUT=CASE_TIMEOUT)
        if os.environ.get('VERIF_POST_TIMEOUT'):
            env['VERIF_POST_TIMEOUT'] = os.environ['VERIF_POST_TIMEOUT']
        p = subprocess.run(['bash', '-c', 'ulimit -v %d; exec %s c11' % (MEM_KB, os.path.join(core.BIN, 'harness'))],
                           input=inp, env=env, timeout=3000, stdout=subprocess.PIPE, stderr=subprocess.PIPE, text=True, errors='replace')
        got = []
        for l in p.stdout.splitlines():
            try:
                got.append(json.loads(l))
            except ValueError:
                got.append({'garbled': l[:200]})
        obs.extend(got)
        todo = todo[len(got):]
        if not todo:
            break
        restarts += 1
        if p.returncode == 3 and got and (got[-1].get('hang') or any(x.get('r') == 'hang' for x in got[-1].get('post', []))):
            continue        # ended itself after a hang was reported; go on with the rest
        err = p.stderr
        m = re.search(r'cannot allocate (\d+)-byte block \((\d+) in use\)', err)
        if m or 'out of memory' in err or 'cannot allocate memory' in err:
            want, used = (int(m.group(1)), int(m.group(2))) if m else (0, 0)
            fr = re.findall(r'github\.com/biogo/hts/([A-Za-z0-9_/\.\(\)\*]+)\(', err)
            # a single make() of a length the input declares, or memory that kept growing (append / buffer growth)?
            head = err.split('\n\ngoroutine', 2)
            first = head[1] if len(head) > 1 else err
            grow = 'runtime.growslice' in first or 'bytes.(*Buffer).grow' in first
            obs.append({'oom': True, 'want': want, 'used': used, 'grow': grow, 'where': fr[0] if fr else '?'})
        elif re.search(r'^panic: ', err, flags=re.M):
            # a panic outside the goroutine that runs the case (read-ahead worker of the BGZF reader): it
            # cannot be recovered and ends the process; it is the observation of the case that was running
            msg = re.search(r'^panic: (.*)$', err, flags=re.M).group(1)
            obs.append({'panic': msg[:200], 'stack': err[:6000], 'goroutine': True})
        else:
            obs.append({'crash': True, 'rc': p.returncode, 'stderr': err[-1500:]})
        todo = todo[1:]
        if restarts > 400:
            obs.extend({'crash': True, 'rc': -1, 'stderr': 'too many restarts'} for _ in todo)
            break
    return obs


# ------------------------------------------------------------------- oracle

def norm_msg(s):
    s = re.sub(r'0x[0-9a-f]+|\d+', 'N', s)
    s = re.sub(r'\[[^\]]*\]', '[N]', s)
    return re.sub(r'[^A-Za-z\[\]: ]+', '', s)[:60].strip().replace(' ', '-')


def lib_frame(stack):
    stack = stack or ''
    if 'main.c11run' in stack:      # goroutine dump of a hang: the goroutine that runs the case
        for blk in stack.split('\n\n'):
            if 'main.c11run' in blk:
                stack = blk
                break
    for m in re.finditer(r'github\.com/biogo/hts/([A-Za-z0-9_/\.\(\)\*]+)\(', stack or ''):
        return m.group(1).replace('(*', '').replace(')', '')
    return '?'


def oracle(c, o):
    """The property itself: the decoder call returned (value or error) and every
    accessor applied to a returned value returned.  Yields (sig, what)."""
    op = c['op']
    out = []
    if o.get('hang'):
        out.append(('%s:hang:%s' % (op, lib_frame(o.get('stack'))), 'decoder call did not return within %s' % CASE_TIMEOUT))
    elif 'panic' in o and op == 'bgzfops':
        out.append(('bgzfops:rd%d:%s:%s:panic:%s' % (c.get('rd', 1), 'cache' if c.get('cache') else 'nocache', 'goroutine' if o.get('goroutine') else 'NewReader', norm_msg(o['panic'])),
                    'panic outside the calling goroutine / in NewReader: %s' % o['panic']))
    elif 'panic' in o:
        out.append(('%s:panic:%s:%s' % (op, lib_frame(o.get('stack')), norm_msg(o['panic'])), 'decoder panicked: %s' % o['panic']))
    elif o.get('oom'):
        if o.get('grow'):
            out.append(('%s:oom-runaway:%s' % (op, o.get('where', '?')), 'memory grew without bound (%d bytes in use) although no length in the input asks for it' % o['used']))
    elif o.get('crash') or o.get('garbled') or o.get('bad_case') or o.get('encode_error'):
        out.append(('%s:harness-crash' % op, 'harness process died: %s' % str(o)[:300]))
    for p in o.get('post', []):
        if p['r'] != 'ok' and op == 'bgzfops':
            # one call of an operation history: the configuration is part of the signature
            kind = 'hang' if p['r'] == 'hang' else 'panic:' + norm_msg(p['r'][7:])
            call = (c.get('ops') or [[0]])[min(int(p['name'][4:]), len(c.get('ops') or [[0]]) - 1)]
            out.append(('bgzfops:rd%d:%s:%s:%s' % (c.get('rd', 1), 'cache' if c.get('cache') else 'nocache', 'Seek' if call[0] == 0 else 'Read', kind),
                        '%s (call %s of the history %s) on a stream with a damaged member: %s' % ('Seek' if call[0] == 0 else 'Read', p['name'][4:], c.get('ops'), p['r'])))
        elif p['r'] != 'ok':
            kind = 'hang' if p['r'] == 'hang' else 'panic:' + norm_msg(p['r'][7:])
            out.append(('%s:post:%s:%s' % (op, p['name'], kind), '%s on the value returned by the decoder: %s' % (p['name'], p['r'])))
    return out


def slim(o):
    o = {k: v for k, v in o.items() if k != 'stack'}
    if 'post' in o:
        bad = [p for p in o['post'] if p['r'] != 'ok']
        o['post'] = bad if bad else '%d accessor calls ok' % len(o['post'])
    return o


# --------------------------------------------------------------- generators

def hx(b):
    return bytes(b).hex()


def gen_cases(rng, tier):
    """Returns list of (case, bucket-label, huge?)."""
    q = tier == 'quick'
    K = 1 if q else 12
    cases = []

    def add(op, x, label, **kw):
        c = dict(op=op, x=hx(x))
        c.update(kw)
        cases.append((c, '%s/%s' % (op, label)))

    # CIGAR operation type table lookups: all 256 byte values
    for t in range(256):
        add('optype', bytes([t]), 'all')
    # binary CIGARs on a record (End, IsValid, Lengths, String): every op type
    for t in range(16):
        for ln in (0, 1, 2**28 - 1):
            add('cigarops', g.u32(ln << 4 | t), 'type%d' % min(t, 10), n=rng.choice([0, 100]))
    for _ in range(40 * K):
        n = rng.randrange(0, 6)
        add('cigarops', b''.join(g.u32(rng.choice([0, 1, 5, 2**28 - 1]) << 4 | rng.randrange(16)) for _ in range(n)), 'random', n=rng.choice([-1, 0, 100, 2**29]))
    # CIGAR text
    for t in g.CIGAR_TEXTS:
        add('cigar', t, 'list', n=5)
    for _ in range(120 * K):
        add('cigar', g.gen_cigar_text(rng), 'gen', n=rng.choice([0, 5, 10]))
    # aux text
    for t in g.AUX_TEXTS:
        add('aux', t, 'list')
    for _ in range(150 * K):
        add('aux', g.gen_aux_text(rng), 'gen')
    # accessors on raw aux bytes as the BAM reader hands them out
    for a in g.AUX_BIN:
        b = g.aux_bin(*a)
        if a[1] in 'ZH':
            b = b[:-1]
        add('auxval', b, 'valid')
    # header text
    for _ in range(25 * K):
        add('hdrtext', g.header_text(g.gen_header_lines(rng), rng.choice([b'\n', b'\n', b'\r\n'])), 'valid')
    for _ in range(260 * K):
        ls = g.mutate_header_lines(rng, g.gen_header_lines(rng))
        t = g.header_text(ls, rng.choice([b'\n', b'\n', b'\n', b'\r\n']))
        if rng.random() < 0.1:
            t = t[:-1]
        if rng.random() < 0.1:
            t = g.mutate_bytes(rng, t)
        add('hdrtext', t, 'mutated')
    for t in [b'', b'\n', b'\r\n', b'@', b'@\n', b'@H', b'@HD', b'@HD\n', b'@HD\t', b'@HD\tVN', b'@HD\tVN:', b'@HD\tVN:1', b'@SQ\tSN\tLN', b'@SQ\t\t', b'@RG\tI', b'@PG\t', b'@CO', b'@CO\t',
              b'@CO\ta\tb', b'\r', b'@HD\r', b'x']:
        add('hdrtext', t, 'tiny')
    # SAM records (no header: fake references; with header)
    htext = b'@HD\tVN:1.6\n@SQ\tSN:chr1\tLN:1000000000\n@SQ\tSN:chr2\tLN:1000\n@RG\tID:rg0\tPU:unit\tLB:lib\n@PG\tID:p0\n'
    for _ in range(30 * K):
        fs = g.gen_sam_fields(rng)
        add('samrec', b'\t'.join(fs), 'valid', h=rng.choice(['', hx(htext)]))
    for _ in range(200 * K):
        fs = g.mutate_sam_fields(rng, g.gen_sam_fields(rng))
        add('samrec', b'\t'.join(fs), 'mutated', h=rng.choice(['', hx(htext)]))
    # SAM reader: header + lines, line terminators, empty lines, no final newline
    for _ in range(80 * K):
        hdr = g.header_text(g.gen_header_lines(rng, nref=2)) if rng.random() < 0.6 else b''
        lines = [b'\t'.join(g.gen_sam_fields(rng)) for _ in range(rng.randrange(0, 4))]
        if rng.random() < 0.5 and lines:
            k = rng.randrange(len(lines))
            lines[k] = b'\t'.join(g.mutate_sam_fields(rng, lines[k].split(b'\t')))
        r = rng.random()
        if r < 0.25:
            lines.insert(rng.randrange(len(lines) + 1), rng.choice([b'', b'\r', b'\r\r']))
        nl = rng.choice([b'\n', b'\n', b'\r\n'])
        t = hdr + b''.join(l + nl for l in lines)
        if rng.random() < 0.2 and t:
            t = t[:-1]
        if rng.random() < 0.15:
            t = g.mutate_bytes(rng, t)
        add('samreader', t, 'gen')
    for t in [b'', b'\n', b'\r\n', b'\n\n', b'@', b'@HD\tVN:1.0', b'@HD\tVN:1.0\n', b'@HD\tVN:1.0\n\n', b'@CO\tx\n@', b'a\n', b'\r']:
        add('samreader', t, 'tiny')

    # binary header
    for _ in range(14 * K):
        refs = [(b'chr%d' % i, rng.choice([1, 1000, 2**31 - 1])) for i in range(rng.randrange(0, 4))]
        fs = g.bam_header_fields(g.header_text(g.gen_header_lines(rng, nref=0)), refs)
        add('hdrbin', g.join(fs), 'valid')
        for _ in range(8):
            m, lab = g.mutate_fields(rng, fs)
            add('hdrbin', g.join(m), lab)
    # BAM streams: header + records
    for tr in range(18 * K):
        refs = [(b'chr%d' % i, 2**29) for i in range(rng.randrange(0, 3))]
        text = b''.join(b'@SQ\tSN:%s\tLN:%d\n' % r for r in refs)
        if rng.random() < 0.5:
            text = b'@HD\tVN:1.6\n' + text + b'@RG\tID:rg0\n@PG\tID:p0\n'
        hdr = g.join(g.bam_header_fields(text, refs))
        recs = []
        for _ in range(rng.randrange(1, 3)):
            recs += g.bam_record_fields(rng, len(refs), big=(tr % 9 == 0))
        add('bam', hdr + g.join(recs), 'valid', omit=rng.randrange(3), rd=rng.choice([1, 2]))
        for _ in range(9):
            r = rng.random()
            if r < 0.3:
                m, lab = g.mutate_fields(rng, recs)
            elif r < 0.55:
                m, lab = g.mutate_fields(rng, recs)
                m = g.fix_block_size(m)
                lab += '+bsfix'
            elif r < 0.8:
                # aux region edits: degenerate tags appended / replacing, block size kept consistent
                m = list(recs)
                bad = g.F('auxbad', rng.choice(g.AUX_BAD), 'aux')
                if rng.random() < 0.3:
                    bad = g.F('auxbad', bad.b + bytes(rng.randrange(256) for _ in range(rng.randrange(0, 6))), 'aux')
                if rng.random() < 0.5:
                    m.append(bad)
                else:
                    ai = [i for i, f in enumerate(m) if f.kind == 'aux']
                    if ai:
                        m[rng.choice(ai)] = bad
                    else:
                        m.append(bad)
                m = g.fix_block_size(m)
                lab = 'auxbad+bsfix'
            else:
                # cigar op type / fixed field edits
                m = list(recs)
                ci = [i for i, f in enumerate(m) if f.name == 'cigar' and f.b]
                if ci:
                    i = rng.choice(ci)
                    b = bytearray(m[i].b)
                    b[0] = (b[0] & 0xf0) | rng.randrange(9, 16)
                    m[i] = g.F('cigar', b, 'data')
                    lab = 'cigar-optype'
                else:
                    m, lab = g.mutate_fields(rng, recs)
            add('bam', hdr + g.join(m), lab, omit=rng.choice([0, 0, 0, 1, 2]), rd=1)
    # every degenerate aux tag at the very end of the aux block, where the block ends exactly at the
    # capacity of the buffer: private buffer of a record > 4096 bytes, and shared buffer with an aux
    # block whose length is an allocation size class (slice expressions check capacity, not length)
    brefs = [(b'chr0', 2**29)]
    bhdr = g.join(g.bam_header_fields(b'@SQ\tSN:chr0\tLN:536870912\n', brefs))
    for k, bad in enumerate(g.AUX_BAD):
        for big in (True, False):
            fsr = [f for f in g.bam_record_fields(rng, 1, big=big) if f.kind != 'aux']
            pad = b''
            if not big:
                for n in range(0, 40):
                    if (4 * n + len(bad)) in (8, 16, 24, 32, 48, 64, 80, 96, 112, 128):
                        pad = b'XAAq' * n
                        break
            fsr += [g.F('auxpad', pad, 'aux'), g.F('auxbad', bad, 'aux')]
            add('bam', bhdr + g.join(g.fix_block_size(fsr)), 'auxbad-at-capacity', omit=0, rd=1)
    for s in g.crashers(os.path.join(core.REPO, 'bam', 'bam_test.go')):
        add('bam', s, 'crasher', rd=1)
    # BGZF
    for s in g.crashers(os.path.join(core.REPO, 'bgzf', 'bgzf_test.go')):
        add('bgzf', s, 'crasher', rd=1)
        add('bgzf', s, 'crasher', rd=2)
    for _ in range(12 * K):
        fs = g.bgzf_fields(rng)
        add('bgzf', g.join(fs), 'valid', rd=rng.choice([1, 2]))
        for _ in range(6):
            m, lab = g.mutate_fields(rng, fs)
            add('bgzf', g.join(m), lab, rd=rng.choice([1, 1, 2]))
    # gzip member headers in front of the BGZF reader: XLEN edits, subfield layouts, SLEN edits, truncated extra,
    # BC not first, optional header parts; in the first member (NewReader) and in the second (Read)
    for hdr, lab in g.bgzf_header_variants(rng):
        good = g.join(g.bgzf_member_fields(0, b'ACGT' * 10))
        for pos in (0, 1):
            x = (good if pos else b'') + hdr + g.join(g.bgzf_member_fields(9, b''))
            for rd in (1, 2):
                add('bgzf', x, 'hdr:' + lab, rd=rd, m=pos)
    # operation histories on streams with one damaged member (intact header): the damaged member is asked for twice
    for stream, hist, lab in g.bgzf_ops_cases(rng, 70 * K):
        for rd in (1, 2):
            add('bgzfops', stream, lab, rd=rd, ops=hist, cache=rng.choice([0, 0, 1, 2, 3]))
    # indexes
    for op, mk in (('bai', g.bai_fields), ('tbi', g.tbi_fields), ('csi', g.csi_fields)):
        for _ in range(14 * K):
            fs = mk(rng)
            add(op, g.join(fs), 'valid')
            for _ in range(8):
                if op == 'csi' and rng.random() < 0.25:
                    m, lab = g.mutate_shift(rng, fs)
                else:
                    m, lab = g.mutate_fields(rng, fs)
                add(op, g.join(m), lab)
    # FAI / FASTA
    for _ in range(14 * K):
        ls = g.fai_text(rng)
        add('fai', b''.join(b'\t'.join(l) + b'\n' for l in ls), 'valid')
        for _ in range(6):
            m = g.mutate_fai(rng, ls)
            t = b''.join(b'\t'.join(l) + b'\n' for l in m)
            if rng.random() < 0.2:
                t = g.mutate_bytes(rng, t, [9, 10, 13, 34, 0x30, 0x2d])
            add('fai', t, 'mutated')
        fa = g.fasta_text(rng)
        add('fasta', fa, 'valid')
        for _ in range(4):
            add('fasta', g.mutate_bytes(rng, fa), 'mutated')
    for _ in range(40 * K):
        l = g.mutate_fai(rng, g.fai_text(rng)[:1])[0]
        add('fai', b'\t'.join(l) + b'\n', 'single')
    # ITF-8 arrays of the CRAM stream reader (count feeds make)
    for _ in range(60 * K):
        n = rng.choice([0, 1, 2, 3, 5, 40])
        vals = [rng.choice([0, 1, -1, 127, 128, 2**14, 2**21, 2**28, -2**31, 2**31 - 1]) for _ in range(n)]
        cnt = rng.choice([n, n, n, n + 1, n - 1, -1, -2**31, 0, 2**31 - 1, 1000])
        b = g.itf8(cnt) + b''.join(g.itf8(v) for v in vals)
        r = rng.random()
        if r < 0.3 and b:
            b = b[:rng.randrange(len(b))]
        elif r < 0.4 and b:
            bb = bytearray(b)
            bb[rng.randrange(len(bb))] ^= 1 << rng.randrange(8)
            b = bytes(bb)
        add('itf8slice', b, 'gen')
    # CRAM
    for _ in range(12 * K):
        fs = g.cram_fields(rng)
        add('cram', g.join(fs), 'valid')
        for _ in range(10):
            m, lab = g.mutate_cram(rng, fs)
            add('cram', g.join(m), lab)
    return cases


def nontrivial_key(c, o):
    """A case is non-trivial when the decoder got past its first check: it
    returned a value, panicked/hung, or failed with an error that is not the
    magic-number / too-few-fields rejection."""
    if 'panic' in o or o.get('hang') or o.get('oom'):
        return (c['op'], c['x'][:64], 'abn')
    if o.get('cls') == 'ok':
        return (c['op'], c['x'][:64], 'ok')
    e = o.get('err', '')
    if 'magic' in e or 'missing SAM fields' in e or e in ('EOF', 'unexpected EOF'):
        return None
    return (c['op'], c['x'][:64], 'err')


def run(res, rng, tier):
    gen = gen_cases(rng, tier)
    corpus = load_corpus()
    allc = [(c, 'corpus/' + c['op']) for c in corpus] + gen
    cases = [c for c, _ in allc]
    import time
    t0 = time.time()
    obs = run_cases_par(cases)
    t1 = time.time()
    res.extra['hangs_rechecked_alone'] = recheck_hangs(cases, obs)
    t2 = time.time()
    memguard = 0
    for (c, lab), o in zip(allc, obs):
        res.evaluations += 1
        cls = 'panic' if 'panic' in o else 'hang' if o.get('hang') else 'memguard' if o.get('oom') else o.get('cls', 'crash')
        res.count('%s -> %s' % (re.sub(r'\+.*', '+', lab), cls))
        k = nontrivial_key(c, o)
        if k:
            res.nontrivial.add(k)
        if o.get('oom') and not o.get('grow'):
            memguard += 1
        for sig, what in oracle(c, o):
            res.failures.append(dict(sig=sig, what=what, case=c, observed=slim(o), expected='a value or an error, and accessors that return'))
    res.extra['memory_guard_not_judged'] = memguard
    res.extra['test_part'] = ('structure-aware mutation fuzz of the real decoders under recover()/watchdog/ulimit -v %d kB: a test, not a proof; '
                              'library decoders used by them (strconv, hex, url, time, csv, gzip, bzip2, lzma) are covered by this part only' % MEM_KB)
    # correspondence: the Coq models evaluated on the cases the implementation ran
    t3 = time.time()
    nterms, bad, err = c11coq.correspond(cases, obs, [lab for _, lab in allc], tier)
    res.extra['traces_validated_against_impl'] = nterms
    res.extra['phase_seconds'] = dict(harness=round(t1 - t0, 1), hang_recheck=round(t2 - t1, 1), coq_correspondence=round(time.time() - t3, 1))
    if err:
        res.corr_bad.append(dict(error=err))
    for b in bad:
        res.corr_bad.append(b)
    res.rule = ('valid encodings of every format (SAM header/record/aux/CIGAR text, BAM header+records under BGZF, BGZF members, BAI/TBI/CSI, FAI/FASTA, CRAM) '
                'as field lists; mutations: count/length field edits (-1, 0, +-1, 2^31-1, -2^31, ...), cuts at and inside fields, field splices, bit flips, '
                'byte substitutions, degenerate aux tags, CRAM edits with checksum fix-up, plus the crasher corpora of bam/ and bgzf/ tests; '
                'non-trivial = the decoder got past its first check (value returned, or an error other than magic/field-count/EOF); distinct by (decoder, input)')
    pick = [i for i, o in enumerate(obs) if o.get('cls') == 'ok'][:2] + [i for i, o in enumerate(obs) if o.get('cls') == 'err'][:2] + [len(obs) - 1]
    res.samples = [dict(case=cases[i], observed=slim(obs[i])) for i in pick]
    res.notes.append('no theorem for: index Chunks beyond the query handling (sort.Search, merge strategies), index writers, '
                     'the BGZF block machinery beyond readMember (cache, read-ahead, inflate) and the library decoders: correspondence and/or fuzz only')
    res.notes.append('the fuzz part is a test: %d decoder runs, %d of them not judged (memory guard)' % (res.evaluations, memguard))
    res.trusted = TRUSTED
    res.assumptions = ASSUME


def load_corpus():
    d = os.path.join(core.ROOT, 'corpus', 'C11')
    out = []
    try:
        names = sorted(os.listdir(d))
    except OSError:
        return out
    for n in names:
        if n.endswith('.json'):
            out.append(json.load(open(os.path.join(d, n))))
    return out


def replay(res, rp):
    c = rp.get('case')
    if not c:
        print(json.dumps(rp, indent=1)[:4000])
        return 0
    o = run_cases([c])[0]
    fl = oracle(c, o)
    print('case     :', c)
    try:
        print('input    :', bytes.fromhex(c['x'])[:200])
    except ValueError:
        pass
    print('observed :', slim(o))
    print('oracle   :', fl)
    return 1 if fl else 0


TRUSTED = [
    'Coq 8.16.1 kernel (coqc); vm_compute used for case evaluation only',
    'hand-written panic-aware models (coq/Model/Dec*.v) of the index/slice/make/explicit-panic sites of the decoders; tied to the code by the tables and '
    'constants regenerated from the Go source (consume, cigarOps, jumps, powers, lastCigar, magic strings) and by evaluating every model on the cases the implementation ran',
    'Go int (64 bit) modelled as unbounded Z; fixed-width conversions wrap explicitly',
    'axioms: none (Print Assumptions: Closed under the global context)',
]
ASSUME = [
    'library decoders (strconv, encoding/hex beyond its index arithmetic, net/url, time, encoding/csv, compress/*, lzma) and map/state dependent header checks '
    'enter the models as arbitrary answers (universally quantified in the theorems) and are exercised by the fuzz part only',
    'inputs that make a decoder ask for more memory than the harness limit are counted and not judged',
    'io.Reader sources are in-memory byte strings (bytes.Reader semantics: short reads only at the end)',
]

CLAIM = dict(
    text='Machine-checked proofs (Coq 8.16.1) that the panic-aware models of the decoders\' index/slice/allocation sites never reach Panic or Stuck on any byte string '
         '(header line parsers, CIGAR tables/End/ParseCigar, SAM line trimming, ParseAux, BAM record parser and parseAux, Aux accessors, binary header, BAI/TBI/CSI '
         'count handling, FAI conversion, CRAM ITF-8 slices and Block.Value), and that returned values are safe for the modelled accessors; the models are evaluated '
         'inside Coq on every case the implementation ran (outcome class and shape must agree). A structure-aware mutation fuzz of the real decoders with recover(), '
         'watchdog and memory guard covers the library-dependent rest (test, named as such).',
    note='Partial: library decoders and concurrency of the BGZF reader are fuzzed only; trusted: Coq kernel, the hand models (validated by correspondence), Go int as Z.',
    technique='Coq proof over panic-aware decoder models + vm_compute correspondence + mutation fuzz oracle',
    design='6/C11')
