"""C11 correspondence: the Coq decoder models evaluated (vm_compute inside coqc)
on the cases the implementation ran; outcome class and projected shape of the
result must agree."""
import re
import struct

import core
from core import cz, cb, clist, copt

HDR = ('From Hts Require Import Base.Prim Base.DecBase Generated Model.DecText Model.DecBam Model.DecIndex Model.DecCram Model.DecBgzf Model.DecSam Model.DecQuery.\n'
       'Open Scope Z_scope.')

ACC = ('Record.End', 'Record.Bin', 'Record.Len', 'Cigar.String', 'Cigar.IsValid', 'Cigar.Lengths', 'Seq.Expand', 'Aux.Tag', 'Aux.Type', 'Aux.Kind',
       'Aux.Value', 'Aux.String', 'Record.String', 'Record.MarshalSAM', 'Record.MarshalText', 'bam.Writer.Write', 'sam.Writer.Write')


def bl(b):
    return clist(list(b))


def klass(o):
    if 'panic' in o:
        return 2
    if o.get('cls') == 'ok':
        return 0
    if o.get('cls') == 'err':
        return 1
    return None


def post(o, name):
    """True when the named accessor panicked."""
    return any(p['name'] == name and p['r'].startswith('panic') for p in o.get('post', []))


def go_atoi(b):
    """strconv.Atoi / ParseInt(s, 10, 64) written from its documentation."""
    try:
        s = bytes(b).decode('ascii')
    except UnicodeDecodeError:
        return None
    if not re.fullmatch(r'[+-]?[0-9]+', s):
        return None
    v = int(s)
    return v if -2**63 <= v < 2**63 else None


def i32at(b, p):
    return struct.unpack_from('<i', b, p)[0]


def split_bam(x):
    """Walk a BAM stream by the format specification: returns the list of record
    blocks (bytes after block_size) that are completely present, or None."""
    try:
        if x[:4] != b'BAM\x01':
            return None
        p = 4
        lt = i32at(x, p); p += 4 + lt
        nr = i32at(x, p); p += 4
        if lt < 0 or nr < 0:
            return None
        for _ in range(nr):
            ln = i32at(x, p); p += 4
            if ln < 1:
                return None
            p += ln + 4
        if p > len(x):
            return None
        out = []
        while p + 4 <= len(x):
            bs = i32at(x, p); p += 4
            if bs <= 0 or p + bs > len(x):
                out.append(None)
                break
            out.append(x[p:p + bs]); p += bs
        return out
    except struct.error:
        return None


def itf8_dec(b, p):
    if p >= len(b):
        return None
    f = b[p]
    n = 1 if f < 0x80 else 2 if f < 0xc0 else 3 if f < 0xe0 else 4 if f < 0xf0 else 5
    if p + n > len(b):
        return None
    return n


def cram_bodies(x):
    """Bodies of the containers of a CRAM stream whose headers can be walked by the specification."""
    out = []
    p = 26
    try:
        while p + 4 <= len(x) and len(out) < 4:
            blen = i32at(x, p); q = p + 4
            for kind in 'iiiilli':
                if kind == 'i':
                    n = itf8_dec(x, q)
                else:
                    f = x[q]
                    n = 1
                    while n < 9 and f & (0x80 >> (n - 1)):
                        n += 1
                    if q + n > len(x):
                        n = None
                if n is None:
                    return out
                q += n
            n = itf8_dec(x, q)
            if n is None or n != 1:
                return out
            cnt = x[q]; q += 1
            for _ in range(cnt):
                n = itf8_dec(x, q)
                if n is None:
                    return out
                q += n
            q += 4
            if blen < 0 or q + blen > len(x):
                return out
            out.append(x[q:q + blen])
            p = q + blen
    except (IndexError, struct.error):
        pass
    return out


def terms_for(c, o):
    """[(family, coq term)] for one case."""
    op = c['op']
    x = bytes.fromhex(c['x'])
    cl = klass(o)
    if cl is None:
        return []
    if op == 'optype':
        return [('text', 'TOpType %d %s %s %s %s %s' % (x[0], cb(post(o, 'Consumes')), cz(o['q']), cz(o['r']), cb(post(o, 'String')), bl(o['s'].encode())))]
    if op == 'cigarops':
        ops = [struct.unpack_from('<I', x, 4 * i)[0] for i in range(len(x) // 4)]
        return [('text', 'TCigarOps false %s %s %s %s %s %s %s' % (cz(c.get('n', 0)), cz(c.get('n', 0)), clist(ops), cb(post(o, 'End')), cz(o.get('end', 0)),
                                                                 cb(post(o, 'Cigar.IsValid')), cb(post(o, 'Cigar.Lengths'))))]
    if op == 'cigar':
        return [('text', 'TCigar %s %d %s %s' % (bl(x), cl, clist(o.get('ops', [])), cz(o.get('nops', 0))))]
    if op == 'aux':
        typ = x[3] if len(x) > 3 else 0
        at = go_atoi(x[5:]) if typ == 0x69 else None
        out = bytes.fromhex(o.get('aux', ''))
        return [('text', 'TAux %s %d %s %s %s %s' % (bl(x), cl, cb(cl != 1), copt(at), bl(out), cb(typ in (0x41, 0x69, 0x5a, 0x48))))]
    if op == 'auxval':
        return [('text', 'TAuxVal %s %s %s %s %s %s' % (bl(x), cb(post(o, 'Aux.Type')), cb(post(o, 'Aux.Kind')), cb(post(o, 'Aux.Value')), cb(post(o, 'Aux.String')),
                                                       cb(post(o, 'Aux.Tag'))))]
    if op == 'samrec':
        if b'\n' in x:
            return []
        r = o.get('rec') or {}
        accp = any(p['r'] != 'ok' and p['name'] in ACC for p in o.get('post', []))
        return [('sam', 'SRecord %s %d %s %s %s %s %s %s %s' % (bl(x), cl, cb(cl != 1), cz(r.get('ncig', 0)), cz(r.get('lseq', 0)), cz(r.get('nseq', 0)),
                                                             cz(r.get('nqual', 0)), clist(r.get('aux', [])), cb(accp)))]
    if op == 'hdrtext':
        return [('text', 'THeader %s %d' % (bl(x), cl))]
    if op == 'hdrbin':
        return [('bam', 'BHeader %s %d %s' % (bl(x), cl, cz(o.get('nref', 0))))]
    if op == 'bam':
        if cl != 0 or len(x) > 20000:
            return []
        blocks = split_bam(x)
        if blocks is None:
            return []
        recs = o.get('recs') or []
        whole = []
        if len(recs) < 64 and len(x) < 6000:
            whole = [('sam', 'SBam %s %d %d %d' % (bl(x), c.get('omit', 0), 0, len(recs)))]
        anyp = any(p['r'] != 'ok' and p['name'] in ACC for p in o.get('post', []))
        if anyp and len(recs) != 1:
            return []
        out = list(whole)
        for i, blk in enumerate(blocks):
            if blk is None:
                break
            if i < len(recs):
                r = recs[i]
                out.append(('bam', 'BRecord %s %d %d 0 %s %s %s %s %s %s %s %s %s %s' % (
                    bl(blk), c.get('omit', 0), o.get('nref', 0), cz(r['ref']), cz(r['pos']), cz(r['name']), cz(r['ncig']), cz(r['flags']), cz(r['lseq']),
                    cz(r['nseq']), cz(r['nqual']), clist(r['aux']), cb(anyp))))
            elif i == len(recs) and o.get('final') == 'err':
                out.append(('bam', 'BRecord %s %d %d 1 0 0 0 0 0 0 0 0 [] false' % (bl(blk), c.get('omit', 0), o.get('nref', 0))))
                break
            else:
                break
        return out
    if op in ('bai', 'tbi', 'csi'):
        if o.get('nil'):
            return [('idx', 'IBai [] 0 1')]      # a nil index for an accepted file never agrees with the model
        extra = []
        if op == 'csi' and cl == 0 and (o.get('nref') or 0) > 0 and len(x) >= 12:
            ms, dp = struct.unpack_from('<ii', x, 4)
            for p in o.get('post', []):
                m = re.fullmatch(r'Chunks\((-?\d+),(-?\d+)\)', p['name'])
                if m:
                    extra.append(('query', 'QCsi %s %s %s %s %s' % (cz(ms), cz(dp), cz(int(m.group(1))), cz(int(m.group(2))), cb(p['r'] == 'hang'))))
            extra = extra[:10]
        ctor = {'bai': 'IBai', 'tbi': 'ITbi', 'csi': 'ICsi'}[op]
        nref = o.get('nref', o.get('nnames', 0)) if op != 'tbi' else o.get('nnames', 0)
        return [('idx', '%s %s %d %s' % (ctor, bl(x), cl, cz(nref or 0)))] + extra
    if op == 'fai':
        if b'\r' in x or x.count(b'\n') != 1 or not x.endswith(b'\n') or len(x) < 2:
            return []
        fields = x[:-1].split(b'\t')
        vals = [go_atoi(f) for f in fields]
        return [('idx', 'IFai %s %s %d %s' % (clist(fields, bl), clist(vals, copt), cl, cb(post(o, 'Record.Position'))))]
    if op == 'bgzf':
        # the first member is fetched by NewReader: its outcome is the model's readMember (+ inflate, a library)
        if c.get('m', 0) != 0 or len(x) > 3000 or o.get('goroutine'):
            return []
        nbs = o.get('cls') == 'err' and 'could not determine block size' in o.get('err', '')
        return [('bgzf', 'GMember %s %d %s' % (bl(x), cl, cb(nbs)))]
    if op == 'itf8slice':
        return [('cram', 'CItf8Slice %s %d %s' % (bl(x), cl, cz(o.get('n', 0))))]
    if op == 'cram':
        if cl != 0:
            return []
        bodies = cram_bodies(x)
        vp = post(o, 'Block.Value')
        if vp and len(bodies) != 1:
            return []
        return [('cram', 'CBlocks %s %s' % (bl(b), cb(vp))) for b in bodies if len(b) < 4000]
    return []


FAM = {'query': ('c11query', 'c11query_agree'), 'sam': ('c11sam', 'c11sam_agree'), 'bgzf': ('c11bgzf', 'c11bgzf_agree'), 'text': ('c11text', 'c11text_agree'), 'bam': ('c11bam', 'c11bam_agree'), 'idx': ('c11idx', 'c11idx_agree'), 'cram': ('c11cram', 'c11cram_agree')}


CAP = {'quick': 100, 'thorough': 1500}


def correspond(cases, obs, labels=None, tier='quick'):
    """Returns (number of model evaluations, list of mismatch dicts, error text).
    Quick tier: per decoder a sample of the cases, one of every (mutation label,
    outcome class) bucket first; every abnormal observation is always included."""
    from concurrent.futures import ThreadPoolExecutor
    cap = CAP.get(tier, 110)
    by = {k: [] for k in FAM}
    perop = {}
    for i, (c, o) in enumerate(zip(cases, obs)):
        ts = terms_for(c, o)
        if not ts:
            continue
        abnormal = 'panic' in o or any(p['r'] != 'ok' for p in o.get('post', []))
        bucket = ((labels[i] if labels else ''), klass(o))
        perop.setdefault(c['op'], []).append((0 if abnormal else 1, bucket, i, ts))
    for op, items in perop.items():
        seen = set()
        first, rest = [], []
        for pr, bucket, i, ts in items:
            if pr == 0 or bucket not in seen:
                seen.add(bucket)
                first.append((i, ts))
            else:
                rest.append((i, ts))
        chosen = (first + rest)[:max(cap, len([1 for pr, _, _, _ in items if pr == 0]))]
        for i, ts in chosen:
            for fam, t in ts:
                if len(t) < 14000:
                    by[fam].append((i, t))
    bad, err, n = [], None, 0

    def one(fam):
        items = by[fam]
        if not items:
            return fam, [], None
        b, e = core.coq_mismatches(HDR, FAM[fam][0], FAM[fam][1], [t for _, t in items], 'c11' + fam, shard=260, jobs=5)
        return fam, b, e

    with ThreadPoolExecutor(max_workers=7) as ex:
        for fam, b, e in ex.map(one, list(FAM)):
            items = by[fam]
            n += len(items)
            if e:
                err = e
            for k in b:
                i, t = items[k]
                o = {kk: v for kk, v in obs[i].items() if kk != 'stack'}
                if 'post' in o:
                    o['post'] = [p for p in o['post'] if p['r'] != 'ok']
                bad.append(dict(case=cases[i], obs=o, coq_case=t[:1500], note='Coq model of the decoder (%s) and the implementation disagree on outcome class / shape' % fam))
    return n, bad, err
