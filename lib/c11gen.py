"""C11 case generators: valid encodings of every format the library decodes,
kept as field lists so that mutations can be structure aware (edit a count or
length field, cut at or inside a field, splice a field of another instance,
flip bits), plus the crasher corpora of the repository's own tests."""
import gzip
import os
import re
import struct
import zlib

import core

# ------------------------------------------------------------------ helpers

def i32(v):
    return struct.pack('<i', ((v + 2**31) % 2**32) - 2**31)


def u32(v):
    return struct.pack('<I', v % 2**32)


def u64(v):
    return struct.pack('<Q', v % 2**64)


def u16(v):
    return struct.pack('<H', v % 2**16)


class F:
    """One field of an encoding: name, bytes, kind in
    {'magic','count','len','int','data','text','crc'}; for count/len fields
    val is the integer and enc the function that re-encodes an edited value."""

    def __init__(self, name, b, kind='data', val=None, enc=None):
        self.name, self.b, self.kind, self.val, self.enc = name, bytes(b), kind, val, enc

    def with_val(self, v):
        return F(self.name, self.enc(v), self.kind, v, self.enc)


def cnt(name, v, kind='count'):
    return F(name, i32(v), kind, v, i32)


def join(fs):
    return b''.join(f.b for f in fs)


# ITF-8 / LTF-8 written from the CRAM specification (as in the C20 oracle)
def itf8(v):
    u = v & 0xffffffff
    if u < 1 << 7:
        return bytes([u])
    if u < 1 << 14:
        return bytes([0x80 | u >> 8, u & 0xff])
    if u < 1 << 21:
        return bytes([0xc0 | u >> 16, (u >> 8) & 0xff, u & 0xff])
    if u < 1 << 28:
        return bytes([0xe0 | u >> 24, (u >> 16) & 0xff, (u >> 8) & 0xff, u & 0xff])
    return bytes([0xf0 | u >> 28, (u >> 20) & 0xff, (u >> 12) & 0xff, (u >> 4) & 0xff, u & 0x0f])


def ltf8(v):
    u = v & 0xffffffffffffffff
    lim = [7, 14, 21, 28, 35, 42, 49, 56]
    n = 9
    for i, b in enumerate(lim):
        if u < (1 << b):
            n = i + 1
            break
    pre = [0, 0x80, 0xc0, 0xe0, 0xf0, 0xf8, 0xfc, 0xfe, 0xff][n - 1]
    hi = (u >> (8 * (n - 1))) if n < 9 else 0
    return bytes([pre | hi] + [(u >> (8 * k)) & 0xff for k in range(n - 2, -1, -1)])


def icnt(name, v, kind='count'):
    return F(name, itf8(v), kind, v, itf8)


# ------------------------------------------------------------ SAM text side

HD_TAGS = ['VN:1.6', 'SO:coordinate', 'GO:query', 'SS:coordinate:queryname', 'xx:other']
SQ_OPT = ['AS:asm', 'M5:0123456789abcdef0123456789abcdef', 'SP:human', 'UR:http://example.org/x.fa', 'UR:/local/x.fa', 'AH:*', 'zz:1']
RG_OPT = ['CN:ctr', 'DS:desc', 'DT:2014-08-13T16:02:01Z', 'DT:2014-08-13', 'DT:2014-08-13T16:02:01+0100', 'FO:ACGT', 'KS:TT', 'LB:lib', 'PG:prog',
          'PI:200', 'PL:ILLUMINA', 'PU:unit', 'SM:sample', 'zz:9']
PG_OPT = ['PN:name', 'CL:cmd -x', 'PP:p0', 'VN:1.0', 'DS:d', 'zz:7']


def gen_header_lines(rng, nref=None):
    """List of header lines, each a list of tab fields (bytes)."""
    lines = []
    if rng.random() < 0.9:
        k = rng.randrange(1, 4)
        lines.append(['@HD'] + [HD_TAGS[0]] + rng.sample(HD_TAGS[1:], k - 1))
    nref = rng.randrange(0, 4) if nref is None else nref
    for i in range(nref):
        opt = rng.sample(SQ_OPT, rng.randrange(0, 3))
        opt = [o for j, o in enumerate(opt) if o[:2] not in [p[:2] for p in opt[:j]]]
        lines.append(['@SQ', 'SN:chr%d' % (i + 1), 'LN:%d' % rng.choice([1, 1000, 2**29, 2**31 - 1])] + opt)
    for i in range(rng.randrange(0, 3)):
        opt = rng.sample(RG_OPT, rng.randrange(0, 4))
        opt = [o for j, o in enumerate(opt) if o[:2] not in [p[:2] for p in opt[:j]]]
        lines.append(['@RG', 'ID:rg%d' % i] + opt)
    for i in range(rng.randrange(0, 3)):
        opt = rng.sample(PG_OPT, rng.randrange(0, 4))
        lines.append(['@PG', 'ID:p%d' % i] + opt)
    for i in range(rng.randrange(0, 2)):
        lines.append(['@CO', 'a comment %d' % i])
    return [[f.encode() for f in l] for l in lines]


def header_text(lines, nl=b'\n'):
    return b''.join(b'\t'.join(l) + nl for l in lines)


SHORT_FIELDS = [b'', b'V', b'VN', b'VN:', b'VNx1', b':::', b'\x00\x00\x00', b'VN:\t', b'V\xff:x', b'SN', b'ID', b'LN:', b'LN:x', b'LN:0', b'LN:-5',
                b'LN:2147483648', b'LN:99999999999999999999', b'SN:', b'ID:', b'M5:', b'M5:zz', b'M5:0', b'M5:' + b'0' * 30, b'M5:' + b'0' * 31,
                b'M5:' + b'0' * 33, b'M5:' + b'a' * 34, b'M5:' + b'f' * 64, b'M5:' + b'0' * 31 + b'g', b'UR:%zz', b'UR::', b'UR:\x7f', b'UR:http://[::1',
                b'DT:', b'DT:x', b'DT:2014', b'DT:2014-13-40', b'DT:::::', b'PI:', b'PI:x', b'PI:99999999999', b'PI:-3', b'SO:bogus', b'GO:bogus', b'VN:']


def mutate_header_lines(rng, lines):
    """Structure-aware mutation of a list of header lines (lists of fields)."""
    lines = [list(l) for l in lines]
    if not lines:
        lines = [[b'@HD', b'VN:1.0']]
    k = rng.randrange(len(lines))
    l = lines[k]
    m = rng.randrange(12)
    if m == 0:      # a field replaced by a degenerate one
        j = rng.randrange(1, len(l)) if len(l) > 1 else 0
        if j:
            l[j] = rng.choice(SHORT_FIELDS)
        else:
            l.append(rng.choice(SHORT_FIELDS))
    elif m == 1:    # degenerate field appended
        l.append(rng.choice(SHORT_FIELDS))
    elif m == 2:    # field cut short
        j = rng.randrange(len(l))
        l[j] = l[j][:rng.randrange(0, 4)]
    elif m == 3:    # duplicate a field / a line
        if rng.random() < 0.5 and len(l) > 1:
            l.append(rng.choice(l[1:]))
        else:
            lines.insert(k, list(l))
    elif m == 4:    # drop a field
        if len(l) > 1:
            del l[rng.randrange(1, len(l))]
        else:
            lines[k] = [l[0][:rng.randrange(0, 4)]]
    elif m == 5:    # record type edits
        l[0] = rng.choice([b'@', b'@H', b'@HD', b'@XX', b'HD', b'', b'@hd', b'@SQ', b'@RG', b'@PG', b'@CO', b'@CO ', b'\x00\x00\x00'])
    elif m == 6:    # empty field (double tab)
        l.insert(rng.randrange(1, len(l) + 1), b'')
    elif m == 7:    # splice: field of another line
        o = rng.choice(lines)
        if len(o) > 1:
            l.append(rng.choice(o[1:]))
    elif m == 8:    # colon moved / removed
        j = rng.randrange(len(l))
        f = bytearray(l[j])
        if f:
            f[rng.randrange(len(f))] = rng.choice(b':\t\x00Az0 ,')
        l[j] = bytes(f).replace(b'\t', b'')
    elif m == 9:    # byte flip somewhere in the line
        j = rng.randrange(len(l))
        f = bytearray(l[j])
        if f:
            f[rng.randrange(len(f))] ^= 1 << rng.randrange(8)
        l[j] = bytes(f).replace(b'\t', b' ').replace(b'\n', b' ')
    elif m == 10:   # reference redefinition (dup path of referenceLine)
        sq = [x for x in lines if x and x[0] == b'@SQ']
        if sq:
            o = list(rng.choice(sq))
            if rng.random() < 0.5:
                o.append(rng.choice([b'AS:other', b'SP:x', b'LN:7', b'M5:' + b'1' * 32]))
            if rng.random() < 0.3:
                o = [f for f in o if not f.startswith(b'LN:')]
            lines.append(o)
    else:           # two mutations
        return mutate_header_lines(rng, mutate_header_lines(rng, lines))
    return lines


CIGAR_TEXTS = [b'*', b'', b'5M', b'5M3', b'3', b'M', b'MM', b'5M3I2D', b'10M2B3M', b'1X1=1P1H1S1N', b'5Q', b'5m', b'05M', b'0M', b'268435455M', b'268435456M',
               b'536870911M', b'1000000000000M', b'9999999999999M', b'10000000000000M', b'99999999999999999999M', b'5M-3M', b'5M 3M', b'5M*', b'**', b'5M\x00',
               b'1M' * 40, b'5M12', b'5M3I7', b'5MM', b'4H5M', b'5M4H', b'1S2H', b'2H1S3M', b'3M1S2M', b'1:M', b'/M', b'5\xffM', b'1B', b'7B2M', b'3=']


def gen_cigar_text(rng):
    if rng.random() < 0.5:
        return rng.choice(CIGAR_TEXTS)
    n = rng.randrange(1, 6)
    s = b''
    for _ in range(n):
        s += str(rng.choice([0, 1, 2, 5, 10, 100, 2**28 - 1, 2**28, 2**29 + 3])).encode() + bytes([rng.choice(b'MIDNSHP=XB')])
    if rng.random() < 0.4:
        b = bytearray(s)
        p = rng.randrange(len(b))
        r = rng.random()
        if r < 0.3:
            del b[p]
        elif r < 0.6:
            b[p] = rng.choice(b'0123456789MIDNSHP=XB*?@ \x00\xff:/')
        elif r < 0.8:
            b = b[:p]
        else:
            b += rng.choice([b'1', b'22', b'M', b'*', b'0'])
        s = bytes(b)
    return s


AUX_TEXTS = [b'XY:A:a', b'XY:A:', b'XY:A:ab', b'XY:i:5', b'XY:i:-5', b'XY:i:', b'XY:i:x', b'XY:i:+7', b'XY:i:127', b'XY:i:128', b'XY:i:-129', b'XY:i:255', b'XY:i:256',
             b'XY:i:65535', b'XY:i:65536', b'XY:i:-32769', b'XY:i:2147483647', b'XY:i:2147483648', b'XY:i:4294967295', b'XY:i:4294967296', b'XY:i:-2147483648',
             b'XY:i:-2147483649', b'XY:i:99999999999999999999', b'XY:i:0x10', b'XY:f:1.5', b'XY:f:', b'XY:f:nan', b'XY:f:inf', b'XY:f:1e400', b'XY:f:x',
             b'XY:Z:text', b'XY:Z:', b'XY:Z:a', b'XY:H:1AE3', b'XY:H:1', b'XY:H:1AE', b'XY:H:zz', b'XY:H:', b'XY:B:c', b'XY:B:c,', b'XY:B:c,1', b'XY:B:c,1,2,3',
             b'XY:B:C,255', b'XY:B:C,256', b'XY:B:s,-32768,5', b'XY:B:S,65535', b'XY:B:i,1,-2', b'XY:B:I,4294967295', b'XY:B:f,1.5,2', b'XY:B:f,x', b'XY:B:x,1',
             b'XY:B:,1', b'XY:B:cc1', b'XY:B:c,1,,2', b'XY:B:c,128', b'XY:B:', b'XY:B:Z,1', b'XY:B:A,1', b'XY:B', b'XY:', b'XY', b'X', b'', b'XYZi:5', b'XY:i5:',
             b'XY:Q:1', b'XY:a:x', b'XY:c:1', b'XY:C:1', b'XY:s:1', b'XY:I:1', b'\x00\x00:Z:\x00', b'XY:Z:\x00', b'XY:A:\x00', b'XY:B:c,0x7f', b'XY:B:c,1_0', b'XY:B:S, 1']


def gen_aux_text(rng):
    if rng.random() < 0.6:
        return rng.choice(AUX_TEXTS)
    b = bytearray(rng.choice([a for a in AUX_TEXTS if len(a) >= 6]))
    r = rng.random()
    p = rng.randrange(len(b))
    if r < 0.35:
        b = b[:p]
    elif r < 0.7:
        b[p] = rng.choice(b':,ABZHifcCsSIx0\x00\xff')
    else:
        del b[p]
    return bytes(b).replace(b'\t', b' ')


def gen_sam_fields(rng, refs=('chr1', 'chr2')):
    n = rng.choice([0, 1, 4, 5, 10, 33])
    seq = ''.join(rng.choice('ACGTN') for _ in range(n)) or '*'
    qual = ''.join(chr(33 + rng.randrange(60)) for _ in range(n)) if n and rng.random() < 0.7 else '*'
    cig = ('%dM' % n) if n and rng.random() < 0.7 else '*'
    ref = rng.choice(list(refs) + ['*'])
    mref = rng.choice(['=', '*'] + list(refs))
    pos = 0 if ref == '*' else rng.choice([1, 100, 2**29 - 1])
    fs = ['read%d' % rng.randrange(10), str(rng.choice([0, 4, 16, 99, 147, 0x800])), ref, str(pos), str(rng.randrange(256)), cig, mref,
          str(rng.choice([0, 1, 500])), str(rng.choice([0, -200, 200])), seq, qual]
    fs = [f.encode() for f in fs]
    for _ in range(rng.randrange(0, 4)):
        fs.append(rng.choice([b'NM:i:1', b'RG:Z:rg0', b'PG:Z:p0', b'XA:A:c', b'XF:f:1.5', b'XH:H:1AE3', b'XB:B:c,1,2', b'XS:B:S,1,2', b'XI:B:i,-1', b'XE:B:f,1.5',
                             b'PU:Z:unit', b'LB:Z:lib']))
    return fs


SAM_FIELD_EDITS = {
    1: [b'', b'x', b'0x10', b'65535', b'65536', b'-1', b'010', b'0b1'],
    2: [b'', b'*', b'nope', b'='],
    3: [b'', b'x', b'-1', b'0', b'2147483648', b'9223372036854775807', b'9223372036854775808', b'-9223372036854775808'],
    4: [b'', b'256', b'-1', b'x', b'0x1'],
    6: [b'', b'=', b'*', b'nope'],
    7: [b'', b'x', b'-5', b'9223372036854775807'],
    8: [b'', b'x', b'-9223372036854775808'],
    9: [b'', b'*', b'A', b'ACGTNacgtn=RYKM', b'\x00\xff', b'ACG'],
    10: [b'', b'*', b'!', b'\x00\x00\x00', b'!!!!', b'\xff\xff\xff'],
}


def mutate_sam_fields(rng, fs):
    fs = list(fs) or [b'']
    m = rng.randrange(9)
    if m == 0:
        fs = fs[:rng.randrange(0, 11)]
    elif m == 1:
        j = rng.choice(list(SAM_FIELD_EDITS))
        if j < len(fs):
            fs[j] = rng.choice(SAM_FIELD_EDITS[j])
    elif m == 2:
        if len(fs) > 5:
            fs[5] = gen_cigar_text(rng)
    elif m == 3:
        fs.append(gen_aux_text(rng))
    elif m == 4:
        if len(fs) > 11:
            fs[rng.randrange(11, len(fs))] = gen_aux_text(rng)
        else:
            fs.append(b'')
    elif m == 5:
        j = rng.randrange(len(fs))
        b = bytearray(fs[j])
        if b:
            b[rng.randrange(len(b))] ^= 1 << rng.randrange(8)
        fs[j] = bytes(b).replace(b'\t', b' ').replace(b'\n', b' ')
    elif m == 6:
        fs.insert(rng.randrange(len(fs) + 1), b'')
    elif m == 7:
        if len(fs) > 10:
            fs[9], fs[10] = rng.choice([(b'ACGT', b'!!!'), (b'*', b'!!!'), (b'ACGT', b'*'), (b'A', b'!!'), (b'', b'')])
            if len(fs) > 5:
                fs[5] = rng.choice([b'4M', b'*', b'3M', b'5M', b'2M2S', b'1H4M1H'])
    else:
        return mutate_sam_fields(rng, mutate_sam_fields(rng, fs))
    return fs


# ---------------------------------------------------------------- BAM binary

def bam_header_fields(text, refs):
    fs = [F('magic', b'BAM\x01', 'magic'), cnt('l_text', len(text), 'len'), F('text', text, 'text'), cnt('n_ref', len(refs))]
    for i, (name, ln) in enumerate(refs):
        nb = name + b'\x00'
        fs += [cnt('l_name%d' % i, len(nb), 'len'), F('name%d' % i, nb, 'text'), cnt('l_ref%d' % i, ln, 'int')]
    return fs


def aux_bin(tag, typ, val):
    t = tag.encode() + typ.encode()
    if typ == 'A':
        return t + val.encode()
    if typ in 'cC':
        return t + struct.pack('<b' if typ == 'c' else '<B', val)
    if typ in 'sS':
        return t + struct.pack('<h' if typ == 's' else '<H', val)
    if typ in 'iI':
        return t + struct.pack('<i' if typ == 'i' else '<I', val)
    if typ == 'f':
        return t + struct.pack('<f', val)
    if typ in 'ZH':
        return t + val.encode() + b'\x00'
    if typ == 'B':
        sub, xs = val
        fmt = {'c': 'b', 'C': 'B', 's': 'h', 'S': 'H', 'i': 'i', 'I': 'I', 'f': 'f'}[sub]
        return t + sub.encode() + struct.pack('<i', len(xs)) + b''.join(struct.pack('<' + fmt, x) for x in xs)
    raise ValueError(typ)


AUX_BIN = [('NM', 'C', 3), ('XA', 'A', 'q'), ('Xc', 'c', -4), ('Xs', 's', -300), ('XS', 'S', 60000), ('Xi', 'i', -70000), ('XI', 'I', 3000000000), ('Xf', 'f', 1.5),
           ('RG', 'Z', 'rg0'), ('XZ', 'Z', ''), ('XH', 'H', '1AE3'), ('Bc', 'B', ('c', [1, -2, 3])), ('BC', 'B', ('C', [1, 2])), ('Bs', 'B', ('s', [-5])),
           ('BS', 'B', ('S', [])), ('Bi', 'B', ('i', [7, 8])), ('BI', 'B', ('I', [9])), ('Bf', 'B', ('f', [1.0, 2.5]))]


def bam_record_fields(rng, nref, big=False):
    name = ('r%d' % rng.randrange(100)).encode() + b'\x00'
    lseq = rng.choice([0, 1, 4, 7, 20]) if not big else rng.choice([4200, 5000])
    ncig = rng.randrange(0, 4)
    cig = b''
    left = lseq
    for k in range(ncig):
        ln = left if k == ncig - 1 else rng.randrange(0, left + 1)
        left -= ln
        cig += u32(ln << 4 | rng.choice([0, 0, 0, 1, 4, 7, 8]))
    seq = bytes(rng.randrange(256) for _ in range((lseq + 1) // 2))
    qual = bytes(rng.randrange(60) for _ in range(lseq))
    auxs = [aux_bin(*a) for a in rng.sample(AUX_BIN, rng.randrange(0, 5))]
    ref = rng.randrange(-1, nref) if nref else -1
    pos = -1 if ref < 0 else rng.choice([0, 100, 2**29 - 2])
    mref = rng.choice([-1, ref])
    body = [F('refID', i32(ref), 'int', ref, i32), F('pos', i32(pos), 'int', pos, i32), F('l_read_name', bytes([len(name)]), 'len', len(name), lambda v: bytes([v % 256])),
            F('mapq', bytes([rng.randrange(256)]), 'int'), F('bin', u16(4680), 'int'), F('n_cigar', u16(ncig), 'count', ncig, u16),
            F('flag', u16(rng.choice([0, 4, 16, 99, 4 | 8 | 1])), 'int'), cnt('l_seq', lseq, 'len'), F('next_refID', i32(mref), 'int', mref, i32),
            F('next_pos', i32(-1 if mref < 0 else 5), 'int'), F('tlen', i32(0), 'int'), F('read_name', name, 'text'), F('cigar', cig, 'data'),
            F('seq', seq, 'data'), F('qual', qual, 'data')]
    for i, a in enumerate(auxs):
        body.append(F('aux%d' % i, a, 'aux'))
    return [cnt('block_size', len(join(body)), 'len')] + body


AUX_BAD = [b'XYB', b'XYBc', b'XYBc\x01\x00\x00', b'XYBZ\x08\x00\x00\x00', b'XYBZ\x04\x00\x00\x00', b'XYBH\x01\x00\x00\x00', b'XYBB\x07\x00\x00\x00', b'XYBq\x03\x00\x00\x00',
           b'XYBA\x02\x00\x00\x00ab', b'XYBc\xff\xff\xff\xff', b'XYBi\xff\xff\xff\x7f', b'XYBi\x00\x00\x00\x80', b'XYBs\x02\x00\x00\x00\x01\x00', b'XYBf\x01\x00\x00\x00\x00\x00',
           b'XYZ', b'XYZabc', b'\x00\x00Z', b'X\x00Z\x00', b'XYH', b'XYH12', b'XY', b'X', b'XYi\x01', b'XYi\x01\x02\x03', b'XYs\x01', b'XYA', b'XYc', b'XYf\x00\x00',
           b'XYq\x01', b'XY\x00\x01', b'XY\xff\x01\x02\x03\x04', b'XYZ\x00', b'XYH\x00', b'XYBC\x00\x00\x00\x00', b'XYBc\x02\x00\x00\x00\x01']


def flip_pos(rng, f):
    """Byte to damage: in 4-byte count fields mostly one of the two low bytes or the
    sign byte's top bit region is left to the explicit edits (a count of 2^24..2^30 only
    makes the decoder zero a gigabyte before it fails; a few still get through)."""
    n = len(f.b)
    if f.kind in ('count', 'len', 'shift') and n == 4 and rng.random() < 0.9:
        return rng.randrange(2)
    return rng.randrange(n)


def mutate_fields(rng, fs, huge_ok=True):
    """Generic structure-aware mutation of a field list. Returns (fields, label)."""
    fs = list(fs)
    m = rng.randrange(10)
    if not fs:
        return [F('junk', b'\x00')], 'empty'
    counts = [i for i, f in enumerate(fs) if f.kind in ('count', 'len') and f.enc is not None and f.val is not None]
    if m <= 2 and counts:        # count / length edit
        i = rng.choice(counts)
        v = fs[i].val
        nv = rng.choice([-1, 0, 1, v - 1, v + 1, v + 2, -v, 2 * v + 1, 255, 256, 65535, 65536, 100000, -2**31, 2**31 - 1, v ^ 0x80, rng.randrange(0, 40)])
        fs[i] = fs[i].with_val(nv)
        return fs, 'edit:%s' % re.sub(r'\d+', '', fs[i].name)
    if m == 3:                   # truncate at a field boundary
        k = rng.randrange(0, len(fs))
        return fs[:k], 'cut-at:%s' % re.sub(r'\d+', '', fs[k].name)
    if m == 4:                   # truncate inside a field
        k = rng.randrange(0, len(fs))
        b = fs[k].b
        fs2 = fs[:k] + [F(fs[k].name, b[:rng.randrange(0, len(b) + 1)], fs[k].kind)]
        return fs2, 'cut-in:%s' % re.sub(r'\d+', '', fs[k].name)
    if m == 5:                   # bit flip
        k = rng.randrange(0, len(fs))
        b = bytearray(fs[k].b)
        if b:
            b[flip_pos(rng, fs[k])] ^= 1 << rng.randrange(8)
        fs[k] = F(fs[k].name, b, fs[k].kind)
        return fs, 'flip:%s' % re.sub(r'\d+', '', fs[k].name)
    if m == 6:                   # splice: a field replaced by / followed by a copy of another field
        k, j = rng.randrange(len(fs)), rng.randrange(len(fs))
        if rng.random() < 0.5:
            fs[k] = F(fs[k].name, fs[j].b, fs[k].kind)
        else:
            fs.insert(k, fs[j])
        return fs, 'splice'
    if m == 7:                   # byte substitution with an interesting byte
        k = rng.randrange(0, len(fs))
        b = bytearray(fs[k].b)
        if b:
            b[flip_pos(rng, fs[k])] = rng.choice([0, 1, 0x7f, 0x80, 0xff, 9, 10, 0x3a, 0x2c, 0x42, 0x5a])
        fs[k] = F(fs[k].name, b, fs[k].kind)
        return fs, 'subst:%s' % re.sub(r'\d+', '', fs[k].name)
    if m == 8:                   # drop a field / insert junk
        k = rng.randrange(0, len(fs))
        if rng.random() < 0.5:
            del fs[k]
            return fs, 'drop'
        fs.insert(k, F('junk', bytes(rng.randrange(256) for _ in range(rng.randrange(1, 9)))))
        return fs, 'junk'
    a, la = mutate_fields(rng, fs)
    b, lb = mutate_fields(rng, a)
    return b, la + '+' + lb


def fix_block_size(fs):
    """Recompute block_size fields of a BAM record field list after an edit (so
    that the inner lengths disagree with the outer one, not the stream)."""
    out = list(fs)
    for i, f in enumerate(out):
        if f.name == 'block_size':
            j = i + 1
            while j < len(out) and out[j].name != 'block_size':
                j += 1
            out[i] = cnt('block_size', len(join(out[i + 1:j])), 'len')
    return out


# -------------------------------------------------------------- index files

def vo(rng):
    return rng.randrange(0, 1 << 16) << 16 | rng.randrange(0, 1 << 16)


def bai_ref_fields(rng, i, csi=False, binlimit=37449, version=1):
    nb = rng.randrange(0, 4)
    dummy = rng.random() < 0.5
    fs = [cnt('n_bin%d' % i, nb + (1 if dummy else 0))]
    bins = sorted(rng.sample(range(0, binlimit), nb))
    items = [('bin', b) for b in bins]
    if dummy:
        items.insert(rng.randrange(len(items) + 1), ('dummy', binlimit + 1))
    for k, (kind, b) in enumerate(items):
        fs.append(F('bin%d_%d' % (i, k), u32(b), 'int', b, u32))
        if csi:
            fs.append(F('loffset%d_%d' % (i, k), u64(vo(rng)), 'int'))
            if version == 2:
                fs.append(F('nrec%d_%d' % (i, k), u64(rng.randrange(100)), 'int'))
        nc = 2 if kind == 'dummy' else rng.randrange(0, 4)
        fs.append(cnt('n_chunk%d_%d' % (i, k), nc))
        for c in range(nc):
            a = vo(rng)
            fs.append(F('chunk%d_%d_%d' % (i, k, c), u64(a) + u64(a + rng.randrange(1 << 20)), 'data'))
    if not csi:
        ni = rng.randrange(0, 5)
        fs.append(cnt('n_intv%d' % i, ni))
        for k in range(ni):
            fs.append(F('ioff%d_%d' % (i, k), u64(vo(rng)), 'data'))
    return fs


def bai_fields(rng):
    n = rng.randrange(0, 4)
    fs = [F('magic', b'BAI\x01', 'magic'), cnt('n_ref', n)]
    for i in range(n):
        fs += bai_ref_fields(rng, i)
    if rng.random() < 0.6:
        fs.append(F('n_no_coor', u64(rng.randrange(1000)), 'int'))
    return fs


def tbi_fields(rng):
    n = rng.randrange(0, 4)
    names = b''.join(b'chr%d\x00' % (i + 1) for i in range(n))
    fs = [F('magic', b'TBI\x01', 'magic'), cnt('n_ref', n), F('format', i32(rng.choice([0, 1, 2, 0x10000])), 'int'), F('col_seq', i32(1), 'int'),
          F('col_beg', i32(2), 'int'), F('col_end', i32(3), 'int'), F('meta', i32(35), 'int'), F('skip', i32(0), 'int'),
          cnt('l_nm', len(names), 'len'), F('names', names, 'text')]
    for i in range(n):
        fs += bai_ref_fields(rng, i)
    if rng.random() < 0.6:
        fs.append(F('n_no_coor', u64(rng.randrange(1000)), 'int'))
    return fs


def csi_fields(rng):
    n = rng.randrange(0, 4)
    version = rng.choice([1, 2])
    depth = rng.choice([5, 5, 3, 6])
    aux = bytes(rng.randrange(256) for _ in range(rng.choice([0, 0, 4, 28])))
    fs = [F('magic', b'CSI', 'magic'), F('version', bytes([version]), 'int'), cnt('min_shift', 14, 'shift'), cnt('depth', depth, 'shift'),
          cnt('l_aux', len(aux), 'len'), F('aux', aux, 'data'), cnt('n_ref', n)]
    lim = ((1 << ((depth + 1) * 3)) - 1) // 7
    for i in range(n):
        fs += bai_ref_fields(rng, i, csi=True, binlimit=lim, version=version)
    if rng.random() < 0.6:
        fs.append(F('n_no_coor', u64(rng.randrange(1000)), 'int'))
    return fs


def mutate_shift(rng, fs):
    """CSI geometry edits (min_shift / depth)."""
    fs = list(fs)
    idx = [i for i, f in enumerate(fs) if f.kind == 'shift' and f.enc is not None]
    if not idx:
        return fs, 'none'
    i = rng.choice(idx)
    fs[i] = fs[i].with_val(rng.choice([-1, 0, 1, 2, 9, 10, 11, 20, 21, 22, 31, 32, 64, 1000, 2**20, 2**31 - 1, -2**31, 2**30]))
    return fs, 'edit:' + fs[i].name


# ---------------------------------------------------------------- FAI / FASTA

def fai_text(rng):
    n = rng.randrange(1, 4)
    out = []
    off = 0
    for i in range(n):
        ln = rng.choice([1, 10, 100, 1000])
        lb = rng.choice([10, 60, 80])
        off += 6
        out.append(['seq%d' % i, str(ln), str(off), str(lb), str(lb + 1)])
        off += ln + (ln + lb - 1) // lb
    return [[f.encode() for f in l] for l in out]


FAI_EDITS = [b'', b'0', b'-1', b'x', b'1.5', b'9223372036854775807', b'9223372036854775808', b'-9223372036854775808', b'"', b'"a', b'a"b', b' 5', b'0x10', b'1_0', b'+3']


def mutate_fai(rng, lines):
    lines = [list(l) or [b''] for l in lines]
    k = rng.randrange(len(lines))
    l = lines[k]
    m = rng.randrange(7)
    if m <= 2:
        l[rng.randrange(len(l))] = rng.choice(FAI_EDITS)
    elif m == 3:
        if len(l) > 1:
            del l[rng.randrange(len(l))]
    elif m == 4:
        l.insert(rng.randrange(len(l) + 1), rng.choice(FAI_EDITS))
    elif m == 5:
        lines.append(list(l))
    else:
        l[rng.choice([3, 4]) % len(l)] = b'0'
        l[1 % len(l)] = rng.choice([b'0', b'5', b'100'])
    return lines


def fasta_text(rng):
    out = b''
    for i in range(rng.randrange(1, 4)):
        out += b'>seq%d%s\n' % (i, rng.choice([b'', b' desc', b'\tdesc x']))
        ln = rng.choice([0, 1, 10, 35, 61])
        w = rng.choice([10, 60])
        s = bytes(rng.choice(b'ACGTN') for _ in range(ln))
        for p in range(0, ln, w):
            out += s[p:p + w] + rng.choice([b'\n', b'\n', b'\r\n'])
    return out


def mutate_bytes(rng, b, alphabet=None):
    """Unstructured mutation used for text formats and as a last resort."""
    b = bytearray(b)
    m = rng.randrange(5)
    if m == 0 and b:
        b = b[:rng.randrange(len(b))]
    elif m == 1 and b:
        b[rng.randrange(len(b))] ^= 1 << rng.randrange(8)
    elif m == 2 and b:
        b[rng.randrange(len(b))] = rng.choice(alphabet or [0, 9, 10, 13, 32, 0x3e, 0xff])
    elif m == 3 and b:
        p = rng.randrange(len(b))
        del b[p:p + rng.randrange(1, 4)]
    else:
        p = rng.randrange(len(b) + 1)
        b[p:p] = bytes(rng.choice(alphabet or [0, 9, 10, 13, 32, 0x3e, 0xff]) for _ in range(rng.randrange(1, 3)))
    return bytes(b)


# ---------------------------------------------------------------------- CRAM

def cram_block_fields(rng, k, typ, data, method=0):
    raw = data
    if method == 1:
        comp = gzip.compress(data, mtime=0)
    else:
        comp = data
    fs = [F('method%d' % k, bytes([method]), 'int'), F('ctype%d' % k, bytes([typ]), 'int'), icnt('content_id%d' % k, 0, 'int'),
          icnt('comp_size%d' % k, len(comp), 'len'), icnt('raw_size%d' % k, len(raw), 'len'), F('bdata%d' % k, comp, 'data')]
    fs.append(F('bcrc%d' % k, u32(zlib.crc32(join(fs))), 'crc'))
    return fs


def cram_slice_data(rng):
    ids = [rng.randrange(10) for _ in range(rng.randrange(0, 3))]
    return itf8(0) + itf8(1) + itf8(100) + itf8(3) + ltf8(0) + itf8(len(ids)) + itf8(len(ids)) + b''.join(itf8(i) for i in ids) + itf8(-1) + bytes(16) + b'tags'


def cram_container_fields(rng, c, blocks):
    body = []
    for b in blocks:
        body += b
    lm = [0]
    hdr = [F('clen%d' % c, i32(len(join(body))), 'len', len(join(body)), i32), icnt('crefid%d' % c, rng.choice([0, -1, -2]), 'int'), icnt('cstart%d' % c, 1, 'int'),
           icnt('cspan%d' % c, 100, 'int'), icnt('cnrec%d' % c, 3, 'int'), F('creccount%d' % c, ltf8(rng.choice([0, 1 << 40])), 'int'),
           F('cbases%d' % c, ltf8(300), 'int'), icnt('cnblocks%d' % c, len(blocks), 'int'), icnt('nlandmarks%d' % c, len(lm)),
           F('landmarks%d' % c, b''.join(itf8(x) for x in lm), 'data')]
    hdr.append(F('ccrc%d' % c, u32(zlib.crc32(join(hdr))), 'crc'))
    return hdr + body


CRAM_EOF = bytes([0x0f, 0, 0, 0, 0xff, 0xff, 0xff, 0xff, 0x0f, 0xe0, 0x45, 0x4f, 0x46, 0, 0, 0, 0, 1, 0, 5, 0xbd, 0xd9, 0x4f, 0, 1, 0, 6, 6, 1, 0, 1, 0, 1, 0, 0xee, 0x63, 1, 0x4b])


def cram_fields(rng):
    text = header_text(gen_header_lines(rng))
    hb = cram_block_fields(rng, 0, 0, i32(len(text)) + text, method=rng.choice([0, 0, 1]))
    fs = [F('magic', b'CRAM', 'magic'), F('version', bytes([3, 0]), 'int'), F('id', bytes(20), 'data')]
    fs += cram_container_fields(rng, 0, [hb])
    blocks = [cram_block_fields(rng, 1, 1, b'comp-hdr'), cram_block_fields(rng, 2, 2, cram_slice_data(rng)),
              cram_block_fields(rng, 3, rng.choice([4, 5]), bytes(rng.randrange(256) for _ in range(20)), method=rng.choice([0, 1]))]
    fs += cram_container_fields(rng, 1, blocks)
    fs.append(F('eof', CRAM_EOF, 'data'))
    return fs


def cram_fix_crc(fs):
    """Recompute block and container header CRCs (and container lengths) after an edit."""
    out = list(fs)
    # block CRCs: from the method byte to just before the bcrc field
    i = 0
    while i < len(out):
        if out[i].name.startswith('method'):
            j = i
            while j < len(out) and not out[j].name.startswith('bcrc'):
                j += 1
            if j < len(out):
                out[j] = F(out[j].name, u32(zlib.crc32(join(out[i:j]))), 'crc')
            i = j
        i += 1
    i = 0
    while i < len(out):
        if out[i].name.startswith('clen'):
            j = i
            while j < len(out) and not out[j].name.startswith('ccrc'):
                j += 1
            if j < len(out):
                out[j] = F(out[j].name, u32(zlib.crc32(join(out[i:j]))), 'crc')
            i = j
        i += 1
    return out


CRAM_ITF_EDITS = [-1, -2, -2**31, 0, 1, 2, 3, 4, 5, 127, 128, 2**28, 2**31 - 1, 100000]


def mutate_cram(rng, fs):
    """CRAM specific edits with checksum fix-up so that the edited field is
    actually reached: counts feeding make, block method/type, header length."""
    fs = list(fs)
    m = rng.randrange(8)
    lab = ''
    if m == 0:
        idx = [i for i, f in enumerate(fs) if f.name.startswith(('nlandmarks', 'comp_size', 'raw_size', 'cnblocks'))]
        i = rng.choice(idx)
        fs[i] = fs[i].with_val(rng.choice(CRAM_ITF_EDITS))
        lab = 'edit:' + re.sub(r'\d+', '', fs[i].name)
        if fs[i].name.startswith(('comp_size', 'raw_size')) and rng.random() < 0.5:
            # keep raw method consistent: both sizes get the value
            for j in (i - 1, i + 1):
                if 0 <= j < len(fs) and fs[j].name.startswith(('comp_size', 'raw_size')):
                    fs[j] = fs[j].with_val(fs[i].val)
    elif m == 1:
        idx = [i for i, f in enumerate(fs) if f.name.startswith('method')]
        i = rng.choice(idx)
        fs[i] = F(fs[i].name, bytes([rng.choice([1, 2, 3, 4, 5, 6, 0x80, 0xff])]), 'int')
        lab = 'edit:method'
    elif m == 2:
        idx = [i for i, f in enumerate(fs) if f.name.startswith('ctype')]
        i = rng.choice(idx)
        fs[i] = F(fs[i].name, bytes([rng.choice([0, 1, 2, 3, 4, 5, 6, 0xff])]), 'int')
        lab = 'edit:ctype'
    elif m == 3:
        # file header / slice block content edits (raw method so that sizes can follow)
        idx = [i for i, f in enumerate(fs) if f.name.startswith('bdata')]
        i = rng.choice(idx)
        nd = rng.choice([b'', b'\x01', b'\x01\x00', b'\x01\x00\x00', b'\xff\xff\xff\xff', b'\xfc\xff\xff\xff@HD', b'\x10\x00\x00\x00@HD\tVN:1.0\n', b'\x03\x00\x00\x00@HD\tVN',
                         b'\x00\x00\x00\x80abcd', itf8(0) * 6 + itf8(-1), itf8(0) * 6 + itf8(2**31 - 1), itf8(0) * 6 + itf8(3) + itf8(1), itf8(0) * 3, b'\xff' * 3,
                         fs[i].b[:rng.randrange(len(fs[i].b) + 1)]])
        fs[i] = F(fs[i].name, nd, 'data')
        fs[i - 1] = fs[i - 1].with_val(len(nd))
        fs[i - 2] = fs[i - 2].with_val(len(nd))
        fs[i - 5] = F(fs[i - 5].name, bytes([0]), 'int')
        if rng.random() < 0.6:
            fs[i - 4] = F(fs[i - 4].name, bytes([rng.choice([0, 2])]), 'int')
        lab = 'edit:bdata'
    elif m == 4:
        idx = [i for i, f in enumerate(fs) if f.name.startswith('clen')]
        i = rng.choice(idx)
        fs[i] = fs[i].with_val(rng.choice([-1, 0, 1, fs[i].val - 1, fs[i].val + 1, 2**31 - 1, -2**31, 5]))
        lab = 'edit:clen'
    else:
        fs, lab = mutate_fields(rng, fs)
    if rng.random() < 0.75:
        fs = cram_fix_crc(fs)
        lab += '+crcfix'
    return fs, lab


# ---------------------------------------------------------------------- BGZF

def bgzf_member_fields(k, data):
    co = zlib.compressobj(6, zlib.DEFLATED, -15)
    comp = co.compress(data) + co.flush()
    bsize = 12 + 6 + len(comp) + 8 - 1
    return [F('gzhdr%d' % k, b'\x1f\x8b\x08\x04' + bytes(4) + b'\x00\xff', 'magic'), F('xlen%d' % k, u16(6), 'len', 6, u16), F('si%d' % k, b'BC', 'magic'),
            F('slen%d' % k, u16(2), 'len', 2, u16), F('bsize%d' % k, u16(bsize), 'len', bsize, u16), F('cdata%d' % k, comp, 'data'),
            F('crc%d' % k, u32(zlib.crc32(data)), 'crc'), F('isize%d' % k, u32(len(data)), 'len', len(data), u32)]


def bgzf_fields(rng):
    fs = []
    for k in range(rng.randrange(1, 4)):
        fs += bgzf_member_fields(k, bytes(rng.choice(b'ACGT\n') for _ in range(rng.choice([0, 1, 100, 3000]))))
    if rng.random() < 0.8:
        fs += bgzf_member_fields(9, b'')
    return fs


def gz_member(extra, xlen=None, flg=4, data=b'hello', name=None, comment=None, hcrc=False, bsize_fix=True):
    """A gzip member with the given extra field bytes (XLEN written as xlen, default len(extra))."""
    co = zlib.compressobj(6, zlib.DEFLATED, -15)
    comp = co.compress(data) + co.flush()
    if name is not None:
        flg |= 8
    if comment is not None:
        flg |= 16
    if hcrc:
        flg |= 2
    h = b'\x1f\x8b\x08' + bytes([flg]) + bytes(4) + b'\x00\xff'
    if flg & 4:
        h += u16(len(extra) if xlen is None else xlen) + extra
    if name is not None:
        h += name + b'\x00'
    if comment is not None:
        h += comment + b'\x00'
    if hcrc:
        h += u16(zlib.crc32(h) & 0xffff)
    return h + comp + u32(zlib.crc32(data)) + u32(len(data))


def bgzf_header_variants(rng):
    """(member bytes, label): structure-aware edits of the gzip header of one BGZF member."""
    out = []
    data = b'ACGTACGT' * 4

    def total(extra, **kw):
        # BSIZE such that the member is self-consistent
        m = gz_member(extra, data=data, **kw)
        return len(m) - 1

    def bc(bsize):
        return b'BC\x02\x00' + u16(bsize)

    base_extra = bc(0)
    bs = total(base_extra)
    valid = gz_member(bc(bs), data=data)
    out.append((valid, 'valid'))
    # XLEN edits on a valid member (bytes unchanged, only the length field)
    for x in range(0, 10):
        out.append((gz_member(bc(bs), xlen=x, data=data), 'xlen=%d' % x))
    # extra field truncated after k bytes of the BC subfield (XLEN consistent)
    for k in range(0, 7):
        e = bc(bs)[:k]
        out.append((gz_member(e, data=data), 'bc-cut=%d' % k))
    # SLEN edits
    for sl in (0, 1, 3, 4, 0xffff):
        e = b'BC' + u16(sl) + u16(bs)
        out.append((gz_member(e, data=data), 'slen=%d' % sl))
    # other subfields before / after BC, BC cut short at the end after another subfield
    other = b'XY\x03\x00abc'
    for e, lab in ((other + bc(0), 'other+bc'), (bc(0) + other, 'bc+other'), (other + bc(0)[:5], 'other+bc-cut5'), (other + bc(0)[:4], 'other+bc-cut4'),
                   (other, 'no-bc'), (b'BC\x02\x00BC\x02\x00' + u16(0), 'bc-prefix-twice'), (b'xBC\x02\x00\x10', 'unaligned-bc-cut5'),
                   (other + other + bc(0), '2other+bc'), (b'XY\xff\xffab' + bc(0), 'subfield-len-overruns')):
        b2 = total(e)
        e2 = e.replace(bc(0), bc(b2)) if bc(0) in e else e
        out.append((gz_member(e2, data=data), lab))
    # BSIZE edits
    for d in (-1, 1, -bs, 10, 0x10000 - bs - 1):
        out.append((gz_member(bc((bs + d) % 65536), data=data), 'bsize%+d' % d))
    out.append((gz_member(bc(0xffff), data=data), 'bsize=ffff'))
    out.append((gz_member(bc(0), data=data), 'bsize=0'))
    # optional header parts
    for kw, lab in ((dict(name=b'file'), 'fname'), (dict(comment=b'c'), 'fcomment'), (dict(hcrc=True), 'fhcrc'), (dict(name=b'n' * 600), 'fname-600'),
                    (dict(name=b'a', comment=b'b', hcrc=True), 'all-optional')):
        b2 = total(bc(0), **kw)
        out.append((gz_member(bc(b2), data=data, **kw), lab))
    out.append((gz_member(b'', flg=0, data=data), 'no-fextra'))
    out.append((valid[:12], 'cut-after-xlen'))
    out.append((valid[:15], 'cut-in-extra'))
    out.append((valid[:3] + bytes([valid[3] | 0xe0]) + valid[4:], 'reserved-flags'))
    return out


def bgzf_ops_cases(rng, n):
    """Streams of valid members with one member damaged behind an intact header, and short Seek/Read
    histories that ask for the damaged member more than once."""
    out = []
    for _ in range(n):
        nm = rng.randrange(2, 5)
        datas = [bytes(rng.choice(b'ACGT\n') for _ in range(rng.choice([1, 50, 300, 2000]))) for _ in range(nm)]
        members = [join(bgzf_member_fields(i, d)) for i, d in enumerate(datas)]
        k = rng.randrange(nm)
        m = bytearray(members[k])
        kind = rng.choice(['payload', 'payload', 'crc', 'isize', 'cut', 'cut-hdr', 'bsize', 'none'])
        if kind == 'payload' and len(m) > 27:
            p = rng.randrange(18, len(m) - 8)
            m[p] ^= 1 << rng.randrange(8)
        elif kind == 'crc':
            m[len(m) - 8 + rng.randrange(4)] ^= 0xff
        elif kind == 'isize':
            m[len(m) - 4 + rng.randrange(4)] ^= 1 << rng.randrange(8)
        elif kind == 'cut':
            m = m[:rng.randrange(18, len(m))]
        elif kind == 'cut-hdr':
            m = m[:rng.randrange(1, 18)]
        elif kind == 'bsize':
            m[16] ^= 1 << rng.randrange(8)
        tail = members[k + 1:] if kind not in ('cut', 'cut-hdr') or rng.random() < 0.5 else []
        eof = [join(bgzf_member_fields(9, b''))] if rng.random() < 0.8 else []
        stream = b''.join(members[:k]) + bytes(m) + b''.join(tail) + b''.join(eof)
        bases = [0]
        for mm in members:
            bases.append(bases[-1] + len(mm))
        bk = bases[k]
        prev = bases[k - 1] if k > 0 else 0
        plen = len(datas[k - 1]) if k > 0 else 0
        hist = rng.choice([
            [[0, bk, 0], [0, bk, 0]],
            [[0, bk, 0], [0, bk, 0], [1, 10]],
            [[0, bk, 0], [1, 10], [0, bk, 0]],
            [[0, prev, 0], [1, plen + 20], [0, bk, 0]],
            [[1, 100000], [0, bk, 0], [0, bk, 0]],
            [[0, bk, 0], [0, prev, 0], [1, plen + 5], [0, bk, 0], [1, 5]],
            [[0, bk, 3], [0, bk, 3]],
            [[0, bk, 0], [0, bases[min(k + 1, nm)], 0], [0, bk, 0]],
            [[0, bk + 1, 0], [0, bk + 1, 0]],
            [[0, len(stream) + 5, 0], [0, len(stream) + 5, 0], [0, bk, 0]],
        ])
        if rng.random() < 0.3:
            hist = hist + [rng.choice([[0, rng.choice(bases), 0], [1, rng.choice([1, 50, 5000])]]) for _ in range(rng.randrange(1, 4))]
        out.append((stream, hist, 'dmg:%s' % kind))
    return out


# ------------------------------------------------------- crasher corpora

def go_unquote(s):
    out = bytearray()
    i = 0
    while i < len(s):
        c = s[i]
        if c != '\\':
            out += c.encode('utf-8')
            i += 1
            continue
        e = s[i + 1]
        if e == 'x':
            out.append(int(s[i + 2:i + 4], 16))
            i += 4
        elif e in '01234567':
            out.append(int(s[i + 1:i + 4], 8))
            i += 4
        elif e == 'u':
            out += chr(int(s[i + 2:i + 6], 16)).encode('utf-8')
            i += 6
        else:
            out.append({'n': 10, 't': 9, 'r': 13, 'a': 7, 'b': 8, 'f': 12, 'v': 11, '\\': 92, '"': 34, "'": 39}[e])
            i += 2
    return bytes(out)


def crashers(path):
    """The string literals of `var fuzzCrashers = []string{...}` in a Go test file."""
    try:
        src = open(path, encoding='utf-8', errors='surrogateescape').read()
    except OSError:
        return []
    m = re.search(r'var fuzzCrashers = \[\]string\{(.*?)\n\}', src, flags=re.S)
    if not m:
        return []
    body = m.group(1)
    out = []
    cur = None
    pending_plus = False
    for line in body.split('\n'):
        t = line.strip()
        if not t or t.startswith('//'):
            continue
        lits = re.findall(r'"((?:[^"\\]|\\.)*)"', t)
        if not lits:
            continue
        piece = b''.join(go_unquote(x) for x in lits)
        if pending_plus and cur is not None:
            cur += piece
        else:
            if cur is not None:
                out.append(cur)
            cur = piece
        pending_plus = t.endswith('+')
    if cur is not None:
        out.append(cur)
    return out
