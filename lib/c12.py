"""C12: whole blocks in write order; Flush+Wait makes written data durable."""
import core
import wrlib

PROPS = 'Props/C12.v'


def gen_cases(rng, tier):
    nbig, nsmall, nbam = (6, 120, 25) if tier == 'quick' else (120, 1500, 300)
    cases = []
    for i in range(nbam):
        nref = rng.choice([0, 1, 2, 5, 50, 400, 3000])
        cases.append(dict(mode='bam', refs=[rng.randrange(1, 1 << 28) for _ in range(nref)], rname=rng.choice([4, 8, 30, 60]),
                          wc=rng.randrange(0, 5), level=rng.choice([-1, 0, 1, 9]), delay=rng.randrange(1, 1000)))
    cases += fault_family(rng, tier)
    for i in range(nbig + nsmall):
        big = i < nbig
        close = rng.random() < 0.7
        n = rng.randrange(2, 5) if big else rng.randrange(2, 12)
        ops = wrlib.gen_script(rng, big, nops=n, close=close, after_close=(close and rng.random() < 0.1))
        if tier == 'quick':
            wrlib.cap_total(ops, 2 * wrlib.BS + 700, rng)
        cases.append(dict(mode='rt', ops=ops, level=rng.choice([-1, 0, 1, 9, rng.randrange(-1, 10)]), wc=rng.randrange(0, 5), rd=1,
                          reads=[8192], delay=rng.randrange(1, 100000), hbytes=True))
    return cases


def fault_family(rng, tier):
    """Transient faults of the underlying writer: the k-th Write call is refused, later ones would succeed; several
    flushed blocks in flight, wc >= 2 (and some wc < 2), one Write spanning blocks is left to the thorough tier."""
    n = 30 if tier == 'quick' else 400
    cases = []
    for i in range(n):
        nblocks = rng.randrange(2, 9)
        ops = []
        for b in range(nblocks):
            ops.append(dict(op='w', kind=rng.choice([0, 1, 2]), seed=rng.randrange(1, 1 << 16), len=rng.choice([1, 20, 300, 3000])))
            if rng.random() < 0.85:
                ops.append(dict(op='f'))
            if rng.random() < 0.15:
                ops.append(dict(op='wait'))
        if tier != 'quick' and rng.random() < 0.2:
            ops.insert(0, dict(op='w', kind=2, seed=3, len=2 * wrlib.BS + 5))
        if rng.random() < 0.5:
            ops.append(dict(op='wait'))
        if rng.random() < 0.85:
            ops.append(dict(op='close'))
        k = rng.randrange(0, nblocks + 2)        # also the final empty block / the marker / no fault at all
        failw = [k] if rng.random() < 0.75 else sorted({k, k + rng.randrange(1, 4)})
        cases.append(dict(mode='rt', ops=ops, level=rng.choice([-1, 0, 1, 9]), wc=rng.choice([2, 2, 3, 4, 4, 8, 0, 1]), rd=1,
                          reads=[8192], delay=rng.choice([0, rng.randrange(1, 100000)]), hbytes=True, failw=failw))
    return cases


def nontrivial(c, o):
    if c.get('mode') == 'bam':
        return True
    if c.get('failw'):
        return (o.get('refused') or 0) >= 1
    return len(o.get('w_k') or []) >= 2


def bucket(c, o):
    if c.get('mode') != 'rt':
        return '%s/wc=%s' % (c.get('mode'), c.get('wc'))
    if c.get('failw'):
        return 'fault/refused=%s/accepted=%s/wc=%d' % (o.get('refused'), min(len(o.get('w_k') or []), 6), c['wc'])
    fw = sum(1 for a, b in zip(c['ops'], c['ops'][1:]) if a['op'] == 'f' and b['op'] == 'wait')
    return 'writes=%s/flushwait=%s/wc=%d' % (min(len(o.get('w_k') or []), 6), min(fw, 2), c['wc'])


def run(res, rng, tier):
    cases = gen_cases(rng, tier)
    wrlib.run_property(res, rng, 'C12', cases, nontrivial, bucket, TRUSTED, ASSUME,
                       'scripts of 2-12 Write/Flush/Wait calls (Flush;Wait pairs, Wait without Flush, Close or no Close) at wc 0..4 on an underlying writer that sleeps/yields at seeded random '
                       'points; the stream length is recorded after every underlying Write and after every API call and located among the member boundaries found by the independent parser; '
                       'bam.NewWriter with 0..3000 references (header of one to several blocks) snapshotted at return; fault family: 2-8 flushed blocks in flight at wc 0..8 with the k-th '
                       '(and sometimes a later) underlying Write refused, later ones accepted; a script case is non-trivial when at least two underlying Writes '
                       'happened (fault case: at least one Write was refused); distinct by (ops, level, wc, delay)')


def replay(res, rp):
    return wrlib.replay_case('C12', rp)


TRUSTED = wrlib.TRUSTED_COMMON + ['crash points are the returns of the underlying Write calls and of the API calls, as the property states; the double is append-only']
ASSUME = wrlib.ASSUME_COMMON

CLAIM = dict(
    text='Machine-checked proof (Coq 8.16.1) over the concurrent pipeline model, for every writer concurrency and every schedule: in every reachable state the chunks handed to the underlying '
         'writer are exactly the members of the first k submitted blocks, one member per underlying Write, so they decode to a prefix of the data written so far in write order; when a Wait '
         'returns nil after a Flush returned nil everything written before the Flush is in the stream; when Close returns nil everything is, followed by the EOF marker; '
         'bam.NewWriter (Write header; Flush; Wait) returns only when the whole header is in the stream. For every fault plan of the underlying writer (k-th Write refused) the accepted chunks are '
         'still the members of a prefix of the submitted blocks and nothing is delivered after the failure (emitted_is_block_prefix_faulty).',
    note='Scheduler, channels and WaitGroup are modelled (interleaving semantics of the atomic steps listed in WriterConc.v); qwg.Add-after-send and Done-after-Copy orders are taken from the source '
         'skeleton that gen/ regenerates. Fault-free underlying writer. Durability is stated through ghost marks set where Flush / Wait / Close return nil.',
    technique='Coq invariant proof over schedule-driven small-step model + snapshots of a delaying underlying writer judged by an independent parser',
    design='6/C12')
