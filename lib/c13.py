"""C13: record chunks are replayable (index.ChunkReader, bam.Reader SetChunk / Iterator)."""
import json
import zlib

import core
import rdflat
import rdbam
import c02

PROPS = 'Props/C13.v'
HEADER = 'From Hts Require Import Base.Prim Model.Flat Model.Reader Model.ChunkReader.\nOpen Scope Z_scope.'


# ------------------------------------------------------------ ChunkReader

def gen_chunk_case(rng, empties, small=False):
    if small:
        members = [[rng.randrange(0, 5), rng.randrange(1000)] for _ in range(rng.randrange(1, 5))]
        eof = rng.random() < 0.5
    else:
        members, eof = rdflat.gen_file(rng, big=0.02)
    lens = [m[0] for m in members] + ([0] if eof else [])
    starts = [sum(lens[:i]) for i in range(len(lens))]
    offs = []
    for i, l in enumerate(lens):
        for o in sorted(set([0, l, min(1, l), max(l - 1, 0), rng.randrange(0, l + 1)])):
            offs.append((i, min(o, 65535)))
    k = rng.randrange(1, 5)
    pts = sorted(rng.sample(range(len(offs)), min(len(offs), 2 * k)))
    if len(pts) % 2:
        pts = pts[:-1]
    chunks = [list(offs[a]) + list(offs[b]) for a, b in zip(pts[0::2], pts[1::2])]
    if empties:
        for _ in range(rng.randrange(1, 3)):
            p = offs[rng.randrange(len(offs))]
            chunks.append(list(p) + list(p))

    def pos(m, o):
        return starts[m] + o
    chunks.sort(key=lambda c: (pos(c[0], c[1]), pos(c[2], c[3])))
    out, last = [], -1
    for c in chunks:
        b, e = pos(c[0], c[1]), pos(c[2], c[3])
        if b >= last and e >= b:
            out.append(c)
            last = e
    if not out:
        out = [[0, 0, 0, min(lens[0], 65535)]]
    pat = [rng.choice([1, 2, 3, 5, 17, 64, 1000, 70000]) for _ in range(rng.randrange(1, 4))]
    if rng.random() < 0.1:
        pat.append(0)
    tot = sum(pos(c[2], c[3]) - pos(c[0], c[1]) for c in out)
    if tot > 3000:
        pat = [x for x in pat if x >= 64] or [1000]
    mx = min(4 * (len(lens) + len(out)) + 8 + tot, 300)
    bufs = [pat[i % len(pat)] for i in range(mx)]
    c = dict(mode='chunks', members=members, eof=eof, rd=rng.choice([1, 1, 1, 2, 3]), blocked=rng.random() < 0.3, chunks=out, bufs=bufs)
    if rng.random() < 0.15:
        c['cache'] = rng.choice(['lru', 'random'])
        c['cachen'] = rng.randrange(1, 3)
        c['rd'] = 1
    return c


def judge_chunks(c, o):
    tag = 'chunkreader' + ('+' + c['cache'] if c.get('cache') else '')
    if 'panic' in o:
        return [(tag + ':panic:' + rdflat.panic_class(o['panic']), 'ChunkReader panicked: ' + o['panic'], None)]
    if 'hang' in o:
        return [(tag + ':hang', 'a call did not return', None)]
    if 'reads' not in o:
        return [(tag + ':harness', str(o)[:300], None)]
    if o.get('new_err'):
        return [(tag + ':new:error', 'NewChunkReader failed: %s' % o.get('new_msg'), None)]
    ff = rdflat.FlatFile(c, o)
    exp = b''.join(ff.data[ff.starts[x[0]] + x[1]:ff.starts[x[2]] + x[3]] for x in c['chunks'])
    got = o['total']
    last = o['reads'][-1] if o['reads'] else None
    has_empty = any((x[0], x[1]) == (x[2], x[3]) for x in c['chunks'][:-1])
    suffix = ':empty-chunk' if has_empty else ''
    for k, (n, r) in enumerate(zip(c['bufs'], o['reads'])):
        if r['n'] > n:
            return [(tag + ':overlong-read', 'read %d returned %d bytes into a buffer of %d' % (k, r['n'], n), None)]
    if got > len(exp):
        return [(tag + ':long' + suffix, 'returned %d bytes, the chunks span %d' % (got, len(exp)), dict(total=len(exp)))]
    if o['ad'] != (zlib.adler32(exp[:got]) & 0xffffffff):
        return [(tag + ':bytes' + suffix, 'the %d bytes returned differ from the flat spans of the chunks' % got, dict(total=len(exp)))]
    if last and last['err'] == 1 and got < len(exp):
        return [(tag + ':early-eof' + suffix, 'io.EOF after %d of %d bytes (read %d)' % (got, len(exp), len(o['reads']) - 1), dict(total=len(exp)))]
    if last and last['err'] == 2:
        return [(tag + ':error' + suffix, 'error %s after %d of %d bytes' % (last.get('msg'), got, len(exp)), dict(total=len(exp)))]
    if last and last['err'] == 0 and len(o['reads']) == len(c['bufs']) and len(c['bufs']) < 300:
        return [(tag + (':no-eof' if got == len(exp) else ':stall') + suffix, 'no io.EOF after %d reads, %d of %d bytes' % (len(o['reads']), got, len(exp)), dict(total=len(exp)))]
    return []


def coq_chunks_case(c, o):
    bases = o['bases']

    def off(m, x):
        return '(%d, %d)' % (bases[m] if m < len(bases) else o['fsize'], x)
    chunks = '[' + '; '.join('(%s, %s)' % (off(x[0], x[1]), off(x[2], x[3])) for x in c['chunks']) + ']'
    cache = 'None'
    if c.get('cache'):
        cache = '(Some (%s, %d))' % (rdflat.KIND[c['cache']], c['cachen'])
    nread = len(o['reads'])
    bufs = '[' + '; '.join(str(n) for n in c['bufs'][:nread]) + ']'
    ob = '[' + '; '.join('(%d, %d, %d)' % (r['n'], r['ad'], r['err']) for r in o['reads']) + ']'
    return 'mkCR %s %s %s %s %s %s' % (rdflat.coq_file(c, o), cache, 'true' if c['blocked'] else 'false', chunks, bufs, ob)


# -------------------------------------------------------------------- BAM

def gen_bam(rng, tier):
    c = rdbam.gen_bam_case(rng, nrec_max=7 if tier == 'quick' else 12)
    n = len(c['recs'])
    c['rd'] = rng.choice([1, 1, 2, 3])
    if rng.random() < 0.5:
        # a block cache under the BAM reader (rd = 1: the read-ahead reader with a cache is the recorded C03 finding),
        # and chunks that are set and abandoned without a read in between
        c['rd'] = 1
        c['cache'] = rng.choice(['lru', 'random', 'lru'])
        c['cachen'] = rng.randrange(2, 5)
        c['abandon'] = rng.random() < 0.7
    c['pairs'] = [[i, j] for i in range(n) for j in range(i, n)]
    if tier == 'quick' and len(c['pairs']) > 12:
        c['pairs'] = rng.sample(c['pairs'], 12)
    its = []
    for _ in range(2):
        k = rng.randrange(1, 4)
        its.append([sorted([rng.randrange(n), rng.randrange(n)]) for _ in range(k)])
    c['iters'] = its
    return c


def judge_bam(c, o):
    tag = 'bam'
    if 'panic' in o:
        return [(tag + ':panic:' + rdflat.panic_class(o['panic']), 'bam reader panicked: ' + o['panic'], None)]
    if 'hang' in o:
        return [(tag + ':hang', 'a call did not return', None)]
    if 'seq' not in o or o.get('new_err'):
        return [(tag + ':harness', str(o)[:300], None)]
    lay, total = rdbam.layout(c['text'], c['recs'])
    names = [rdbam.rec_name(i, r[0]) for i, r in enumerate(c['recs'])]
    if total != o['stream'] or names != o['names']:
        return [(tag + ':harness', 'layout mismatch %s %s' % (total, o['stream']), None)]
    got = [s['name'] for s in o['seq']]
    if got != names or o.get('seq_err') != 1:
        return [(tag + ':sequential', 'sequential pass returned %s (err %s %s), the file holds %s' % (got, o.get('seq_err'), o.get('seq_msg'), names), None)]
    lens, bases = o['lens'], o['bases']
    starts = [sum(lens[:i]) for i in range(len(lens))]

    def tr(f, b):
        if f == o['fsize']:
            return total if b == 0 else None
        if f not in bases:
            return None
        i = bases.index(f)
        return None if b > lens[i] else starts[i] + b
    for k, s in enumerate(o['seq']):
        ch = s['chunk']
        if (tr(ch[0], ch[1]), tr(ch[2], ch[3])) != lay[k]:
            return [(tag + ':record-chunk', 'record %d: LastChunk %s translates to %s, the record occupies %s' % (k, ch, (tr(ch[0], ch[1]), tr(ch[2], ch[3])), lay[k]), None)]
    for (i, j), p in zip(c['pairs'], o['pairs']):
        if p.get('names', []) != names[i:j + 1] or p.get('err') != 1:
            return [(tag + ':setchunk', 'SetChunk(Begin of record %d, End of record %d) yielded %s (err %s), expected %s then io.EOF' % (i, j, p.get('names'), p.get('err', p.get('set_err')), names[i:j + 1]), None)]
    for lst, p in zip(c['iters'], o['iters']):
        want = [x for i, j in lst for x in names[i:j + 1]]
        if p.get('names', []) != want or p.get('err') != 0:
            return [(tag + ':iterator', 'Iterator over %s yielded %s (err %s), expected %s' % (lst, p.get('names'), p.get('err', p.get('set_err')), want), None)]
    return []


def zl(b):
    return '[' + '; '.join(str(x) for x in b) + ']'


def coq_bam_case(c, o, stream_datas):
    fc = dict(datas=stream_datas, eof=c['eof'])
    seq = '[' + '; '.join('(%s, (%d, %d, %d, %d))' % (zl(s['name'].encode()), *s['chunk']) for s in o['seq']) + ']'
    pairs = '[' + '; '.join('(%d%%nat, %d%%nat, [%s])' % (ij[0], ij[1], '; '.join(zl(n.encode()) for n in p.get('names') or []))
                            for ij, p in zip(c['pairs'], o['pairs'])) + ']'
    iters = '[' + '; '.join('([%s], [%s])' % ('; '.join('(%d%%nat, %d%%nat)' % (i, j) for i, j in lst), '; '.join(zl(n.encode()) for n in p.get('names') or []))
                            for lst, p in zip(c['iters'], o['iters'])) + ']'
    return 'mkBam %s %s %s %s' % (rdflat.coq_file(fc, o), seq, pairs, iters)


def bam_stream(c):
    """The uncompressed BAM bytes, written here independently of the harness (SAMv1 4.2)."""
    import struct
    txt = rdbam.HD
    while len(txt) < c['text']:
        txt += rdbam.CO
    b = b'BAM\x01' + struct.pack('<i', len(txt)) + txt + struct.pack('<i', 0)
    for i, (nl, sl) in enumerate(c['recs']):
        name = rdbam.rec_name(i, nl).encode()
        size = 32 + nl + 1 + (sl + 1) // 2 + sl
        b += struct.pack('<iiiBBHHHiiii', size, -1, -1, nl + 1, 0, 4680, 0, 4, sl, -1, -1, 0)
        b += name + b'\x00'
        b += bytes((0x11 * (1 + (k + i) % 4)) & 0xff for k in range((sl + 1) // 2))
        b += bytes(20 + (k + i) % 20 for k in range(sl))
    return b


def split_stream(stream, cuts):
    out, p = [], 0
    for n in cuts:
        n = min(n, len(stream) - p)
        out.append(stream[p:p + n].hex())
        p += n
    if p < len(stream):
        out.append(stream[p:].hex())
    return out


def run(res, rng, tier):
    nchunk, nbam = (90, 30) if tier == 'quick' else (2500, 600)
    cases = []
    for c in c02.corpus('C13'):
        cases.append(c)
    for k in range(nchunk):
        cases.append(gen_chunk_case(rng, empties=(k % 3 == 0), small=(k % 4 == 1)))
    for k in range(nbam):
        cases.append(gen_bam(rng, tier))
    obs = core.run_harness('c13', cases, jobs=6)
    cr_terms, bam_terms = [], []
    for c, o in zip(cases, obs):
        res.evaluations += 1
        if c['mode'] == 'chunks':
            bad = judge_chunks(c, o)
            res.count('chunkreader/chunks=%d' % len(c['chunks']))
            res.count('chunkreader/rd=%d' % c['rd'])
            if any((x[0], x[1]) == (x[2], x[3]) for x in c['chunks']):
                res.count('chunkreader/has-empty-chunk')
            if any(x[0] != x[2] for x in c['chunks']):
                res.count('chunkreader/chunk-spans-blocks')
                res.nontrivial.add(json.dumps([c['members'], c['eof'], c['chunks'], c['bufs'][:3], c['rd']]))
            elif len(c['chunks']) > 1:
                res.nontrivial.add(json.dumps([c['members'], c['eof'], c['chunks'], c['bufs'][:3], c['rd']]))
            if 'reads' in o and not o.get('new_err'):
                cr_terms.append((c, o, coq_chunks_case(c, o)))
            elif not bad:
                res.corr_bad.append(dict(case=c, obs=rdflat.clean(o)))
        else:
            bad = judge_bam(c, o)
            res.count('bam/records=%d' % len(c['recs']))
            res.count('bam/members=%d' % len(c['cuts']))
            res.count('bam/rd=%d' % c['rd'])
            if len(c['cuts']) > 1:
                res.nontrivial.add(json.dumps([c['text'], c['recs'], c['cuts'], c['rd']]))
            if 'seq' in o and not o.get('new_err'):
                stream = bam_stream(c)
                if len(stream) != o['stream']:
                    bad = bad or [('bam:harness', 'independent BAM writer and harness disagree on the stream length', None)]
                else:
                    bam_terms.append((c, o, coq_bam_case(c, o, split_stream(stream, c['cuts']))))
            elif not bad:
                res.corr_bad.append(dict(case=c, obs=rdflat.clean(o)))
        for sig, what, exp in bad:
            res.failures.append(dict(sig=sig, what=what, case=c, observed=rdflat.clean(o), expected=exp))
    okn = 0
    for name, ctype, fn, terms in (('c13', 'crcase', 'c13_agree', cr_terms), ('c13b', 'bamcase', 'c13bam_agree', bam_terms)):
        if not terms:
            continue
        bad, err = core.coq_mismatches(HEADER, ctype, fn, [t[2] for t in terms], name, shard=30)
        if err:
            res.corr_bad.append(dict(error=err))
        for i in bad:
            c, o, t = terms[i]
            res.corr_bad.append(dict(case=c, obs=rdflat.clean(o), agree=fn, note='Model/ChunkReader.v and the implementation disagree'))
        okn += len(terms) - len(bad)
    res.extra['traces_validated_against_impl'] = okn
    res.rule = ('ChunkReader: files as in C02 (and small files of 1..4 members of 0..4 bytes), ordered non-overlapping chunk lists whose boundaries are block starts/ends, '
                'one byte inside either end, or random (both representations of a block boundary occur), one third with zero-length chunks, buffer-size patterns from '
                '{0,1,2,3,5,17,64,1000,70000}, Blocked on/off before, rd in {1,2,3}, some with an LRU/Random cache. BAM: hand-written BAM streams (1..7 records, thorough 12) cut into '
                'members so that record ends fall exactly on, one before and one after block ends, inside the length field, records spanning several blocks, empty members; '
                'sequential pass, SetChunk for (i,j) pairs (all on small files), Iterator over random chunk lists in any order. '
                'Non-trivial: a chunk list with more than one chunk or a chunk spanning blocks; a BAM file with more than one member.')
    res.samples = [dict(case=dict(c, bufs=c.get('bufs', [])[:6]), observed=dict((k, v) for k, v in rdflat.clean(o).items() if k in ('total', 'seq', 'bases', 'new_err')))
                   for c, o in [(cases[0], obs[0]), (cases[-1], obs[-1])]]
    res.trusted = TRUSTED
    res.assumptions = ASSUME


def replay(res, rp):
    c = rp.get('case')
    if not c:
        print(json.dumps(rp, indent=1)[:3000])
        return 0
    o = core.run_harness('c13', [c])[0]
    bad = judge_chunks(c, o) if c['mode'] == 'chunks' else judge_bam(c, o)
    print('case     :', json.dumps(c))
    print('observed :', json.dumps(rdflat.clean(o))[:3000])
    print('oracle   :', bad if bad else 'flat spans agree')
    return 1 if bad else 0


TRUSTED = [
    'Coq 8.16.1 kernel (coqc); vm_compute used for the correspondence runs only',
    'hand-written models Model/ChunkReader.v (index.ChunkReader.Read, bam.Reader newBuffer/Read limit test/SetChunk, Iterator.Next) over Model/Reader.v, tied to the code on every run',
    'BAM record decoding below the framing (fields, aux) is not modelled; records are compared by their name bytes',
    'the harness (member builder, hand-written BAM writer), generators and the flat-span oracle',
    'axioms: none',
]
ASSUME = [
    'chunk lists are ordered and non-overlapping with both ends at valid offsets (block start + offset <= block length) - the property statement',
    'chunk_replay: the uncompressed stream after the header is a sequence of frames (4-byte length, body) - hypothesis of the theorem',
]

CLAIM = dict(
    text='Machine-checked proof (Coq 8.16.1) about the models of index.ChunkReader.Read and of bam.Reader Read/SetChunk at the record-framing level, both written over the reader model of C02: '
         'a ChunkReader over any chunk list that is ordered and non-overlapping in the flat stream (valid ends, both representations of a block boundary, zero-length chunks) returns, for every buffer-size sequence, '
         'a prefix of the concatenated flat spans, reports io.EOF only at the very end and only when everything was delivered, and does so after a bounded number of non-empty reads (chunkreader_exact_partial + chunkreader_terminates, on the reader with store objects); '
         'under the hypothesis that the stream after the header is a sequence of length-prefixed frames, SetChunk(Begin of record i, End of record j) from any later reader state yields exactly records i..j and then io.EOF (chunk_replay), an Iterator over any list of such chunks in any order yields their records in turn (iterator_replay), '
         'and the End offset recorded after a read is canonical. Models are run against the implementation on generated files on every run; a flat-span / record-layout oracle judges the implementation directly.',
    note='chunk_replay / iterator_replay are on the value reader under the framing hypothesis (BAM field decoding not modelled); '
         'members of 65536 bytes excluded (C02 finding). Trusted: Coq kernel, hand models (validated by correspondence), harness, oracle. No axioms.',
    technique='Coq proof over hand models + vm_compute correspondence + flat-span oracle',
    design='6/C13')
