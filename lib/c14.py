"""C14: block caches (bgzf/cache) honour the Cache contract, sequentially and concurrently."""
import glob
import json
import os

import core
from core import cz, cb, clist

PROPS = 'Props/C14.v'
HEADER = ('From Hts Require Import Base.Prim Generated Model.Cache Model.LockSkel.\n'
          'Open Scope Z_scope.\n'
          'Definition c14_agree_gen := c14_agree_flat lru_relock fifo_relock.')

PUT, GET, PEEK, LEN, CAP, RESIZE, DROP, FREE, REBASE, STATS, RESET = range(11)
PUTNEW, PUTBACK = 20, 21
HUGE = [(1 << 63) - 1, (1 << 63) - 2, (1 << 63) - 3, 1 << 62]
OPN = {PUT: 'put', GET: 'get', PEEK: 'peek', LEN: 'len', CAP: 'cap', RESIZE: 'resize', DROP: 'drop',
       FREE: 'free', REBASE: 'rebase', STATS: 'stats', RESET: 'reset', PUTNEW: 'putnew', PUTBACK: 'putback'}
KINDS = ['lru', 'fifo', 'random']
KNOWN_SIG = 'fifo:get:used-block-not-removed'


# ----------------------------------------------------------------- generators

def rand_history(rng, nb, cap, length, stats, shape):
    """Symbolic history: putnew/putback are resolved by the harness, which
    follows the client protocol with the answers it gets."""
    ops = []
    for _ in range(length):
        r = rng.random()
        k = rng.randrange(nb)
        if shape == 'reader':
            # the way bgzf.Reader drives a cache: Get, then Put of the block it held
            if r < 0.45:
                ops.append([GET, k])
                if rng.random() < 0.8:
                    ops.append([PUTBACK] if rng.random() < 0.5 else [PUTNEW, rng.randrange(nb), 1])
            elif r < 0.85:
                ops.append([PUTNEW, k, 1 if rng.random() < 0.8 else 0])
            else:
                ops.append([PEEK, k])
            continue
        if r < 0.38:
            ops.append([PUTNEW, k, 1 if rng.random() < 0.65 else 0])
        elif r < 0.56:
            ops.append([GET, k])
        elif r < 0.62:
            ops.append([PUTBACK])
        elif r < 0.70:
            ops.append([PEEK, k])
        elif r < 0.74:
            ops.append([LEN])
        elif r < 0.77:
            ops.append([CAP])
        elif r < 0.84:
            ops.append([RESIZE, rng.randrange(1, cap + 3)])
        elif r < 0.91:
            ops.append([DROP, rng.randrange(0, cap + 2) if rng.random() < 0.9 else rng.choice(HUGE)])
        elif r < 0.96:
            # "free everything": counts at the top of the int range (judged by the contract oracle only)
            ops.append([FREE, rng.randrange(0, cap + 3) if rng.random() < 0.8 else rng.choice(HUGE)])
        elif stats:
            ops.append([STATS] if rng.random() < 0.8 else [RESET])
        else:
            ops.append([GET, k])
    if stats:
        ops.append([STATS])
    return ops


def gen_seq(rng, tier):
    n = 150 if tier == 'quick' else 4000
    cases = []
    for i in range(n):
        kind = KINDS[i % 3]
        cap = rng.choice([1, 1, 2, 2, 3, 3, 4, 6])
        nb = rng.choice([3, 3, 4, 5]) if cap <= 3 else rng.choice([5, 8])
        stats = rng.random() < 0.3
        shape = 'reader' if rng.random() < 0.3 else 'mixed'
        length = rng.choice([3, 6, 6, 10, 16, 24, 40])
        cases.append(dict(mode='seq', kind=kind, cap=cap, nb=nb, stats=stats,
                          ops=rand_history(rng, nb, cap, length, stats, shape)))
    return cases


def gen_exh(tier):
    cases = []
    for kind in KINDS:
        for cap in (1, 2, 3):
            if tier == 'quick':
                cases.append(dict(mode='exh', kind=kind, cap=cap, nb=3, depth=5, alpha='full'))
                if cap == 2:
                    cases.append(dict(mode='exh', kind=kind, cap=cap, nb=3, depth=6, alpha='core'))
            else:
                cases.append(dict(mode='exh', kind=kind, cap=cap, nb=3, depth=6, alpha='full'))
                cases.append(dict(mode='exh', kind=kind, cap=cap, nb=4, depth=6, alpha='core'))
                if cap == 2:
                    cases.append(dict(mode='exh', kind=kind, cap=cap, nb=3, depth=7, alpha='core'))
    return cases


def gen_conc(rng, tier):
    n = 60 if tier == 'quick' else 900
    cases = []
    for i in range(n):
        kind = KINDS[i % 3]
        g = rng.choice([2, 2, 3, 4])
        cap = rng.choice([1, 2, 2, 3])
        nb = 3
        threads = []
        for _ in range(g):
            t = []
            for _ in range(rng.choice([3, 4, 5, 6] if g < 4 else [3, 4])):
                r = rng.random()
                k = rng.randrange(nb)
                if r < 0.4:
                    t.append([PUTNEW, k, 1 if rng.random() < 0.7 else 0])
                elif r < 0.65:
                    t.append([GET, k])
                elif r < 0.72 and kind != 'fifo':
                    # FIFO leaves a used block it hands out in the table, so two
                    # clients may hold it at once; putting it back is only
                    # meaningful for a single client (the reader)
                    t.append([PUTBACK])
                elif r < 0.8:
                    t.append([PEEK, k])
                elif r < 0.85:
                    t.append([LEN])
                elif r < 0.88:
                    t.append([CAP])
                elif r < 0.94:
                    t.append([DROP, rng.randrange(1, 3)])
                else:
                    t.append([RESIZE, rng.randrange(1, 4)])
            threads.append(t)
        cases.append(dict(mode='conc', kind=kind, cap=cap, nb=nb, threads=threads,
                          rounds=8 if tier == 'quick' else 40))
    return cases


def corpus_cases():
    out = []
    d = os.path.join(core.ROOT, 'corpus', 'C14')
    for p in sorted(glob.glob(os.path.join(d, '*.json'))):
        try:
            c = json.load(open(p))
        except (OSError, ValueError):
            continue
        if isinstance(c, dict) and c.get('mode') == 'seq':
            out.append(c)
    return out


# ------------------------------------------------------------------ Coq terms
# Flat integer encoding decoded by Model/Cache.v dec_case (see the layout there).

def enc_out(op, r):
    c = op[0]
    if r is None:
        return [7, 0, 0, 0, 0, 0]
    if c == PUT:
        return [0, r[0], r[1], 0, 0, 0]
    if c == GET:
        return [1, r[0], 0, 0, 0, 0]
    if c == PEEK:
        return [2, r[0], r[1], 0, 0, 0]
    if c in (LEN, CAP):
        return [3, r[0], 0, 0, 0, 0]
    if c == FREE:
        return [5, r[0], 0, 0, 0, 0]
    if c == STATS:
        return [6] + list(r)
    return [4, 0, 0, 0, 0, 0]


def enc_step(t, inv, rs, op, ch, r, probe):
    o = (list(op) + [0, 0, 0])[:4]
    ch = ch or []
    out = [t, inv, rs] + o + [len(ch)] + list(ch) + enc_out(op, r)
    if probe is None:
        out.append(-1)
    else:
        out += [len(probe)] + list(probe)
    return out


KCODE = {'lru': 0, 'fifo': 1, 'random': 2}


def seq_term(o):
    steps = []
    nres = len(o.get('res') or [])
    for i, op in enumerate(o['ops']):
        if i < nres:
            pr = o['probe'][i] if i < len(o['probe']) else None
            if op[0] in (PEEK, LEN, CAP, STATS):
                pr = None   # read-only call: the probe after the previous call still stands
            steps.append(enc_step(0, 0, 0, op, (o['ch'][i] if i < len(o['ch']) else None), o['res'][i] or [], pr))
        else:
            steps.append(enc_step(0, 0, 0, op, None, None, None))   # the call that did not return
            break
    flat = [0, KCODE[o['kind']], o['cap'], o['nb'], len(steps)]
    for st in steps:
        flat += st
    return clist(flat)


def conc_term(o):
    evs = o['events']
    steps = []
    for pos, i in enumerate(o['order']):
        e = evs[i]
        if e['op'][0] == PUT:
            steps.append(enc_step(e['t'], e['inv'], e['res'], [REBASE, e['op'][1], e['base'], 1 if e['used'] else 0], None, [], None))
        steps.append(enc_step(e['t'], e['inv'], e['res'], e['op'], o['ch'][pos], e['r'] or [], None))
    flat = [1, KCODE[o['kind']], o['cap'], o['nb'], len(steps)]
    for st in steps:
        flat += st
    return clist(flat)


# ---------------------------------------------------------------------- run

def strip(o):
    return {k: v for k, v in o.items() if k not in ('stack',)}


def as_case(rec):
    """A failing history as a replayable seq case (primitive operations)."""
    return dict(mode='seq', kind=rec['kind'], cap=rec['cap'], nb=rec['nb'], stats=rec.get('stats', False), ops=rec['ops'])


def note_viol(res, rec, case):
    fatal = False
    for v in rec.get('viol') or []:
        if v['sig'].endswith(':protocol'):
            # a stored primitive history that the current answers no longer allow
            res.notes.append('history skipped, it does not follow the client protocol on this tree: ' + json.dumps(case)[:300])
            continue
        if v['sig'] == KNOWN_SIG:
            res.extra['fifo_get_kept_used_block_indexed'] = res.extra.get('fifo_get_kept_used_block_indexed', 0) + 1
            continue
        res.failures.append(dict(sig=v['sig'], what=v['what'] + ' (operation %d of the history)' % v['at'],
                                 case=case, observed=dict(res=rec.get('res'), probe=rec.get('probe')),
                                 expected='the Cache contract as stated by the reference oracle in harness/c14.go'))
        if v['sig'] != KNOWN_SIG:
            fatal = True
    return fatal


def run(res, rng, tier):
    import time
    t0 = time.time()
    terms = []
    hangs = 0
    # ---- 1. exhaustive short histories, judged by the oracle inside the harness
    exh = gen_exh(tier)
    eobs = core.run_harness('c14', exh, jobs=len(exh), case_timeout='3000s')
    ex_total = 0
    resample = []
    for c, o in zip(exh, eobs):
        tag = '%s/cap=%d' % (c['kind'], c['cap'])
        if 'histories' not in o:
            res.failures.append(dict(sig='%s:harness:%s' % (c['kind'], 'hang' if 'hang' in o else 'crash'),
                                     what='exhaustive run did not complete', case=c, observed=strip(o)))
            continue
        ex_total += o['histories']
        res.evaluations += o['histories']
        res.count('exhaustive/%s/depth=%d/%s' % (tag, c['depth'], c['alpha']), o['histories'])
        res.extra.setdefault('exhaustive_runs', []).append(
            dict(kind=c['kind'], cap=c['cap'], depth=c['depth'], alphabet=c['alpha'], histories=o['histories'],
                 calls=o['calls'], with_eviction_or_hit=o['nontrivial'], complete=not o.get('fail')))
        res.extra['exh_nontrivial'] = res.extra.get('exh_nontrivial', 0) + o['nontrivial']
        for k, v in (o.get('buckets') or {}).items():
            res.count('exhaustive/' + k, v)
        # FIFO.Get keeps a used block indexed: outside the property (which only
        # demands the reader's protocol); counted, not a finding
        res.extra['fifo_get_kept_used_block_indexed'] = res.extra.get('fifo_get_kept_used_block_indexed', 0) + (o.get('known') or {}).get(KNOWN_SIG, 0)
        for rec in o.get('fail') or []:
            if rec.get('hang'):
                hangs += 1
            note_viol(res, rec, as_case(rec))
            resample.append(as_case(rec))
    core.log('c14: exhaustive %.1fs' % (time.time() - t0))
    # ---- 2. explicit histories: corpus, failing ones again, random; all go to Coq
    seq = corpus_cases() + resample
    if hangs:
        res.notes.append('a call hung during the exhaustive runs; random histories reduced to keep the run short')
        seq += gen_seq(rng, tier)[:12]
    else:
        seq += gen_seq(rng, tier)
    sobs = core.run_harness('c14', seq, jobs=8, case_timeout='60s')
    for c, o in zip(seq, sobs):
        res.evaluations += 1
        if 'ops' not in o:
            res.failures.append(dict(sig='%s:harness:%s' % (c['kind'], 'hang' if 'hang' in o else 'crash'),
                                     what='harness did not complete the history', case=c, observed=strip(o)))
            continue
        for f in ('ops', 'res', 'probe', 'ch'):
            o[f] = o.get(f) or []
        prim = as_case(o)
        note_viol(res, o, prim)
        ev = sum(1 for op, r in zip(o['ops'], o['res']) if op[0] == PUT and len(r) == 2 and r[0] >= 0 and r[1] == 1)
        hit = sum(1 for op, r in zip(o['ops'], o['res']) if op[0] == GET and len(r) == 2 and r[0] >= 0)
        if ev or hit:
            res.nontrivial.add(json.dumps(prim, sort_keys=True))
        res.count('seq/%s/len=%s/%s' % (c['kind'], '<=8' if len(o['ops']) <= 8 else '<=24' if len(o['ops']) <= 24 else '>24',
                                         'stats' if c.get('stats') else 'plain'))
        res.count('seq/evictions=%s' % (ev if ev < 4 else '4+'))
        for op in o['ops']:
            res.count('seq/op=' + OPN[op[0]])
        if any(v['sig'].endswith(':protocol') for v in o.get('viol') or []):
            continue
        if any(op[0] in (DROP, FREE) and op[1] > (1 << 31) for op in o['ops']):
            # the model counts drop iterations in unary (Z.to_nat n): such a history is judged by the oracle only
            res.count('seq/huge-drop-or-free(oracle only)')
            continue
        terms.append((prim, o, seq_term(o)))
    core.log('c14: +seq %.1fs' % (time.time() - t0))
    # ---- 3. concurrent runs with a linearizability search in the harness
    conc = gen_conc(rng, tier)
    if hangs:
        conc = conc[:6]
    cobs = core.run_harness('c14', conc, jobs=4, case_timeout='120s')
    overl = 0
    lin_states = 0
    for c, o in zip(conc, cobs):
        res.evaluations += o.get('rounds', 1)
        if 'events' not in o and not o.get('viol'):
            res.failures.append(dict(sig='%s:concurrent:%s' % (c['kind'], 'hang' if 'hang' in o else 'crash'),
                                     what='concurrent run did not complete: ' + str(o.get('stderr', ''))[-300:], case=c, observed=strip(o)))
            continue
        for v in o.get('viol') or []:
            res.failures.append(dict(sig=v['sig'], what=v['what'], case=c, observed=dict(events=o.get('events'))))
        overl += o.get('overlaps', 0)
        lin_states += o.get('states', 0)
        res.count('conc/%s/goroutines=%d' % (c['kind'], len(c['threads'])), o.get('rounds', 1))
        if o.get('overlaps', 0) > 0:
            res.nontrivial.add(json.dumps(c, sort_keys=True))
        if o.get('order') is not None and not o.get('viol'):
            terms.append((c, dict(order=o['order']), conc_term(o)))
    res.extra['concurrent'] = dict(cases=len(conc), rounds=sum(o.get('rounds', 0) for o in cobs),
                                   overlapping_call_pairs_in_checked_histories=overl, linearization_search_states=lin_states,
                                   rounds_explained_by_contract_only=sum(o.get('relaxed', 0) for o in cobs))
    core.log('c14: +conc %.1fs' % (time.time() - t0))
    # ---- 4. the Coq model on the same histories
    bad, err = core.coq_mismatches(HEADER, 'list Z', 'c14_agree_gen', [t[2] for t in terms], 'c14', shard=100)
    if err:
        res.corr_bad.append(dict(error=err))
    for i in bad:
        c, o, t = terms[i]
        res.corr_bad.append(dict(case=c, obs=strip(o), coq_case=t,
                                 note='Model/Cache.v (with the lock flags read off the generated skeletons) and the implementation disagree on this history'))
    core.log('c14: +coq %.1fs' % (time.time() - t0))
    res.extra['traces_validated_against_impl'] = len(terms)
    res.extra['exhaustive'] = False
    res.extra['exhaustive_histories'] = ex_total
    nt = res.extra.pop('exh_nontrivial', 0)
    res.extra['exhaustive_histories_with_eviction_or_hit'] = nt
    res.rule = ('(1) every history of the stated length over the alphabet {put a block the client owns re-based to (base, used/unused), put back the block last '
                'returned by Get, Get base, Drop 1..2, Free 1..2, Resize 1..3} x 3 bases (up to renaming) x capacity 1..3 x {LRU, FIFO, Random}, each on a fresh cache, '
                'with Len/Cap/Peek of every base after every call, judged inside the harness by the contract oracle (counted in exhaustive_histories; '
                'distinct by construction); (2) random histories up to 80 calls incl. StatsRecorder, all also evaluated by the Coq model; (3) 2..4 goroutines on one cache, '
                'stamps + linearizability search, witness order re-run by the Coq model. distinct_nontrivial counts only the distinct explicit histories of (2) with at '
                'least one eviction or hit and the concurrent cases of (3) in which calls overlapped in time; exhaustive histories with an eviction or a hit are '
                'reported separately in exhaustive_histories_with_eviction_or_hit')
    samples = [dict(case=c, observed=dict(res=o.get('res'), probe=o.get('probe'))) for c, o, _ in terms[:2]]
    for c, o in zip(conc, cobs):
        if o.get('events'):
            samples.append(dict(case=c, observed=dict(events=o['events'][:12], order=o.get('order'))))
            break
    if exh and 'histories' in eobs[0]:
        samples.append(dict(case=exh[0], observed={k: v for k, v in eobs[0].items() if k != 'fail'}))
    res.samples = samples
    res.trusted = TRUSTED
    res.assumptions = ASSUME


def replay(res, rp):
    c = rp.get('case')
    if not c:
        print(json.dumps(rp, indent=1))
        return 0
    o = core.run_harness('c14', [c], case_timeout='120s')[0]
    print('case     :', json.dumps(c))
    print('observed :', json.dumps(strip(o))[:4000])
    viol = [v for v in (o.get('viol') or []) if v['sig'] != KNOWN_SIG]
    print('oracle   :', viol or 'no violation')
    if c.get('mode') == 'seq' and 'ops' in o:
        bad, err = core.coq_mismatches(HEADER, 'list Z', 'c14_agree_gen', [seq_term(o)], 'c14r')
        print('model    :', 'agrees with the implementation' if not bad and not err else 'DISAGREES ' + str(err or ''))
    return 1 if viol else 0


TRUSTED = [
    'Coq 8.16.1 kernel (coqc); vm_compute for case evaluation and for the checks over the generated lock skeletons; no native_compute',
    'gen/emit_c14.go: reads lock/unlock calls, accesses to receiver fields, calls of methods of the same receiver, returns and the if/for nesting off the Go AST of bgzf/cache/cache.go; '
    'aliases of map/list nodes are resolved by static type (*node, map); a local of another reference type derived from shared state aborts the generator',
    'Model/LockSkel.v: abstract execution of a skeleton against one non-reentrant RW mutex (all paths; loop bodies must be lock neutral)',
    'Model/Cache.v is hand written after the Go code (a node is identified with its block; Go map iteration order is an explicit choice); it is run against the implementation on every history of parts (2) and (3)',
    'Model/Atomic.v: a method body is an arbitrary sequence of micro-steps on the shared state taken while the mutex is held; that every access of every method lies inside its critical section (aliases resolved by static type) is theorem accesses_inside_critical_section over the regenerated skeletons; that the body run alone computes the model step is the correspondence check',
    'harness/c14.go: contract oracle c14Ref, client-protocol bookkeeping, progress watchdog (a call that makes no progress for 4 s is a hang)',
    'bgzf/verif_hooks_c14.go (tag verif): manufactures and re-bases Block values',
    'axioms: none (Print Assumptions: Closed under the global context)',
]
ASSUME = [
    'client protocol: Put only blocks the client holds; overwrite (re-base) only blocks it owns - fresh ones, ones Put handed back (evicted or not retained) and, for LRU and Random, ones Get returned; '
    'FIFO is checked under the reader protocol (a block returned by Get may be put back but not overwritten), because FIFO.Get keeps used blocks indexed and the repository test suite fixes that behaviour',
    'Resize(n) with n >= 1 (the constructors refuse n < 1)',
    'a block is used by one client at a time; Free(n, c) is a composite of five calls and is not claimed atomic',
    'the used flag of a block held by a cache does not change (only an owner overwrites a block)',
]

CLAIM = dict(
    text='Machine-checked proof (Coq 8.16.1) about a hand-written executable model of bgzf/cache LRU, FIFO, Random, StatsRecorder and Free, for all operation histories allowed by the client '
         'protocol (induction over reachable states): capacity and distinct keys, refusal of unused blocks when full, LRU/FIFO equal an independently written contract machine '
         '(eviction: newest unused block, else oldest), Random evicts an unused block whenever one is held, Peek/Len/Cap agree with Get, Get/Peek never expose a block with another base, '
         'Resize/Drop/Free return with the stated capacity and free slots. Lock skeletons of every method are regenerated from the Go source on each run and proved free of self-deadlock and to be one '
         'critical section; a generic theorem shows every interleaving of lock;body;unlock operations on an RW mutex equals the sequential run in lock-acquisition order, which respects real time. '
         'The model is run against the implementation on every generated history (sequential, and concurrent via a linearization witness).',
    note='Trusted: Coq kernel; gen/emit_c14.go (lock/access skeleton extraction); the hand-written model (validated by correspondence on each run); body of a critical section taken as one atomic step. '
         'FIFO is proved under the reader protocol, which is what the property demands; under the documented bgzf.Cache protocol (Get removes) it is refuted (theorem fifo_get_peek_base_strong_refuted, documentation only). Free is proved sequentially and shown not to be atomic. No axioms.',
    technique='Coq proof over hand model + source-regenerated lock skeletons + vm_compute correspondence + contract oracle with exhaustive short histories and linearizability search',
    design='6/C14')
