"""C15: index serialisation round trip keeps answers and statistics (BAI, CSI, tabix)."""
import json
import struct

import core
import c04
import c04gen
import c04coq

PROPS = 'Props/C15.v'


# ------------------------------------------------ spec-level writers (foreign files)
# Written from SAMv1 section 5.2 (BAI), the CSI and tabix format descriptions.

def u32(x):
    return struct.pack('<I', x & 0xffffffff)


def u64(x):
    return struct.pack('<Q', x & 0xffffffffffffffff)


def spec_bins(bins, stats, pseudo, pseudo_at, csi_ver=None):
    ents = []
    for b in bins:
        e = u32(b['bin'])
        if csi_ver:
            e += u64(b.get('left', 0))
            if csi_ver == 2:
                e += u64(b.get('records', 0))
        e += u32(len(b['chunks'])) + b''.join(u64(x) + u64(y) for x, y in b['chunks'])
        ents.append(e)
    if stats is not None:
        e = u32(pseudo)
        if csi_ver:
            e += u64(0)
            if csi_ver == 2:
                e += u64(0)
        e += u32(2) + u64(stats[0]) + u64(stats[1]) + u64(stats[2]) + u64(stats[3])
        ents.insert(min(pseudo_at, len(ents)), e)
    return u32(len(ents)) + b''.join(ents)


def spec_core(refs, trailer):
    out = b''
    for r in refs:
        out += spec_bins(r['bins'], r['stats'], 37450, r['pseudo_at'])
        out += u32(len(r['intv'])) + b''.join(u64(x) for x in r['intv'])
    if trailer is not None:
        out += u64(trailer)
    return out


def spec_bai(refs, trailer):
    return b'BAI\x01' + u32(len(refs)) + spec_core(refs, trailer)


def spec_tbi(refs, trailer, names, hdr):
    nm = b''.join(n.encode() + b'\0' for n in names)
    fmt = (hdr[0] & 0xff) | (0x10000 if hdr[1] else 0)
    return (b'TBI\x01' + u32(len(refs)) + u32(fmt) + b''.join(u32(x) for x in hdr[2:7]) + u32(len(nm)) + nm
            + spec_core(refs, trailer))


def spec_csi(refs, trailer, ms, dp, ver, aux):
    limit = ((1 << ((dp + 1) * 3)) - 1) // 7
    out = b'CSI' + bytes([ver]) + u32(ms) + u32(dp) + u32(len(aux)) + bytes(aux) + u32(len(refs))
    for r in refs:
        out += spec_bins(r['bins'], r['stats'], limit + 1, r['pseudo_at'], csi_ver=ver)
    if trailer is not None:
        out += u64(trailer)
    return out


def gen_foreign(rng, kind):
    """A well-formed index file that Add would not necessarily produce: references
    without bins, statistics missing or not last, bins and chunks out of order,
    zero tiles, no trailing count."""
    nref = rng.choice([1, 1, 2, 3, 5])
    ms, dp = (14, 5) if kind != 'csi' or rng.random() < 0.4 else (rng.randrange(1, 21), rng.randrange(1, 9))
    maxbin = ((1 << ((dp + 1) * 3)) - 1) // 7
    refs = []
    off = rng.randrange(1, 1 << 20)
    for _ in range(nref):
        nb = rng.choice([0, 0, 1, 2, 4, 7])
        nums = set()
        while len(nums) < nb:
            lvl = rng.randrange(0, dp + 1)
            first = ((1 << (3 * lvl)) - 1) // 7
            nums.add(first + rng.randrange(0, min(1 << (3 * lvl), 64)))
        nums = [n for n in nums if n < maxbin]
        bins = []
        first_off = off
        for n in nums:
            chunks = []
            for _ in range(rng.choice([0, 1, 1, 2, 3])):
                e = off + rng.randrange(1, 70000)
                chunks.append([off, e])
                off = e + rng.choice([0, 0, rng.randrange(0, 1 << 18)])
            if rng.random() < 0.3:
                rng.shuffle(chunks)
            left = chunks[0][0] if chunks and rng.random() < 0.7 else rng.randrange(0, off + 1)
            bins.append(dict(bin=n, chunks=chunks, left=left, records=rng.randrange(0, 50)))
        r = rng.random()
        if r < 0.4:
            bins.sort(key=lambda b: b['bin'])
        elif r < 0.7:
            rng.shuffle(bins)
        stats = None
        if rng.random() < 0.65:
            stats = [first_off, off, rng.randrange(0, 1000), rng.randrange(0, 50)]
        intv = []
        if kind != 'csi' and rng.random() < 0.8:
            v = 0
            for _ in range(rng.choice([1, 2, 5, 17, 40])):
                if rng.random() < 0.5:
                    v = max(v, rng.randrange(first_off, off + 1))
                intv.append(v if rng.random() < 0.8 else 0)
        refs.append(dict(bins=bins, stats=stats, pseudo_at=rng.choice([0, 1, 99, 99, 99]), intv=intv))
    trailer = rng.choice([None, 0, 7, rng.randrange(0, 1 << 40)])
    c = dict(kind=kind, nref=nref, recs=[], hasforeign=True, wellformed=False, mono=False, flavour='foreign', strat='nil')
    if kind == 'bai':
        data = spec_bai(refs, trailer)
    elif kind == 'tabix':
        names = ['ctg%d' % i for i in range(nref)]
        hdr = [rng.choice([0, 1, 2]), rng.randrange(2), rng.randrange(1, 9), rng.randrange(1, 9), rng.randrange(0, 9), 35, rng.randrange(0, 5)]
        c['names'], c['tbx'] = names, hdr
        data = spec_tbi(refs, trailer, names, hdr)
    else:
        ver = rng.choice([1, 2])
        aux = [rng.randrange(256) for _ in range(rng.choice([0, 3, 30]))]
        c.update(ms=ms, dp=dp, ver=ver, aux=aux)
        data = spec_csi(refs, trailer, ms, dp, ver, aux)
    c['foreign'] = list(data)
    hi = (1 << (ms + 3 * dp)) - 1
    qs = []
    for _ in range(6):
        rid = rng.randrange(0, nref)
        b = c04gen.edge_pos(rng, ms, dp, 1 << (ms + 6), hi - 1)
        e = min(hi, b + rng.choice([1, 2, 1 << ms, 5 << ms]))
        qs.append([rid, b, max(e, b + 1)])
    c['queries'] = qs
    c['spec'] = dict(refs=refs, trailer=trailer)
    return c


# --------------------------------------------------------------------- oracle

def oracle(c, o):
    """Judge one observation against the statement of C15."""
    kind = c['kind']
    out = []
    if 'hang' in o:
        return [(kind + ':hang', 'call did not return')]
    if 'panic' in o:
        return [(kind + ':panic', 'harness call panicked: ' + str(o['panic'])[:200])]
    foreign = c.get('hasforeign')
    if foreign:
        if 'rdpanic' in o and 'stats' not in o:
            return [(kind + ':foreign:read-panic', 'reading a well-formed index file panicked: ' + o['rdpanic'])]
        if o.get('frderr'):
            return [(kind + ':foreign:read-error', 'a well-formed index file was rejected: ' + str(o.get('frdmsg')))]
        if o.get('frdnil'):
            return [(kind + ':foreign:nil-index', 'reading a well-formed index file returned neither an index nor an error')]
    elif c.get('refusal_stats') and 'addpanic' not in o and 'stats' in o:
        # a record refused for position order is not a record added: the statistics are those of the accepted ones
        if not any(e != 0 for e in o.get('adderr', [])):
            return out
        ts = c04gen.true_stats(c, o)
        if o.get('stats') != ts['stats']:
            out.append(('%s:stats:after-refused-add' % kind, 'after an Add that was refused, ReferenceStats = %s, the accepted records give %s' % (o.get('stats'), ts['stats'])))
        return out
    elif not c.get('wellformed'):
        return out
    if 'addpanic' in o or any(e != 0 for e in o.get('adderr', [])):
        return out                                                  # C04's business
    zero = 'zero-refs' if o.get('nrefs') == 0 else 'refs'
    if 'w1panic' in o:
        return [('%s:write:panic' % kind, 'writing the index panicked: ' + o['w1panic'])]
    if o.get('w1err'):
        out.append(('%s:write:error' % kind, 'writing the index failed'))
    if 'rdpanic' in o:
        return out + [('%s:reread:panic:%s' % (kind, zero), 'reading back the written index panicked: ' + o['rdpanic'])]
    if o.get('rderr'):
        return out + [('%s:reread:error:%s' % (kind, zero), 'the written index is rejected by the reader: ' + str(o.get('rdmsg')))]
    if o.get('rdnil'):
        w = ' and writing that result panics: ' + o['w2panic'] if 'w2panic' in o else ''
        return out + [('%s:reread:nil-index:%s' % (kind, zero), 'reading back the written index (%d references) returns neither an index nor an error%s' % (o.get('nrefs', -1), w))]
    if 'w2panic' in o:
        out.append(('%s:rewrite:panic' % kind, 'writing the re-read index panicked: ' + o['w2panic']))
    elif not o.get('w2eq'):
        out.append(('%s:rewrite:bytes-differ' % kind, 'write(read(write idx)) differs from write idx (%s vs %s bytes)' % (o.get('w2len'), o.get('w1len'))))
    st2 = o.get('st2', {})
    for k in ('nrefs', 'stats', 'unm'):
        if st2.get(k) != o.get(k):
            out.append(('%s:reread:%s' % (kind, k), '%s changed by write/read: %s -> %s' % (k, o.get(k), st2.get(k))))
    if kind == 'tabix':
        for k in ('names', 'hdr'):
            if (st2.get(k) or []) != (o.get(k) or []):
                out.append(('tabix:reread:%s' % k, '%s changed by write/read: %s -> %s' % (k, o.get(k), st2.get(k))))
        if (st2.get('ids') or []) != list(range(len(st2.get('names') or []))) and len(set(st2.get('names') or [])) == len(st2.get('names') or []):
            out.append(('tabix:reread:ids', 'name map of the re-read index is %s for names %s' % (st2.get('ids'), st2.get('names'))))
    if kind == 'csi':
        for k in ('ver', 'aux'):
            if st2.get(k) != o.get(k):
                out.append(('csi:reread:%s' % k, '%s changed by write/read: %s -> %s' % (k, o.get(k), st2.get(k))))
    q1, q2 = o.get('q1'), o.get('q2')
    if q1 is not None and q2 is not None:
        for q, a, b in zip(c['queries'], q1, q2):
            if (a['e'], a['raw'], a['pe'], a['pub']) != (b['e'], b['raw'], b['pe'], b['pub']):
                out.append(('%s:reread:answers' % kind, 'query %s answers differently after write/read: %s -> %s' % (q, json.dumps(a)[:300], json.dumps(b)[:300])))
                break
    if not foreign:
        ts = c04gen.true_stats(c, o)
        if o.get('nrefs') != ts['nrefs']:
            out.append(('%s:stats:numrefs' % kind, 'NumRefs = %s, the records added use %d references' % (o.get('nrefs'), ts['nrefs'])))
        elif o.get('stats') != ts['stats']:
            out.append(('%s:stats:reference' % kind, 'ReferenceStats = %s, true counts/spans are %s' % (o.get('stats'), ts['stats'])))
        if o.get('unm') != ts['unm'] and c['recs']:
            out.append(('%s:stats:unplaced' % kind, 'Unmapped() = %s, true count %s' % (o.get('unm'), ts['unm'])))
    else:
        # statistics of a foreign file are what the file says
        sp = c['spec']
        want = [[True] + r['stats'] if r['stats'] is not None else [False, 0, 0, 0, 0] for r in sp['refs']]
        if o.get('stats') != want:
            out.append(('%s:foreign:stats' % kind, 'ReferenceStats = %s, the file says %s' % (o.get('stats'), want)))
        wu = [True, sp['trailer']] if sp['trailer'] is not None else [False, 0]
        if o.get('unm') != wu:
            out.append(('%s:foreign:unplaced' % kind, 'Unmapped() = %s, the file says %s' % (o.get('unm'), wu)))
    seen, res = set(), []
    for s, w in out:
        if s not in seen:
            seen.add(s)
            res.append((s, w))
    return res


def gen_longref(rng, kind, tier):
    """Records spread over 520..3000 tiles of one reference, early tiles populated."""
    c = c04gen.gen_case(rng, kind, tier, None, small=True)
    t = 1 << 14
    ntiles = rng.choice([513, 520, 600, 1025, 1500, 3000])
    n = rng.randrange(4, 12)
    starts = sorted(rng.randrange(0, ntiles) * t + rng.randrange(0, t) for _ in range(n))
    starts[0] = rng.randrange(0, 3 * t)
    starts[-1] = (ntiles - 1) * t + rng.randrange(0, t - 10)
    starts.sort()
    recs = []
    for p in starts:
        ln = rng.choice([1, 50, t, 5 * t]) if p < (ntiles - 1) * t else 5
        recs.append(dict(rid=0, pos=p, end=p + ln))
    if kind == 'bai':
        for r in recs:
            r['flags'] = 0
            r['cig'] = c04gen.cigar_for(rng, r['end'] - r['pos'])
        c['real'] = False
    else:
        for r in recs:
            r['placed'], r['mapped'] = True, True
        c['names'] = (c.get('names') or ['chrL'])[:1]
    c['nref'] = 1
    for r, (b, e) in zip(recs, c04gen.layout(rng, len(recs))):
        r['cb'], r['ce'] = b, e
    c['recs'] = recs
    c['queries'] = [[0, max(0, r['pos'] - rng.randrange(0, 2 * t)), r['pos'] + rng.randrange(1, t)] for r in recs[:8]]
    c['strat'] = 'adjacent'
    c['wellformed'], c['mono'], c['flavour'] = True, True, 'longref'
    return c


def gen_csi_full(rng, tier):
    """A small CSI geometry in which EVERY bin of a reference holds a record (so the
    reference has binLimit bins plus the statistics pseudo-bin)."""
    c = c04gen.gen_case(rng, 'csi', tier, None, small=True)
    ms, dp = rng.randrange(4, 12), rng.choice([1, 1, 2])
    c['ms'], c['dp'] = ms, dp
    recs = []
    for lvl in range(dp + 1):                       # level 0 = the whole range
        w = 1 << (ms + 3 * (dp - lvl))              # width of a bin at this level
        for k in range(8 ** lvl):
            lo = k * w
            if lvl == dp:                           # leaf: anywhere inside
                p = lo + rng.randrange(0, w - 2)
                recs.append(dict(rid=0, pos=p, end=p + 1))
            else:                                   # across a child boundary, inside the bin
                m = lo + (w >> 3) * rng.randrange(1, 8)
                recs.append(dict(rid=0, pos=m - 1, end=m + 1))
    recs.sort(key=lambda r: (r['pos'], r['end']))
    for r in recs:
        r['placed'], r['mapped'] = True, True
    for r, (b, e) in zip(recs, c04gen.layout(rng, len(recs))):
        r['cb'], r['ce'] = b, e
    c['recs'] = recs
    c['nref'] = 1
    c.pop('hist', None)
    hi = (1 << (ms + 3 * dp)) - 1
    c['queries'] = [[0, r['pos'], min(hi + 1, r['end'] + rng.randrange(0, 1 << ms))] for r in rng.sample(recs, min(6, len(recs)))]
    c['strat'] = 'adjacent'
    c['wellformed'], c['mono'], c['flavour'] = True, True, 'allbins'
    return c


def gen_cases(rng, tier):
    per = 20 if tier == 'quick' else 250
    cases = c04.corpus_cases() + corpus_cases()
    gen = c04gen.gen_cases(rng, tier, n=per, small=True)
    # serialisation is about structure, not coordinates: keep byte strings moderate
    cases += gen
    # references with more than 512 linear-index tiles (the reader works in batches of 512)
    for kind in ('bai', 'tabix'):
        for _ in range(3 if tier == 'quick' else 40):
            cases.append(gen_longref(rng, kind, tier))
    # tabix name lists with an empty name, in particular as the last one
    k = 0
    while k < (3 if tier == 'quick' else 40):
        c = c04gen.gen_case(rng, 'tabix', tier, None, small=True)
        if c['nref'] >= 2 and c.get('wellformed'):
            names = [n for n in c['names'] if n != '']
            while len(names) < c['nref']:
                names.append('ctg%d' % len(names))
            names[-1 if k != 1 else rng.randrange(0, len(names))] = ''
            c['names'] = names
            c['flavour'] = 'emptyname'
            cases.append(c)
            k += 1
    for _ in range(3 if tier == 'quick' else 30):
        cases.append(gen_csi_full(rng, tier))
    nf = 9 if tier == 'quick' else 120
    for kind in ('bai', 'csi', 'tabix'):
        for _ in range(nf):
            cases.append(gen_foreign(rng, kind))
    # an Add refused for position order in the middle of a build: the statistics must not count it
    for kind in ('csi', 'bai', 'tabix'):
        for _ in range(6 if tier == 'quick' else 60):
            c = c04gen.gen_case(rng, kind, tier, 'posorder', small=True)
            c['refusal_stats'] = True
            cases.append(c)
    return cases


def corpus_cases():
    import os
    d = os.path.join(core.ROOT, 'corpus', 'C15')
    cs = []
    if os.path.isdir(d):
        for n in sorted(os.listdir(d)):
            if n.endswith('.json'):
                cs.append(json.load(open(os.path.join(d, n))))
    return cs


def run(res, rng, tier):
    cases = gen_cases(rng, tier)
    obs = core.run_harness('c15', [{k: v for k, v in c.items() if k != 'spec'} for c in cases], jobs=8)
    terms = []
    for c, o in zip(cases, obs):
        res.evaluations += 1
        if 'bad_case' in o or 'crash' in o or 'garbled' in o:
            res.corr_bad.append(dict(case=c, obs=c04.strip(o), note='harness could not run the case'))
            continue
        k = c['kind']
        res.count('kind/' + k)
        res.count('%s/source/%s' % (k, 'foreign file' if c.get('hasforeign') else 'built by Add'))
        if 'w1len' in o:
            res.count('%s/bytes/%s' % (k, '<256' if o['w1len'] < 256 else '<4096' if o['w1len'] < 4096 else '>=4096'))
            res.count('%s/references/%s' % (k, '0' if o.get('nrefs') == 0 else '1' if o.get('nrefs') == 1 else '2+'))
            res.count('%s/trailer/%s' % (k, 'present' if o.get('unm', [False])[0] else 'absent'))
            if any(not r[0] for r in o.get('stats', [])):
                res.count('%s/has reference without statistics' % k)
            res.nontrivial.add(json.dumps([k, o.get('w1hash'), o.get('w1len'), c['queries']]))
        if k == 'csi':
            res.count('csi/version/%s' % c.get('ver'))
        for sig, what in oracle(c, o):
            res.failures.append(dict(sig=sig, what=what, case={k2: v for k2, v in c.items() if k2 != 'spec'}, observed=c04.strip(o)))
        if 'hang' in o or 'panic' in o:
            continue
        t = c04coq.io_term(c, o)
        if t is not None:
            terms.append((c, o, t))
    bad, err, why = c04coq.mismatches(c04coq.HEADER_IO, 'iocase', 'ixio_agree', [t[2] for t in terms], 'c15', explain='ixio_explain')
    if err:
        res.corr_bad.append(dict(error=err))
    for i in bad:
        c, o, t = terms[i]
        res.corr_bad.append(dict(case={k2: v for k2, v in c.items() if k2 != 'spec'}, obs=c04.strip(o),
                                 model_agrees_on='[first read; Add/Chunks part; header; bytes written; structure after write; read status; statistics; structure; answers; header; rewrite equal] = ' + why.get(i, '?'),
                                 note='Coq model of the index writers/readers disagrees with the implementation'))
    res.extra['traces_validated_against_impl'] = len(terms) - len(bad)
    res.rule = ('a case = one index (BAI / CSI v1,v2 with aux bytes and (minShift, depth) in 1..20 x 1..8 / tabix with header fields and names) either built by Add from the C04 generator '
                '(incl. no records, only unplaced records, references without records) or read from a well-formed foreign file written by an independent spec-level writer '
                '(statistics pseudo-bin missing / first / in the middle, unsorted bins and chunks, zero tiles, no trailing count); written, read back, written again, queried before and after. '
                'Non-trivial = the index was written (distinct by bytes and queries)')
    ex = [(c, o) for c, o in zip(cases, obs) if 'w1len' in o]
    res.samples = [dict(case=dict(kind=c['kind'], source='foreign' if c.get('hasforeign') else 'add', recs=c['recs'][:2]),
                        observed=dict(w1len=o.get('w1len'), nrefs=o.get('nrefs'), stats=o.get('stats', [])[:2], unm=o.get('unm'), w2eq=o.get('w2eq'))) for c, o in ex[:4]]
    res.trusted = TRUSTED
    res.assumptions = ASSUME


def replay(res, rp):
    c = rp.get('case')
    if not c:
        print(json.dumps(rp, indent=1)[:4000])
        return 0
    o = core.run_harness('c15', [c])[0]
    print('case     :', json.dumps(c)[:3000])
    print('observed :', json.dumps(c04.strip(o))[:3000])
    fs = oracle(dict(c, spec=dict(refs=[], trailer=None)) if c.get('hasforeign') else c, o)
    print('oracle   :', fs)
    return 1 if fs else 0


TRUSTED = [
    'Coq 8.16.1 kernel (coqc); vm_compute for case evaluation and examples',
    'hand-written byte-level model coq/Model/IndexIO.v of bam.WriteIndex/ReadIndex, internal/index_write.go, index_read.go, csi_write.go, csi_read.go, tabix.WriteTo/ReadFrom; validated on every run against the implementation (bytes written, structure, statistics, answers and header fields of the re-read index, read status of foreign files)',
    'long byte strings (> 3000 bytes) are compared by length and a 31-bit rolling checksum',
    'virtual offsets as integers File<<16|Block; counters as unbounded Z (ranges are hypotheses of the round-trip theorems)',
    'axioms: none',
]
ASSUME = [
    'offsets and counters fit their fields (0 <= v < 2^64, counts < 2^31), bin numbers < 2^32 and different from the statistics pseudo-bin',
    'io.Reader / io.Writer doubles behave as exact byte sources / sinks (bytes.Buffer, bytes.Reader)',
]

CLAIM = dict(
    text='Machine-checked proof (Coq 8.16.1) over the executable model of the index core and its byte-level writers/readers: statistics kept by Add equal the true counts and spans (stats_true); '
         'BAI: reading what WriteIndex wrote gives the sorted index, writing that gives identical bytes, and every query and statistic is unchanged (index_io_roundtrip, chunks_preserved); the same for tabix (tabix_io_roundtrip, tabix_zero_refs_roundtrip). '
         'the same for CSI v1/v2 with any aux bytes up to the record counts v1 drops (csi_io_roundtrip, csi_chunks_preserved); statistics also for CSI and tabix and through write/read (csi_stats_true, tabix_stats_true). The byte-level model is evaluated inside Coq against the implementation on every run, on built indexes and on independently written foreign files.',
    note='Trusted: Coq kernel, the hand-written byte-level model (validated each run), generators/oracle/spec-level writer. No axioms.',
    technique='Coq proof over hand-written executable model + vm_compute correspondence + independent counters / spec-level writer',
    design='6/C15')
