"""C16: coordinate arithmetic (End, Len, Bin, CIGAR lengths/validity, BAI and CSI bin lists)."""
import glob
import json
import os

import core
from core import cz, cb, clist

PROPS = 'Props/C16.v'
HEADER = ('From Hts Require Import Base.Prim Generated Model.SamSpecArith Model.Cigar Model.Bins.\n'
          'Open Scope Z_scope.')

M, I, D, N, S, H, P, EQ, X, B = range(10)
OPCH = 'MIDNSHP=XB??????'
QUERY = {M, I, S, EQ, X}      # SAMv1 1.4: operations that consume the query
REF = {M, D, N, EQ, X}        # ... that consume the reference
UNMAPPED, MATE_UNMAPPED = 0x4, 0x8
TOP29 = 1 << 29


# --- oracle: written from SAMv1 (1.4, 4.2.1, 5.3) and the CSI note -----------------------------

def level_offset(l):
    """First bin number of level l: 8^0 + ... + 8^(l-1)."""
    return sum(8 ** k for k in range(l))


def geo_bin(beg, end, ms, depth):
    """Smallest bin of the (ms, depth) scheme whose interval contains [beg, end)."""
    for l in range(depth, 0, -1):
        w = ms + 3 * (depth - l)
        if beg >> w == (end - 1) >> w:
            return level_offset(l) + (beg >> w)
    return 0


def geo_bins(beg, end, ms, depth):
    """All bins whose interval meets [beg, end), level by level."""
    out = []
    for l in range(depth + 1):
        w = ms + 3 * (depth - l)
        out.extend(range(level_offset(l) + (beg >> w), level_offset(l) + ((end - 1) >> w) + 1))
    return out


def cigar_str(cigar):
    return ''.join('%d%s' % (w >> 4, OPCH[w & 15]) for w in cigar) or '*'


def spec_rec(flags, pos, cigar, seqlen):
    """What SAMv1 defines for the record. Codes 10..15 are not operations of SAMv1: they describe
    nothing, so they consume neither query nor reference and are neither S nor H (they are in no set below)."""
    ops = [(w & 15, w >> 4) for w in cigar]
    reflen = sum(n for t, n in ops if t in REF)
    qlen = sum(n for t, n in ops if t in QUERY)
    if flags & UNMAPPED or not ops:
        end = pos + 1
    else:
        cur = end = pos
        for t, n in ops:
            cur += n if t in REF else (-n if t == B else 0)
            end = max(end, cur)
    n = len(ops)
    why = None
    for i, (t, _) in enumerate(ops):
        if t == H and not (i == 0 or i == n - 1):
            why = 'clip'
        if t == S and not (all(x == H for x, _ in ops[:i]) or all(x == H for x, _ in ops[i + 1:])):
            why = 'clip'
    off = 0
    for t, l in ops:
        if t in QUERY and off < 0 and why is None:
            why = 'back'
        off += l if t in REF else (-l if t == B else 0)
    if why is None and qlen != seqlen:
        why = 'sum'
    d = dict(end=end, len=end - pos, lengths=[reflen, qlen], isvalid=why is None, why=why, bin=None)
    if -1 <= pos <= TOP29 - 1 and 0 <= end <= TOP29:
        d['bin'] = geo_bin(pos, end, 14, 5)
    return d


def val(o, k):
    """(value, panic message) of one observed call."""
    x = o.get(k) or {}
    if 'panic' in x:
        return None, x['panic']
    return x.get('v'), None


def oracle(c, o):
    """List of (sig, what, expected) for every way the observation breaks the property."""
    op = c['op']
    if 'hang' in o:
        return [(op + ':hang', 'call did not return', None)]
    out = []
    if op == 'rec':
        sp = spec_rec(c['flags'], c['pos'], c['cigar'], c['seqlen'])
        desc = 'pos=%d flags=%#x cigar=%s seqlen=%d' % (c['pos'], c['flags'], cigar_str(c['cigar']), c['seqlen'])
        for k in ('end', 'len', 'lengths', 'isvalid', 'bin'):
            got, pan = val(o, k)
            if pan is not None:
                out.append(('rec:%s:panic' % k, '%s panicked on %s: %s' % (k, desc, pan), sp[k]))
                continue
            if sp[k] is None or got == sp[k]:
                continue
            sig = 'rec:' + k
            if k == 'isvalid':
                sig += ':' + (sp['why'] or 'accepts')
            if k == 'bin' and c['flags'] & 12 == 12 and got == 4680:
                sig = 'rec:bin:placed-both-unmapped-flags'
            out.append((sig, '%s of %s is %s, the SAM specification gives %s' % (k, desc, got, sp[k]), sp[k]))
        ty = [w & 15 for w in c['cigar']]
        ln = [w >> 4 for w in c['cigar']]
        if o.get('types') != ty or o.get('lens') != ln:
            out.append(('rec:optype-oplen', 'Type/Len of the operations of %s are %s / %s' % (desc, o.get('types'), o.get('lens')), [ty, ln]))
        return out
    if op == 'newop':
        got, pan = val(o, 'op')
        legal = 0 <= c['n'] <= (1 << 28) - 1
        if not legal:
            if pan is None:
                out.append(('newop:no-panic', 'NewCigarOp(%d, %d) returned %s for an illegal length' % (c['t'], c['n'], got), 'panic'))
            return out
        if c['t'] > 15:
            return out          # not an operation type
        exp = [c['n'] << 4 | c['t'], c['t'], c['n']]
        if pan is not None:
            out.append(('newop:panic', 'NewCigarOp(%d, %d) panicked: %s' % (c['t'], c['n'], pan), exp))
        elif got != exp:
            out.append(('newop:value', 'NewCigarOp(%d, %d) = (word, Type, Len) %s, BAM packing gives %s' % (c['t'], c['n'], got, exp), exp))
        return out
    if op in ('bai', 'csi'):
        ms, depth = (14, 5) if op == 'bai' else (c['minshift'], c['depth'])
        if op == 'csi' and not (0 <= depth <= 10 and ms + 3 * depth <= 62):
            return out          # geometry not representable in uint32 bins / int64 coordinates
        top = 1 << (ms + 3 * depth)
        geo = '' if op == 'bai' else ' (min_shift=%d depth=%d)' % (ms, depth)
        v1 = 0 <= c['b1'] < c['e1'] <= top
        v2 = 0 <= c['b2'] < c['e2'] <= top
        tag = op if op == 'bai' else 'csi'
        bin_, pan = val(o, 'bin')
        bins, pan2 = val(o, 'bins')
        if v1:
            exp = geo_bin(c['b1'], c['e1'], ms, depth)
            if pan is not None:
                out.append((tag + ':bin:panic', 'bin of [%d,%d)%s panicked: %s' % (c['b1'], c['e1'], geo, pan), exp))
            elif bin_ != exp:
                lvl = 'finest' if exp >= level_offset(depth) else 'upper'
                out.append(('%s:bin:%s' % (tag, lvl), 'bin of [%d,%d)%s is %s; the smallest bin containing the interval is %d' % (c['b1'], c['e1'], geo, bin_, exp), exp))
        if v2:
            exp = geo_bins(c['b2'], c['e2'], ms, depth)
            if pan2 is not None:
                out.append((tag + ':bins:panic', 'bin list of [%d,%d)%s panicked: %s' % (c['b2'], c['e2'], geo, pan2), None))
            else:
                gs, es = set(bins), set(exp)
                if len(gs) != len(bins):
                    out.append((tag + ':bins:duplicate', 'bin list of [%d,%d)%s repeats a bin' % (c['b2'], c['e2'], geo), None))
                if es - gs:
                    out.append((tag + ':bins:missing', 'bin list of [%d,%d)%s lacks overlapping bins %s' % (c['b2'], c['e2'], geo, sorted(es - gs)[:8]), sorted(es - gs)[:8]))
                if gs - es:
                    out.append((tag + ':bins:extra', 'bin list of [%d,%d)%s has bins %s that do not overlap it' % (c['b2'], c['e2'], geo, sorted(gs - es)[:8]), sorted(gs - es)[:8]))
        if v1 and v2 and pan is None and pan2 is None and c['b1'] < c['e2'] and c['b2'] < c['e1'] and bin_ not in set(bins):
            out.append((tag + ':bin-not-in-bins', 'intervals [%d,%d) and [%d,%d)%s overlap but bin %s of the first is not in the bin list of the second'
                        % (c['b1'], c['e1'], c['b2'], c['e2'], geo, bin_), None))
        return out
    return out


# --- generators ---------------------------------------------------------------------------------

def point(rng, ms, depth, lo=0):
    """Coordinate biased to the tile boundaries of every level."""
    top = 1 << (ms + 3 * depth)
    r = rng.random()
    if r < 0.08:
        return rng.choice([lo, 0, 1, top, top - 1, top - 2])
    if r < 0.2:
        return rng.randrange(0, top + 1)
    sh = ms + 3 * rng.randrange(0, depth + 1)
    k = rng.randrange(0, (top >> sh) + 1)
    d = rng.choice([-2, -1, -1, 0, 0, 0, 1, 1, 2, rng.randrange(-(1 << sh) // 2, (1 << sh) // 2 + 1)])
    return min(max((k << sh) + d, lo), top)


def interval(rng, ms, depth, maxtiles):
    top = 1 << (ms + 3 * depth)
    b = min(point(rng, ms, depth), top - 1)
    r = rng.random()
    if r < 0.25:
        e = b + 1
    elif r < 0.45:
        e = b + rng.randrange(1, 200)
    elif r < 0.75:
        sh = ms + 3 * rng.randrange(0, depth + 1)
        e = (((b >> sh) + rng.randrange(1, 3)) << sh) + rng.choice([-1, 0, 0, 1])
    else:
        e = b + rng.randrange(1, (maxtiles << ms) + 2)
    e = min(max(e, b + 1), b + (maxtiles << ms) + 1, top)
    return b, e


def related(rng, b1, e1, ms, depth, maxtiles):
    """Second interval placed against the first: touching, adjacent, nested, apart."""
    top = 1 << (ms + 3 * depth)
    k = rng.randrange(8)
    span = rng.choice([1, 2, rng.randrange(1, 1 << ms if ms > 0 else 2), rng.randrange(1, (maxtiles << ms) + 2)])
    if k == 0:
        b2, e2 = e1 - 1, e1 - 1 + span          # overlaps the last base
    elif k == 1:
        b2, e2 = b1 + 1 - span, b1 + 1          # overlaps the first base
    elif k == 2:
        b2, e2 = e1, e1 + span                  # adjacent right: no overlap
    elif k == 3:
        b2, e2 = b1 - span, b1                  # adjacent left: no overlap
    elif k == 4:
        b2, e2 = b1 - rng.randrange(0, span + 1), e1 + rng.randrange(0, span + 1)   # contains
    elif k == 5:
        b2 = rng.randrange(b1, e1)
        e2 = rng.randrange(b2 + 1, e1 + 1)      # contained
    elif k == 6:
        b2, e2 = b1, e1
    else:
        return interval(rng, ms, depth, maxtiles)
    b2 = min(max(b2, 0), top - 1)
    e2 = min(max(e2, b2 + 1), top, b2 + (maxtiles << ms) + 1)
    return b2, e2


GEOMETRIES = [(14, 5), (14, 5), (14, 6), (12, 5), (0, 1), (0, 2), (1, 3), (3, 2), (10, 7), (16, 4), (14, 10),
              (20, 10), (32, 10), (5, 0), (14, 0), (14, 8), (4, 4), (0, 10), (6, 9), (14, 1), (14, 2), (14, 3)]


def gen_bins(rng, tier):
    cases = []
    n_bai = 400 if tier == 'quick' else 6000
    n_csi = 700 if tier == 'quick' else 9000
    for _ in range(n_bai):
        b1, e1 = interval(rng, 14, 5, 40)
        b2, e2 = related(rng, b1, e1, 14, 5, 40)
        if rng.random() < 0.5:
            b1, e1, b2, e2 = b2, e2, b1, e1
        cases.append(dict(op='bai', b1=b1, e1=e1, b2=b2, e2=e2))
    # whole range and very wide queries, degenerate/inverted intervals (model only), unplaced
    cases.append(dict(op='bai', b1=0, e1=TOP29, b2=0, e2=TOP29))
    cases.append(dict(op='bai', b1=TOP29 - 1, e1=TOP29, b2=1 << 28, e2=TOP29))
    for b, e in ((-1, 0), (0, 0), (5, 5), (16384, 16384), (10, 3), (-1, 1), (TOP29, TOP29 + 1), (TOP29 - 1, TOP29 + 5)):
        cases.append(dict(op='bai', b1=b, e1=e, b2=b, e2=e))
    for _ in range(n_csi):
        ms, depth = rng.choice(GEOMETRIES) if rng.random() < 0.85 else (rng.randrange(0, 33), rng.randrange(0, 11))
        b1, e1 = interval(rng, ms, depth, 20)
        b2, e2 = related(rng, b1, e1, ms, depth, 20)
        if rng.random() < 0.5:
            b1, e1, b2, e2 = b2, e2, b1, e1
        cases.append(dict(op='csi', minshift=ms, depth=depth, b1=b1, e1=e1, b2=b2, e2=e2))
    # every level of the default and of a deep geometry is the answer at least once
    for ms, depth in ((14, 5), (14, 6), (3, 10), (0, 3)):
        for l in range(depth + 1):
            w = ms + 3 * (depth - l)
            k = rng.randrange(0, 8 ** l)
            b, e = k << w, (k + 1) << w
            cases.append(dict(op='csi', minshift=ms, depth=depth, b1=b, e1=e, b2=max(b - 1, 0), e2=b + 1))
            if w > 0:
                cases.append(dict(op='csi', minshift=ms, depth=depth, b1=b + (1 << w) // 2 - (1 if w > 1 else 0), e1=b + (1 << w) // 2 + 1, b2=e - 1, e2=min(e + 1, 1 << (ms + 3 * depth))))
    # geometries outside the theorem's range (uint32 wrap in the level offsets): model only
    for ms, depth in ((14, 11), (0, 11), (2, 12), (0, 21), (14, 22)):
        for _ in range(6):
            b1 = rng.randrange(0, 1 << 40)
            e1 = b1 + rng.randrange(1, 1 << rng.randrange(1, 40))
            cases.append(dict(op='csi', minshift=ms, depth=depth, b1=b1, e1=e1, b2=b1, e2=b1 + 1))
    return cases


def gen_len(rng):
    r = rng.random()
    if r < 0.08:
        return 0
    if r < 0.3:
        return rng.randrange(1, 4)
    if r < 0.7:
        return rng.randrange(1, 300)
    if r < 0.8:
        return rng.choice([(1 << 28) - 1, (1 << 28) - 2, 1 << 27, 16384, 16383, 16385, 1 << 17, 1 << 20])
    return rng.randrange(1, 1 << rng.randrange(1, 29))


def mk(t, n):
    return (n << 4) | t


def gen_cigar(rng):
    r = rng.random()
    if r < 0.05:
        return []
    core_ops = [M, M, M, I, D, N, P, EQ, X]
    ops = [mk(rng.choice(core_ops), gen_len(rng)) for _ in range(rng.randrange(1, 7))]
    if r < 0.35:
        return ops
    if r < 0.75:
        # clipping structure, sometimes broken
        left = rng.choice([[], [S], [H], [H, S], [H, S], [S, H], [S, S], [H, H]])
        right = rng.choice([[], [S], [H], [S, H], [S, H], [H, S], [S, S], [H, H]])
        c = [mk(t, gen_len(rng)) for t in left] + ops + [mk(t, gen_len(rng)) for t in right]
        if rng.random() < 0.25:
            c.insert(rng.randrange(0, len(c) + 1), mk(rng.choice([S, H]), gen_len(rng)))
        if rng.random() < 0.1:
            c = [mk(t, gen_len(rng)) for t in rng.choice([[S], [H], [S, S], [H, H], [S, H], [H, S], [H, S, H], [S, H, S], [S, S, S], [H, S, S], [S, S, H], [H, S, S, H]])]
        return c
    if r < 0.93:
        # 'B' extension: backwards moves, sometimes past the start of the alignment
        c = []
        for _ in range(rng.randrange(2, 7)):
            t = rng.choice([M, M, B, B, I, D, S, EQ])
            n = rng.randrange(0, 40) if rng.random() < 0.8 else gen_len(rng)
            c.append(mk(t, n))
        return c
    # operation codes outside M..B (10 = '?', 11..15 undefined): they consume nothing (Consumes clamps them to lastCigar)
    ops.insert(rng.randrange(0, len(ops) + 1), mk(rng.randrange(10, 16), gen_len(rng)))
    return ops


def gen_recs(rng, tier):
    cases = []
    n = 800 if tier == 'quick' else 12000
    for _ in range(n):
        cg = gen_cigar(rng)
        r = rng.random()
        if r < 0.8:
            pos = point(rng, 14, 5, lo=-1)
            pos = min(pos, TOP29 - 1)
        elif r < 0.9:
            pos = rng.choice([-1, -1, 0, 1, TOP29 - 1, TOP29 - 2])
        else:
            pos = rng.randrange(0, 1 << rng.randrange(1, 33))
        flags = rng.choice([0, 0, 0, 0, 0, 0, 16, 1, 3, 99, 147, 4, 8, 8, 12, 12, 5, 9, 13, 77, 141, rng.randrange(0, 4096) & ~4, rng.randrange(0, 4096)])
        # aim the end of the alignment at a tile boundary of some level
        if cg and rng.random() < 0.45:
            sh = rng.choice([14, 14, 17, 20, 23, 26])
            tgt = (((max(pos, 0) >> sh) + 1) << sh) + rng.choice([-1, 0, 0, 1])
            need = tgt - spec_rec(0, pos, cg, 0)['end']
            if 0 < need < (1 << 28) and tgt <= TOP29:
                cg = cg + [mk(rng.choice([M, D, N, EQ, X]), need)]
                if rng.random() < 0.3:
                    cg.append(mk(rng.choice([S, H, I, P]), gen_len(rng)))
        ops = [(w & 15, w >> 4) for w in cg]
        q = sum(l for t, l in ops if t in QUERY)
        seqlen = q if rng.random() < 0.65 else rng.choice([q + 1, max(q - 1, 0), 0, rng.randrange(0, 500)])
        cases.append(dict(op='rec', flags=flags, pos=pos, cigar=cg, seqlen=seqlen))
    return cases


def gen_newops(rng, tier):
    cases = []
    for t in list(range(16)) + [16, 17, 255]:
        for n in (0, 1, (1 << 28) - 1, 1 << 28, -1, rng.randrange(0, 1 << 28), rng.randrange(0, 1 << 28),
                  rng.randrange(1 << 28, 1 << 40), -rng.randrange(1, 1 << 40), 1 << 32, (1 << 63) - 1, -(1 << 63)):
            cases.append(dict(op='newop', t=t, n=n))
    return cases


def gen_sweeps(rng, tier):
    """Exhaustive sweeps run inside the harness (implementation against the geometry of the scheme):
    all interval pairs of small CSI geometries; for BAI all intervals/pairs whose end points are tile
    boundaries -1/0/+1 in windows of consecutive 16 KiB tiles placed across boundaries of every level."""
    cases = [dict(op='sweep_csi', minshift=ms, depth=d) for ms, d in ((0, 2), (1, 1), (0, 1), (4, 1), (3, 0))]
    if tier != 'quick':
        cases += [dict(op='sweep_csi', minshift=ms, depth=d) for ms, d in ((1, 2), (2, 1), (3, 1), (7, 0), (0, 0))]
    nt = 16 if tier == 'quick' else 24
    wins = [0, 32768 - nt]
    for k in range(1, 5):
        for _ in range(1 if tier == 'quick' else 40):
            wins.append(max(0, min(32768 - nt, rng.randrange(1, 32768 // 8 ** k) * 8 ** k - rng.randrange(1, nt))))
    cases += [dict(op='sweep_bai', win=w, ntiles=nt) for w in wins]
    if tier != 'quick':
        cases.append(dict(op='sweep_bai_full'))
    return cases


def load_corpus():
    cases = []
    d = os.path.join(core.ROOT, 'corpus', 'C16')
    for p in sorted(glob.glob(os.path.join(d, '*.json'))):
        x = json.load(open(p))
        cases.extend(x if isinstance(x, list) else [x])
    return cases


# --- Coq terms ----------------------------------------------------------------------------------

def copt(o, k, f=cz):
    v, pan = val(o, k)
    if pan is not None or v is None:
        return 'None'
    return '(Some %s)' % f(v)


def runs(l):
    """Maximal runs (first, count) of consecutive numbers; lossless."""
    out = []
    for x in l:
        if out and out[-1][0] + out[-1][1] == x:
            out[-1][1] += 1
        else:
            out.append([x, 1])
    return '[' + '; '.join('(%s, %d)' % (cz(a), n) for a, n in out) + ']'


def coq_term(c, o):
    if c['op'] == 'rec':
        return 'CRec %s %s %s %s %s %s %s %s %s %s %s' % (
            cz(c['flags']), cz(c['pos']), clist(c['cigar']), cz(c['seqlen']),
            cz(sum((i + 1) * x for i, x in enumerate(o['types']))), cz(sum((i + 1) * x for i, x in enumerate(o['lens']))),
            copt(o, 'end'), copt(o, 'len'), copt(o, 'bin'),
            copt(o, 'lengths', lambda p: '(%s, %s)' % (cz(p[0]), cz(p[1]))),
            copt(o, 'isvalid', cb))
    if c['op'] == 'newop':
        return 'CNewOp %s %s %s' % (cz(c['t']), cz(c['n']),
                                    copt(o, 'op', lambda p: '(%s, (%s, %s))' % (cz(p[0]), cz(p[1]), cz(p[2]))))
    if c['op'] == 'bai':
        return 'CBai %s %s %s %s %s %s' % (cz(c['b1']), cz(c['e1']), cz(c['b2']), cz(c['e2']), copt(o, 'bin'), copt(o, 'bins', runs))
    return 'CCsi %s %s %s %s %s %s %s %s' % (cz(c['minshift']), cz(c['depth']), cz(c['b1']), cz(c['e1']), cz(c['b2']), cz(c['e2']),
                                             copt(o, 'bin'), copt(o, 'bins', runs))


def strip(o):
    """Observation without stacks and with long lists cut, for replay/evidence files."""
    def cut(x):
        if isinstance(x, dict):
            return {k: cut(v) for k, v in x.items() if k != 'stack'}
        if isinstance(x, list) and len(x) > 64:
            return x[:32] + ['... %d more ...' % (len(x) - 64)] + x[-32:]
        return x
    return cut(o)


def bucket(c, o):
    if c['op'] == 'rec':
        ts = [w & 15 for w in c['cigar']]
        kind = 'empty' if not ts else 'undefined-op' if max(ts) > B else 'back' if B in ts else 'clipped' if (S in ts or H in ts) else 'plain'
        pan = any('panic' in (o.get(k) or {}) for k in ('end', 'len', 'bin', 'lengths', 'isvalid'))
        return 'rec/%s/%s%s' % (kind, 'unmapped' if c['flags'] & 4 else 'mapped', '/panic' if pan else '')
    if c['op'] == 'newop':
        return 'newop/%s' % ('panic' if 'panic' in (o.get('op') or {}) else 'ok')
    ov = c['b1'] < c['e2'] and c['b2'] < c['e1'] and c['b1'] < c['e1'] and c['b2'] < c['e2']
    g = '' if c['op'] == 'bai' else '/ms%d-d%d' % (c['minshift'], c['depth'])
    return '%s%s/%s' % (c['op'], g if c['op'] == 'bai' or (c['minshift'], c['depth']) in GEOMETRIES[:6] else '/other-geometry', 'overlap' if ov else 'disjoint-or-degenerate')


def nontrivial(c):
    if c['op'] == 'rec':
        ts = [w & 15 for w in c['cigar']]
        return bool(ts) and not c['flags'] & 4
    if c['op'] == 'newop':
        return 0 <= c['n'] < (1 << 28) and c['t'] < 16
    return c['b1'] < c['e2'] and c['b2'] < c['e1'] and c['b1'] < c['e1'] and c['b2'] < c['e2']


def key(c):
    return json.dumps(c, sort_keys=True)


def run(res, rng, tier):
    cases = load_corpus() + gen_recs(rng, tier) + gen_newops(rng, tier) + gen_bins(rng, tier)
    obs = core.run_harness('c16', cases, jobs=4)
    # exhaustive sweeps inside the harness; every failure is turned into an ordinary case and judged again here
    sweeps = gen_sweeps(rng, tier)
    sobs = core.run_harness('c16', sweeps, jobs=4, case_timeout='300s')
    swept = 0
    for c, o in zip(sweeps, sobs):
        res.count('%s/%s' % (c['op'], 'ms%d-d%d' % (c['minshift'], c['depth']) if c['op'] == 'sweep_csi' else 'window'))
        if 'intervals' not in o:
            res.corr_bad.append(dict(case=c, obs=strip(o)))
            continue
        swept += o['intervals'] + o['pairs']
        for f in o.get('fails') or []:
            cc = dict(op='csi', minshift=c['minshift'], depth=c['depth']) if c['op'] == 'sweep_csi' else dict(op='bai')
            cc.update(b1=f['b1'], e1=f['e1'], b2=f['b2'], e2=f['e2'])
            cases.append(cc)
            obs.append(core.run_harness('c16', [cc])[0])
            if not oracle(cc, obs[-1]):
                res.failures.append(dict(sig='sweep:%s:%s' % (cc['op'], f['kind']), what='exhaustive sweep %s: %s' % (c, f), case=cc, observed=strip(obs[-1]), expected=f.get('want')))
    res.evaluations += swept
    res.extra['sweep_intervals_and_pairs'] = swept
    terms = []
    undefined_ops = 0
    for c, o in zip(cases, obs):
        res.evaluations += 1
        res.count(bucket(c, o))
        if nontrivial(c):
            res.nontrivial.add(key(c))
        for sig, what, exp in oracle(c, o):
            res.failures.append(dict(sig=sig, what=what, case=c, observed=strip(o), expected=exp))
        if 'hang' in o or 'crash' in o or 'bad_case' in o or 'garbled' in o:
            res.corr_bad.append(dict(case=c, obs=strip(o)))
            continue
        if c['op'] == 'rec' and any((w & 15) > B for w in c['cigar']):
            undefined_ops += 1
        terms.append((c, o, coq_term(c, o)))
    bad, err = core.coq_mismatches(HEADER, 'c16case', 'c16_agree', [t[2] for t in terms], 'c16', shard=400)
    if err:
        res.corr_bad.append(dict(error=err))
    for i in bad:
        c, o, t = terms[i]
        res.corr_bad.append(dict(case=c, obs=strip(o), coq_case=t if len(t) < 4000 else t[:4000] + '...',
                                 note='the Coq model (Model/Cigar.v, Model/Bins.v, Generated.v) or the Coq specification (Model/SamSpecArith.v) disagrees with the implementation on this case'))
    if undefined_ops:
        res.notes.append('%d generated CIGARs contain an operation code 10..15 (not an operation of SAMv1); since the library fix '
                         '"CigarOpType.Consumes of an undefined operation type (11..255) uses the lastCigar entry" they consume nothing; they are judged by the oracle '
                         'and covered by the theorems like every other CIGAR (theorems undefined_op_consumes_nothing, record_arith_total).' % undefined_ops)
    res.rule = ('records: positions biased to the tile boundaries of all six BAI levels (and -1, 2^29-1, beyond), CIGARs over all nine operations plus B and the undefined codes 10..15 '
                '(plain, clipped incl. broken clipping, backwards moves, lengths 0..2^28-1, ends aimed at tile boundaries +-1), all flag combinations of 0x4/0x8; '
                'NewCigarOp over all 16 type codes x legal/illegal lengths; BAI and CSI interval pairs (22 fixed geometries + random ones, depth 0..10, min_shift 0..32) '
                'placed touching / adjacent / nested / equal / apart around tile boundaries of every level; plus exhaustive sweeps inside the harness '
                '(all interval pairs of small CSI geometries, all tile-boundary+-1 intervals and pairs in windows of consecutive 16 KiB tiles) counted in evaluations. '
                'A case is distinct by its full input; non-trivial = mapped record with a non-empty CIGAR, legal NewCigarOp, or an overlapping interval pair')
    pick = [i for i, c in enumerate(cases) if c['op'] == 'rec'][:2] + [i for i, c in enumerate(cases) if c['op'] == 'bai'][:1] + [i for i, c in enumerate(cases) if c['op'] == 'csi'][:2]
    res.samples = [dict(case=cases[i], observed=strip(obs[i])) for i in pick]
    res.extra['traces_validated_against_impl'] = len(terms)
    res.trusted = TRUSTED
    res.assumptions = ASSUME


def replay(res, rp):
    c = rp.get('case')
    if not c:
        print(json.dumps(rp, indent=1))
        return 0
    o = core.run_harness('c16', [c])[0]
    v = oracle(c, o)
    print('case     :', c)
    print('observed :', strip(o))
    print('oracle   :', v)
    return 1 if v else 0


TRUSTED = [
    'Coq 8.16.1 kernel (coqc); vm_compute used for case evaluation and for the closed numeric facts about the generated tables',
    'translator /verif/gen (gen/main.go, gen/emit_c16.go): BinFor, CigarOp.Type/Len, NewCigarOp, CigarOpType.Consumes and the consume table, the guard and constant of Record.Bin and all level constants '
    'are regenerated from the Go source on every run; the loops (Record.End, Cigar.Lengths, Cigar.IsValid, OverlappingBinsFor, reg2bin, reg2bins) are hand-written in '
    'coq/Model/Cigar.v and coq/Model/Bins.v and validated on every run by evaluating them inside Coq on the cases the implementation ran',
    'Go int (64 bit) is modelled as unbounded Z; uint32/uint8/int64 conversions wrap explicitly',
    'the specification side (coq/Model/SamSpecArith.v) is a transcription of SAMv1 1.4/4.2.1/5.3 and of the CSI note; the Python oracle in lib/c16.py is a second, independent reading '
    '(bins by geometry: smallest containing bin / all bins meeting the interval)',
    'axioms: none (Print Assumptions: Closed under the global context)',
]
ASSUME = [
    'a read without CIGAR has alignment length one, like an unmapped read (SAMv1 4.2.1 states this for unmapped reads only)',
    'the B operation moves backwards on the reference; the end of an alignment with B is the rightmost position reached (library documentation; SAMv1 has no B)',
    'a mapped read whose CIGAR consumes no reference has end = pos, so its bin is reg2bin(pos, pos) by the letter of 4.2.1 (htslib uses length one instead)',
    'CSI geometries with depth <= 10 and min_shift + 3*depth <= 62 (bins fit uint32, coordinates fit int64); the model also follows the code outside this range but no theorem is claimed there',
    'operation codes 10..15 are not operations of SAMv1; the specification side treats them as consuming nothing (the library clamps them to its empty lastCigar row)',
]

CLAIM = dict(
    text='Machine-checked proof (Coq 8.16.1): for every position and every CIGAR (every list of uint32 words: the nine standard operations, B, and the undefined codes 10..15 which consume nothing), the models of Record.End/Len/Bin and Cigar.Lengths/IsValid '
         '(loops hand-modelled statement by statement; Type/Len/NewCigarOp, Consumes and the consume table, BinFor, Record.Bin and the loop of csi.reg2bin regenerated from the Go source on every run, the latter proved equal to its hand model for every input) equal the values the SAM '
         'specification defines; BinFor/OverlappingBinsFor equal the C functions of SAMv1 5.3 and reg2bin/reg2bins equal the CSI functions for every (min_shift, depth<=10); '
         'for every overlapping pair of intervals the bin of one is in the bin list of the other (BAI and every CSI geometry, by monotonicity of x/2^s and induction on the level), '
         'bin lists are exactly the bins meeting the query; CSI(14,5) = BAI. Models are run against the implementation inside coqc on generated cases on every run.',
    note='Trusted: Coq kernel; translator gen/ for the generated definitions; hand models of the loops tied by correspondence only; Go int as unbounded Z. '
         'Consumes never panics (proved over the regenerated function). No axioms.',
    technique='Coq proof over source-regenerated Gallina and hand models + vm_compute correspondence + spec oracle',
    design='6/C16')
