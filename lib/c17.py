"""C17: chunk merge strategies never lose coverage (bgzf/index/strategy.go)."""
import itertools
import json
import os

import core
from core import cz

PROPS = 'Props/C17.v'
HEADER = ('From Hts Require Import Base.Prim Base.Chunks Generated Model.Strategy Model.StrategyRun.\n'
          'Open Scope Z_scope.')

MAXI = (1 << 63) - 1
MINI = -(1 << 63)


# --- oracle: written from the property statement (positions, not library code) --

def P(f, b):
    """Virtual offset of (File, Block)."""
    return f * 65536 + b


def ivs(chunks):
    return [(P(c[0], c[1]), P(c[2], c[3])) for c in chunks]


def atoms_covered(chunks, cuts):
    """Set of elementary intervals [cuts[i], cuts[i+1]) covered by some chunk."""
    got = set()
    for b, e in ivs(chunks):
        if b >= e:
            continue
        for i in range(len(cuts) - 1):
            if b <= cuts[i] and cuts[i + 1] <= e:
                got.add(i)
    return got


def is_sorted(chunks):
    iv = ivs(chunks)
    return all(iv[i][0] <= iv[i + 1][0] for i in range(len(iv) - 1))


def judge(strategy, near, inp, run):
    """Returns list of (sig, what) for one strategy run on a list sorted by begin."""
    if 'panic' in run:
        return [('%s:panic' % strategy, 'strategy panicked: %s' % run['panic'])]
    out = [tuple(c) for c in run['out']]
    twice = [tuple(c) for c in run['twice']]
    bad = []
    if not is_sorted(out):
        bad.append(('%s:unsorted' % strategy, 'result is not sorted by begin offset: %s' % (out,)))
    cuts = sorted(set(x for iv in ivs(inp) + ivs(out) for x in iv))
    ci, co = atoms_covered(inp, cuts), atoms_covered(out, cuts)
    if not ci <= co:
        i = min(ci - co)
        bad.append(('%s:lost-coverage' % strategy,
                    'virtual offsets [%d,%d) are covered by the input but not by the result %s' % (cuts[i], cuts[i + 1], out)))
    if twice != out:
        bad.append(('%s:not-idempotent' % strategy, 'applying the strategy to its result %s gives %s' % (out, twice)))
    if strategy == 'identity':
        if out != list(inp):
            bad.append(('identity:altered', 'Identity returned %s' % (out,)))
    elif strategy == 'adjacent':
        if co - ci:
            i = min(co - ci)
            bad.append(('adjacent:extra-coverage',
                        'virtual offsets [%d,%d) are covered by the result %s but not by the input' % (cuts[i], cuts[i + 1], out)))
        iv = ivs(out)
        for i in range(len(iv)):
            for j in range(i + 1, len(iv)):
                if not iv[i][1] < iv[j][0]:
                    bad.append(('adjacent:not-separated', 'result chunks %s and %s touch or overlap' % (out[i], out[j])))
                    break
            else:
                continue
            break
    elif strategy == 'squash':
        if not inp:
            if out:
                bad.append(('squash:empty', 'Squash of no chunks returned %s' % (out,)))
        else:
            iv = ivs(inp)
            lo, hi = min(x[0] for x in iv), max(x[1] for x in iv)
            if len(out) != 1 or ivs(out)[0] != (lo, hi):
                bad.append(('squash:not-enclosing', 'Squash returned %s, the enclosing chunk is [%d,%d)' % (out, lo, hi)))
    elif strategy == 'compressor':
        for i in range(len(out) - 1):
            if not out[i][2] + near < out[i + 1][0]:
                ovf = ':sum-overflows' if out[i][2] + near > MAXI else ''
                bad.append(('compressor:neighbours-within-near' + ovf,
                            'CompressorStrategy(%d) left neighbours %s and %s (End.File + near >= Begin.File)' % (near, out[i], out[i + 1])))
                break
    return bad


# --- generators ---------------------------------------------------------------

def alphabet(rng, k, kind):
    """k offsets (File, Block), ascending by virtual offset."""
    offs = set()
    if kind == 'twofiles':
        # two compressed blocks, offsets inside each: same-file and cross-file pairs
        f0 = rng.choice([0, 0, 1, 7, 65536])
        f1 = f0 + rng.choice([1, 2, 3, 100, 65536, 1 << 32])
        while len(offs) < k or len(set(o[0] for o in offs)) < 2:
            if len(offs) >= k:
                offs = set()
            offs.add((rng.choice([f0, f1]), rng.choice([0, 1, 2, 0xffff, rng.randrange(65536)])))
    else:
        # distinct files with different distances
        f = rng.choice([0, 0, 5])
        while len(offs) < k:
            offs.add((f, rng.choice([0, 0, 1, 0xffff])))
            f += rng.choice([0, 1, 1, 2, 3, 10])
    return sorted(offs, key=lambda o: P(*o))


def exhaustive(alpha, maxlen):
    """Every list (length 0..maxlen) of well-formed chunks over the alphabet
    that is sorted by begin: nested, touching, duplicate, zero-length included."""
    k = len(alpha)
    by_begin = [[alpha[i] + alpha[j] for j in range(i, k)] for i in range(k)]
    for n in range(maxlen + 1):
        for begins in itertools.combinations_with_replacement(range(k), n):
            for chunks in itertools.product(*[by_begin[b] for b in begins]):
                yield list(chunks)


def near_candidates(chunks, alpha):
    files = sorted(set(o[0] for o in alpha) | set(c[0] for c in chunks) | set(c[2] for c in chunks))
    ds = set()
    for a in files:
        for b in files:
            ds.add(b - a)
    cand = set([0, 1, -1])
    for d in ds:
        cand.update([d - 1, d, d + 1])
    return sorted(cand)


def pick_nears(rng, chunks, alpha, n):
    cand = near_candidates(chunks, alpha)
    nears = [rng.choice(cand) for _ in range(n)]
    r = rng.random()
    if r < 0.25:
        nears[-1] = rng.choice([MAXI, MAXI - 1, MAXI - rng.randrange(0, 1 << 20), 1 << 62])
    elif r < 0.4:
        nears[-1] = rng.choice([MINI, MINI + 1, -(1 << 62), -rng.randrange(1, 1 << 40)])
    elif r < 0.5:
        nears[-1] = rng.randrange(0, 1 << rng.randrange(1, 50))
    return nears


def random_list(rng, n, wellformed=True, sort=True):
    """Random larger lists over realistic offsets; a mix of dense and sparse."""
    scale = rng.choice([4, 64, 1 << 16, 1 << 30, 1 << 46])
    nfiles = rng.choice([2, 3, 8, max(2, n)])
    files = sorted(rng.randrange(0, scale) for _ in range(nfiles))
    blocks = [0, 1, 0xffff] + [rng.randrange(65536) for _ in range(3)]
    cs = []
    for _ in range(n):
        b = (rng.choice(files), rng.choice(blocks))
        e = (rng.choice(files), rng.choice(blocks))
        r = rng.random()
        if r < 0.15:
            e = b
        elif r < 0.3 and cs:
            e = cs[-1][2:]
        if wellformed and P(*e) < P(*b):
            b, e = e, b
        cs.append(b + e)
    if sort:
        cs.sort(key=lambda c: P(c[0], c[1]))
        if rng.random() < 0.5:
            # stable sort keeps generation order among equal begins; shuffle those
            rng.shuffle(cs)
            cs.sort(key=lambda c: P(c[0], c[1]))
    return cs, files


def group_nears(rng, alpha):
    """Thresholds applied to every list of an exhaustive group."""
    cand = near_candidates([], alpha)
    nears = rng.sample(cand, min(2, len(cand)))
    nears.append(rng.choice([0, -1, 1]))
    nears.append(rng.choice([MAXI, MAXI - 1, MAXI - rng.randrange(0, 1 << 20), 1 << 62, MINI, -(1 << 62)]))
    return nears


def plan_groups(rng, tier):
    """Exhaustive groups: alphabet, maximal length, thresholds applied to every list."""
    quick = tier == 'quick'
    plan = [(4, 'twofiles', 5 if quick else 7), (3, 'files', 6 if quick else 8)]
    if not quick:
        plan += [(4, 'files', 6), (5, 'files', 5)]
    groups = []
    for k, kind, maxlen in plan:
        alpha = alphabet(rng, k, kind)
        groups.append(dict(alpha=alpha, maxlen=maxlen, nears=group_nears(rng, alpha), k=k, lists=0))
    return groups


def group_cases(g):
    for l in exhaustive(g['alpha'], g['maxlen']):
        yield dict(chunks=[list(c) for c in l], nil=False, nears=g['nears'], kind='exh%d' % g['k'])


def explicit_cases(rng, tier):
    """Corpus, nil input, random sorted / ill-formed / unsorted lists (compared with the models one by one)."""
    quick = tier == 'quick'
    cases = []

    def add(chunks, alpha, kind, nn=3, nil=False):
        cases.append(dict(chunks=[list(c) for c in chunks], nil=nil, nears=pick_nears(rng, chunks, alpha, nn), kind=kind))

    cdir = os.path.join(core.ROOT, 'corpus', 'C17')
    if os.path.isdir(cdir):
        for n in sorted(os.listdir(cdir)):
            if n.endswith('.json'):
                d = json.load(open(os.path.join(cdir, n)))
                cases.append(dict(chunks=d['chunks'], nil=d.get('nil', False), nears=d['nears'], kind='corpus'))
    cases.append(dict(chunks=[], nil=True, nears=[0, -1, MAXI], kind='nil'))
    for _ in range(320 if quick else 12000):
        n = rng.choice([2, 3, 6, 8, 12, 20, 40])
        l, files = random_list(rng, n)
        add(l, [(f, 0) for f in files], 'random')
    for _ in range(80 if quick else 3000):
        # ill-formed chunks (End before Begin) cover nothing; still sorted by begin
        n = rng.choice([2, 3, 5, 9])
        l, files = random_list(rng, n, wellformed=False)
        add(l, [(f, 0) for f in files], 'illformed')
    for _ in range(80 if quick else 3000):
        # unsorted lists are outside the property: model/implementation agreement only
        n = rng.choice([2, 3, 5, 9])
        l, files = random_list(rng, n, sort=False)
        add(l, [(f, 0) for f in files], 'unsorted')
    return cases


# --- digest of an exhaustive group (same function as Model/StrategyRun.v) ------------

HP = (1 << 61) - 1
HB = 65537


def hz(acc, x):
    return (HB * acc + x + 1) & HP


def hlist(acc, cs):
    acc = hz(acc, len(cs))
    for c in cs:
        for x in c:
            acc = hz(acc, x)
    return acc


def hsame(acc, ref, o):
    return hz(acc, 1) if o == ref else hlist(hz(acc, 0), o)


def hrun(acc, inp, r):
    return hsame(hsame(acc, inp, r['out']), r['out'], r['twice'])


def hcase(c, o):
    a = hlist(7, c['chunks'])
    for s in ('identity', 'adjacent', 'squash'):
        a = hrun(a, c['chunks'], o[s])
    for n, r in zip(c['nears'], o['compressor']):
        a = hrun(hz(a, n), c['chunks'], r)
    return a


def group_term(g):
    return 'CX %s %d%%nat [%s] %d %d' % (cchunks([a + a for a in g['alpha']]), g['maxlen'], '; '.join(cz(n) for n in g['nears']), g['lists'], g['digest'])


# --- Coq terms ------------------------------------------------------------------

def cchunks(cs):
    return '(' + ''.join('K %s %s %s %s (' % tuple(cz(x) for x in c) for c in cs) + 'E' + ')' * len(cs) + ')'


def coq_term(c, o):
    """Compact form when Identity returned its input and every strategy returned its argument on the second application."""
    runs = list(runs_of(c, o))
    plain = o['identity']['out'] == c['chunks'] and all(r['twice'] == r['out'] for _, _, r in runs)
    if plain:
        comp = ''.join('(R %s %s ' % (cz(n), cchunks(r['out'])) for n, r in zip(c['nears'], o['compressor'])) + 'RE' + ')' * len(c['nears'])
        return 'C17 %s %s %s %s' % (cchunks(c['chunks']), cchunks(o['adjacent']['out']), cchunks(o['squash']['out']), comp)
    parts = [cchunks(c['chunks'])]
    for s in ('identity', 'adjacent', 'squash'):
        parts += [cchunks(o[s]['out']), cchunks(o[s]['twice'])]
    comp = ''.join('(R2 %s %s %s ' % (cz(n), cchunks(r['out']), cchunks(r['twice'])) for n, r in zip(c['nears'], o['compressor'])) + 'RE2' + ')' * len(c['nears'])
    return 'C17x ' + ' '.join(parts) + ' ' + comp


def features(chunks):
    iv = ivs(chunks)
    fs = set()
    for i, (b, e) in enumerate(iv):
        if b == e:
            fs.add('zero-length')
        if e < b:
            fs.add('ill-formed')
        for (b2, e2) in iv[i + 1:i + 2]:
            if (b, e) == (b2, e2):
                fs.add('duplicate')
            elif b <= b2 and e2 <= e:
                fs.add('nested')
            elif e == b2:
                fs.add('touching')
            elif b2 < e:
                fs.add('overlapping')
            else:
                fs.add('gap')
    return fs


def runs_of(c, o):
    yield 'identity', None, o['identity']
    yield 'adjacent', None, o['adjacent']
    yield 'squash', None, o['squash']
    for n, r in zip(c['nears'], o['compressor']):
        yield 'compressor', n, r


def strip(o):
    return {k: v for k, v in o.items() if k != 'stack'}


def harness(cases):
    return core.run_harness('c17', [{k: v for k, v in c.items() if k != 'kind'} for c in cases], jobs=8)


def evaluate(res, cases, obs):
    """Counts, judges and records failures for a batch; returns the set of indices without a usable observation."""
    broken = set()
    for i, (c, o) in enumerate(zip(cases, obs)):
        res.evaluations += 1
        chunks = [tuple(x) for x in c['chunks']]
        res.count('kind=%s/len=%d' % (c['kind'], len(chunks)) if c['kind'].startswith('exh') else 'kind=%s' % c['kind'])
        for f in features(chunks):
            res.count('has:' + f)
        if len(chunks) >= 2:
            res.nontrivial.add(hash((tuple(chunks), tuple(c['nears']))))
        if 'hang' in o or 'crash' in o or 'bad_case' in o or 'panic' in o or 'garbled' in o:
            res.failures.append(dict(sig='c17:' + ('hang' if 'hang' in o else 'panic' if 'panic' in o else 'harness'),
                                     what='harness did not return an observation', case=c, observed=strip(o)))
            broken.add(i)
            continue
        if is_sorted(chunks):
            for s, near, r in runs_of(c, o):
                if s == 'compressor':
                    res.count('near:' + ('max' if near > (1 << 61) else 'min' if near < -(1 << 61) else 'neg' if near < 0 else 'zero' if near == 0 else 'pos'))
                    if 'out' in r and len(r['out']) not in (len(chunks), 1 if chunks else 0):
                        res.count('compressor:partial-merge')
                if len(res.failures) < 2000:
                    for sig, what in judge(s, near, chunks, r):
                        one = dict(chunks=c['chunks'], nil=c['nil'], nears=[near] if near is not None else [], strategy=s)
                        res.failures.append(dict(sig=sig, what=what, case=one, observed=strip(r)))
        if any('panic' in r for _, _, r in runs_of(c, o)):
            res.corr_bad.append(dict(case=c, obs=o, note='the model strategies never panic'))
            broken.add(i)
    return broken


def batches(it, n):
    buf = []
    for x in it:
        buf.append(x)
        if len(buf) == n:
            yield buf
            buf = []
    if buf:
        yield buf


def sample_of(c, o):
    return dict(case=c, observed={k: (v if k != 'compressor' else [strip(x) for x in v]) for k, v in o.items() if k != 'stack'})


def run(res, rng, tier):
    import time
    stage = dict(harness=0.0, oracle=0.0)
    groups = plan_groups(rng, tier)
    expl = explicit_cases(rng, tier)
    samples = []
    # exhaustive groups, in batches: implementation, oracle, digest of the observations
    for g in groups:
        g['digest'], g['broken'] = 0, False
        for cases in batches(group_cases(g), 20000):
            t0 = time.time()
            obs = harness(cases)
            stage['harness'] += time.time() - t0
            t0 = time.time()
            broken = evaluate(res, cases, obs)
            g['lists'] += len(cases)
            if broken:
                g['broken'] = True
            else:
                for c, o in zip(cases, obs):
                    g['digest'] = (g['digest'] + hcase(c, o)) & HP
            stage['oracle'] += time.time() - t0
            if len(samples) < 3:
                samples += [sample_of(c, o) for c, o in zip(cases, obs) if len(c['chunks']) >= 3][:1]
    t0 = time.time()
    obs = harness(expl)
    stage['harness'] += time.time() - t0
    t0 = time.time()
    broken = evaluate(res, expl, obs)
    stage['oracle'] += time.time() - t0
    samples += [sample_of(expl[i], obs[i]) for i in (len(expl) - 200, len(expl) - 1) if 0 <= i < len(expl)]
    explicit = [(c, o, coq_term(c, o)) for i, (c, o) in enumerate(zip(expl, obs)) if i not in broken]
    t0 = time.time()
    # Coq: one shard per exhaustive group (Coq enumerates the same lists, runs both models, compares count and
    # digest), explicit cases spread over all shards
    gterms = [(g, group_term(g)) for g in groups if not g['broken']]
    nsh = max(len(gterms), min(6 if tier == 'quick' else 16, (len(explicit) + 63) // 64), 1)
    per = (len(explicit) + nsh - 1) // nsh + 1
    terms, tags = [], []
    rest = list(range(len(explicit)))
    for k in range(nsh):
        if k < len(gterms):
            terms.append(gterms[k][1])
            tags.append(('g', k))
        n = per - 1 if k < len(gterms) else per
        take, rest = rest[:n], rest[n:]
        for j in take:
            terms.append(explicit[j][2])
            tags.append(('e', j))
    bad, err = core.coq_mismatches(HEADER, 'c17case', 'c17_agree', terms, 'c17', shard=per)
    if err:
        res.corr_bad.append(dict(error=err))
    note = 'the Coq models of the strategies (generated loop translation and functional model) disagree with the implementation'
    redo = [g for g in groups if g['broken']]
    bad_groups = []
    for i in bad:
        kind, j = tags[i]
        if kind == 'g':
            redo.append(gterms[j][0])
            bad_groups.append(gterms[j][1][:300])
        else:
            c, o, t = explicit[j]
            res.corr_bad.append(dict(case=c, obs=o, coq_case=t, note=note))
    for g in redo:
        # a digest differs (or an observation is missing): compare that group's cases one by one to name the lists
        found = 0
        for cases in batches(group_cases(g), 5000):
            obs = harness(cases)
            again = [(c, o, coq_term(c, o)) for c, o in zip(cases, obs) if 'identity' in o and not any('panic' in r for _, _, r in runs_of(c, o))]
            bad2, err = core.coq_mismatches(HEADER, 'c17case', 'c17_agree', [t[2] for t in again], 'c17', shard=1000)
            if err:
                res.corr_bad.append(dict(error=err))
            for i in bad2[:10]:
                c, o, t = again[i]
                res.corr_bad.append(dict(case=c, obs=o, coq_case=t, note=note))
            found += len(bad2)
            if found >= 10:
                break
        if not found and not g['broken']:
            res.corr_bad.append(dict(note='digest of an exhaustive group differs although every case agrees: enumeration in Coq and in the driver differ',
                                     groups=bad_groups))
    stage['coq_correspondence'] = time.time() - t0
    res.extra['stage_seconds'] = {k: round(v, 2) for k, v in stage.items()}
    res.extra['exhaustive_groups'] = [dict(alphabet=g['alpha'], max_len=g['maxlen'], thresholds=g['nears'], lists=g['lists']) for g in groups]
    res.rule = ('every list of well-formed chunks sorted by begin, of length 0..n, over small offset alphabets drawn from the seed (see exhaustive_groups: '
                'two files x block offsets, and distinct files), incl. empty/nil, nested, touching, duplicate, zero-length, each with 4 Compressor thresholds '
                '(file distances +-1, 0/+-1, one next to MaxInt64/MinInt64); random lists of 2..40 chunks over realistic offsets, some with ill-formed (End<Begin) chunks, '
                '3 thresholds each; unsorted lists for model agreement only; corpus cases. A case is distinct by (chunks, thresholds); non-trivial = at least 2 chunks (the merge loops execute)')
    res.samples = samples
    res.trusted = TRUSTED
    res.assumptions = ASSUME


def replay(res, rp):
    c = rp.get('case')
    if not c:
        print(json.dumps(rp, indent=1))
        return 0
    s = c.get('strategy')
    o = core.run_harness('c17', [dict(chunks=c['chunks'], nil=c.get('nil', False), nears=c.get('nears', []))])[0]
    print('case     :', c)
    print('observed :', strip(o))
    rc = 0
    chunks = [tuple(x) for x in c['chunks']]
    for st, near, r in runs_of(c, o):
        if s and st != s:
            continue
        for sig, what in judge(st, near, chunks, r):
            print('oracle   : %s — %s' % (sig, what))
            rc = 1
    if rc == 0:
        print('oracle   : no violation')
    return rc


TRUSTED = [
    'Coq 8.16.1 kernel (coqc); vm_compute used for case evaluation only; no native_compute',
    'translator /verif/gen (gen/emit_strategy.go: Go AST of vOffset, adjacent, squash, identity and the CompressorStrategy closure -> Gallina, statement by statement: '
    'index loop with fuel, copy of chunks[c-1] vs pointer to chunks[c], append-delete idiom as list deletion, range loop as fold, int64 wrap); proved equal to the functional model '
    'for all inputs and validated on every run by evaluating both inside Coq on the cases the implementation ran',
    'a []bgzf.Chunk is modelled as the list of its elements (backing array beyond len and nil-vs-empty not modelled); Go int (loop index) is unbounded Z; int64 wraps explicitly',
    'exhaustive groups are compared through the number of lists and a 61-bit polynomial digest of (input, results, second applications), re-sent case by case when it differs',
    'axioms: none (Print Assumptions: Closed under the global context)',
]
ASSUME = [
    'offsets are those of a BGZF file: 0 <= File < 2^47 (so File<<16 does not wrap in int64), 0 <= Block < 2^16; thresholds are any integer (every int64)',
    'position coverage: a chunk covers the virtual offsets v with File(Begin)*2^16+Block(Begin) <= v < File(End)*2^16+Block(End)',
    'input lists are sorted by begin offset (internal.Index.MergeChunks sorts before applying a strategy); totality, idempotence, the Compressor gap, '
    'the run characterisation and the model/implementation agreement do not need it',
]

CLAIM = dict(
    text='Machine-checked proof (Coq 8.16.1) about the Gallina translation of vOffset, identity, adjacent, squash and the CompressorStrategy closure that /verif/gen regenerates '
         'statement by statement from bgzf/index/strategy.go on every run: each strategy returns normally on every chunk list; for every list of BGZF chunks sorted by begin and every '
         'threshold the result is sorted by begin and covers every position the input covers; Adjacent covers exactly the same positions with pairwise separated chunks; Squash returns '
         'the single enclosing chunk; a Compressor leaves no two neighbours within its threshold (all int64 thresholds, after the overflow fix); every strategy is idempotent; every result '
         'is the list of enclosing chunks of the maximal runs the strategy documents (nothing more is merged). The translation is proved equal to a functional model and both are '
         'evaluated inside Coq on the cases the implementation ran (all sorted lists up to length 5-6 over small alphabets, random larger ones); a position-set oracle judges the implementation.',
    note='Trusted: Coq kernel; the translator gen/emit_strategy.go (loop shape, slice-as-list, pointer-into-slice as index, int64 wrap). Offsets assumed to be BGZF offsets (File < 2^47). '
         'No axioms. Found and fixed: CompressorStrategy threshold sum overflowed for near close to MaxInt64.',
    technique='Coq proof over source-regenerated Gallina (loops included) + vm_compute correspondence + position-set oracle',
    design='6/C17')
