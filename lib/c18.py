"""C18: bam.Merger output is a loss-free, ordered merge re-linked to the merged header."""
import json

import core
from core import cz, cb, clist

PROPS = 'Props/C18.v'
HEADER = ('From Hts Require Import Base.Prim Model.Merger.\n'
          'Open Scope Z_scope.')

UNKNOWN, UNSORTED, QUERYNAME, COORDINATE = 0, 1, 2, 3
SO_NAME = {0: 'unknown', 1: 'unsorted', 2: 'queryname', 3: 'coordinate'}

# Reference names whose lexical order differs from most list orders used below.
REF_POOL = ['chrB', 'chrA', 'chr10', 'chr2', 'chrM', 'chrX', 'c', 'a', 'chr1', 'Z']
NAME_POOL = ['a', 'b', 'ab', 'B', 'a0', 'r1', 'r10', 'r2', 'q', 'zz']


# ------------------------------------------------------------------ generator

def custom_key(code, r):
    """Sort key under which an input is sorted for the custom less `code`."""
    if code in (1, 4):
        return r['pos']
    if code == 2:
        return -r['pos']
    if code == 3:
        return r['key']
    return 0


def gen_refs(rng, k):
    """Reference lists of k inputs and the layout class."""
    mode = rng.choice(['equal', 'equal', 'subseq', 'subseq', 'disjoint', 'overlap', 'permuted', 'permuted', 'none'])
    uni = list(REF_POOL)
    rng.shuffle(uni)
    n = rng.randint(1, 5)
    master = uni[:n]
    lens = {nm: rng.choice([1000, 2000, 500]) for nm in uni}
    lists = []
    if mode == 'none':
        lists = [[] if rng.random() < 0.7 else master[:1] for _ in range(k)]
    elif mode == 'equal':
        lists = [list(master) for _ in range(k)]
    elif mode == 'subseq':
        # input 0 has the master list, the others subsequences: every input's
        # own order agrees with the merged order
        lists = [list(master)]
        for _ in range(k - 1):
            lists.append([x for x in master if rng.random() < 0.6])
    elif mode == 'disjoint':
        pool = uni[:]
        for _ in range(k):
            m = rng.randint(0, 2)
            lists.append(pool[:m])
            pool = pool[m:]
    elif mode == 'overlap':
        for _ in range(k):
            lists.append([x for x in uni[:n + 2] if rng.random() < 0.5])
    else:  # permuted: same names, different orders
        for i in range(k):
            l = list(master)
            if i:
                rng.shuffle(l)
            lists.append(l)
    return mode, [[[nm, lens[nm]] for nm in l] for l in lists]


def gen_case(rng, tier, force=None):
    force = force or {}
    k = force.get('k') or rng.choice([1, 2, 2, 2, 3, 3, 4, 5])
    so = force.get('so', rng.choice([UNKNOWN, UNKNOWN, UNSORTED, QUERYNAME, QUERYNAME, COORDINATE, COORDINATE, COORDINATE]))
    if so == UNKNOWN:
        less = rng.choice([0, 1, 2, 3, 4, 5])
    else:
        less = rng.choice([0, 0, 1, 3])
    mode, reflists = gen_refs(rng, k)
    maxn = 6 if tier == 'quick' else 10
    inputs = []
    uid = 0
    sorted_inputs = rng.random() < 0.9
    for i in range(k):
        refs = reflists[i]
        n = 0 if rng.random() < 0.15 else rng.randint(1, maxn)
        recs = []
        for j in range(n):
            uid += 1
            if refs and rng.random() < 0.8:
                ref = rng.randrange(len(refs))
                pos = rng.randint(0, 5)
            else:
                ref, pos = -1, rng.choice([-1, -1, 3])
            if refs and rng.random() < 0.6:
                mref = ref if (ref >= 0 and rng.random() < 0.4) else rng.randrange(len(refs))
                mpos = rng.randint(0, 9)
            else:
                mref, mpos = -1, -1
            recs.append(dict(uid=i * 100 + j + 1, name=rng.choice(NAME_POOL), ref=ref, pos=pos, mref=mref, mpos=mpos,
                             key=rng.randint(0, 3)))
        if sorted_inputs:
            if so == COORDINATE:
                recs.sort(key=lambda r: (r['ref'] < 0, r['ref'], r['pos'] if r['ref'] >= 0 else 0))
            elif so == QUERYNAME:
                recs.sort(key=lambda r: r['name'].encode())
            elif so == UNKNOWN and less:
                recs.sort(key=lambda r: custom_key(less, r))
        for j, r in enumerate(recs):
            r['uid'] = i * 100 + j + 1
        lay = 'natural' if (force.get('span') or rng.random() < 0.25) else 'block'
        if force.get('span'):
            for r in recs[:4]:
                r['pad'] = rng.choice([20000, 30000, 45000])
            recs = recs[:4] + [r for r in recs[4:]]
        inputs.append(dict(refs=refs, so=so, recs=recs, fail=-1, kind='err', rd=rng.choice([1, 1, 2, 3, 4]),
                           go=(rng.choice([0, 0, 1, 2, 3]) if rng.random() < 0.3 else 0), layout=lay, wc=rng.choice([1, 2, 3])))
        if i == 0 and k > 1 and rng.random() < 0.35:
            # the first input's @SQ lines carry a non-standard tag: equal references of later inputs replace them
            # in the merged header, so the links of the first input have to follow the replacement
            inputs[-1]['tag'] = True
    # faults
    if force.get('fault', rng.random() < 0.3):
        for _ in range(rng.choice([1, 1, 2])):
            inp = rng.choice(inputs)
            # in an ordinary file only the end marker is a block boundary known to the harness
            inp['fail'] = len(inp['recs']) if inp['layout'] == 'natural' else rng.randint(0, len(inp['recs']))
            inp['kind'] = rng.choice(['err', 'trunc'])
    # sort order disagreement / conflicting reference definitions (NewMerger must refuse)
    x = rng.random()
    if k >= 2 and x < 0.04:
        inputs[rng.randrange(1, k)]['so'] = (so + rng.randint(1, 3)) % 4
    elif k >= 2 and x < 0.08:
        a, b = rng.sample(range(k), 2)
        if inputs[a]['refs']:
            nm = inputs[a]['refs'][0][0]
            if all(r[0] != nm for r in inputs[b]['refs']):
                inputs[b]['refs'].append([nm, 777])
            else:
                for r in inputs[b]['refs']:
                    if r[0] == nm:
                        r[1] = 777
    return dict(op='merge', less=less, inputs=inputs, after=2, layout=mode)


def gen_less_case(rng):
    refs = rng.sample(REF_POOL, 3)

    def rec():
        ref = rng.choice([-1, 0, 0, 1, 2])
        return dict(uid=0, name=rng.choice(NAME_POOL), ref=ref, pos=rng.randint(-1, 4), mref=-1, mpos=-1, key=0)
    return dict(op='less', a=rec(), b=rec(), lrefs=refs)


def gen_cases(rng, tier):
    n = 208 if tier == 'quick' else 1500
    cases = []
    for i in range(n):
        cases.append(gen_case(rng, tier))
    # targeted: header order differs from name order, two inputs, coordinate
    for _ in range(n // 16):
        c = gen_case(rng, tier, dict(k=2, so=COORDINATE, fault=False))
        cases.append(c)
    for _ in range(n // 16):
        cases.append(gen_case(rng, tier, dict(fault=True)))
    # ordinary BAM files whose records span BGZF blocks, read with rd > 1
    for _ in range(10 if tier == 'quick' else 120):
        c = gen_case(rng, tier, dict(span=True))
        for inp in c['inputs']:
            inp['rd'] = rng.choice([2, 3, 4])
        cases.append(c)
    for _ in range(24 if tier == 'quick' else 200):
        cases.append(gen_less_case(rng))
    return cases


# --------------------------------------------------------------------- oracle
# Written from the property statement: sort-and-compare.

def merged_refs(inputs):
    """Union of the reference lists in order of first appearance; None when two
    inputs define the same name with different lengths."""
    out, seen = [], {}
    for inp in inputs:
        for nm, ln in inp['refs']:
            if nm in seen:
                if seen[nm] != ln:
                    return None
            else:
                seen[nm] = ln
                out.append([nm, ln])
    return out


def deliverable(inp):
    return inp['recs'] if inp['fail'] < 0 else inp['recs'][:inp['fail']]


def order_of(c):
    so = c['inputs'][0]['so']
    if so == COORDINATE:
        return 'coordinate'
    if so == QUERYNAME:
        return 'queryname'
    if so == UNSORTED:
        return 'cat'
    return 'custom%d' % c['less'] if c['less'] else 'cat'


def sort_key(order, name, refidx, pos, key):
    if order == 'coordinate':
        return (1, 0, 0) if refidx < 0 else (0, refidx, pos)
    if order == 'queryname':
        return name.encode()
    code = int(order[6:])
    return custom_key(code, dict(pos=pos, key=key))


def is_sorted(keys):
    return all(keys[i] <= keys[i + 1] for i in range(len(keys) - 1))


def strip(o):
    return {k: v for k, v in o.items() if k not in ('stack', 'stderr')}


def oracle(c, o):
    """List of (sig, what) — every way in which the observation breaks the property."""
    if c['op'] == 'less':
        return oracle_less(c, o)
    out = []
    ins = c['inputs']
    k = len(ins)
    order = order_of(c)
    tag = order
    anyfault = any(i['fail'] >= 0 for i in ins)
    empty0 = any(len(deliverable(i)) == 0 for i in ins)
    if 'hang' in o:
        return [(tag + ':hang', 'call did not return')]
    if 'crash' in o:
        return [('%s:crash%s' % (tag, ':fault' if anyfault else ''), 'the process died (unrecoverable, e.g. unbounded recursion): ' + str(o.get('stderr', ''))[:300])]
    if 'panic' in o:
        return [(tag + ':panic', 'panic outside Merger calls: ' + o['panic'])]
    if 'bad_case' in o:
        return []
    if 'newpanic' in o:
        return [('%s:new:panic%s' % (tag, ':nil-head' if (empty0 and k >= 2) else ''), 'NewMerger panicked: ' + o['newpanic'])]
    mrefs = merged_refs(ins)
    mismatch = any(i['so'] != ins[0]['so'] for i in ins)
    must_refuse = mismatch or mrefs is None
    fail_first = any(i['fail'] == 0 for i in ins)
    if o['newerr'] != 'nil':
        if must_refuse:
            return []
        if fail_first and o['newerr'] in ('fault', 'trunc') and order != 'cat':
            return []       # an input that cannot deliver its first record: reported by NewMerger
        return [(tag + ':new:error', 'NewMerger refused valid inputs: ' + o['newerr'])]
    if must_refuse:
        return [(tag + ':new:accepted', 'NewMerger accepted inputs with %s' % ('differing sort orders' if mismatch else 'conflicting definitions of one reference'))]
    if [list(x) for x in (o.get('hrefs') or [])] != mrefs:
        out.append((tag + ':header:refs', 'merged header references %s, expected %s' % (o.get('hrefs'), mrefs)))
        return out
    if o.get('hso') != ins[0]['so']:
        out.append((tag + ':header:so', 'merged header sort order %s' % o.get('hso')))
    wantgo = ins[0].get('go', 0) if k == 1 else 0
    if o.get('hgo', 0) != wantgo:
        out.append((tag + ':header:go', 'merged header group order %s, expected %s' % (o.get('hgo'), wantgo)))
    midx = {nm: i for i, (nm, _) in enumerate(mrefs)}
    src = {}
    for i, inp in enumerate(ins):
        for j, r in enumerate(inp['recs']):
            src[r['uid']] = (i, j, r)
    reads = o['reads']
    end = o['end']
    # --- termination / errors
    if end.startswith('panic:'):
        out.append(('%s:read:panic%s' % (tag, ':fault' if anyfault else ''), 'Merger.Read panicked: ' + end[6:]))
    elif end in ('limit', 'nil-nil'):
        out.append((tag + ':read:' + end, 'Merger.Read keeps returning without EOF or error'))
    elif end == 'eof':
        if anyfault:
            out.append((tag + ':end:eof-after-fault', 'io.EOF although input(s) %s failed: the read error is dropped' % [i for i, x in enumerate(ins) if x['fail'] >= 0]))
        if any(a != 'eof' for a in o['after']):
            out.append((tag + ':end:eof-not-final', 'after io.EOF Read returned %s' % o['after']))
    else:
        if not anyfault:
            out.append((tag + ':end:error-without-fault', 'Read returned %s although no input failed' % end))
        if any(a == 'eof' for a in o['after']):
            out.append((tag + ':end:eof-after-error', 'io.EOF returned after the error %s: %s' % (end, o['after'])))
        if any(a.startswith('panic') for a in o['after']):
            out.append((tag + ':read:panic-after-error', 'Read after an error panicked: %s' % o['after']))
    # --- permutation
    seen = set()
    per_input = [[] for _ in ins]
    for r in reads:
        u = r['uid']
        if u not in src:
            out.append((tag + ':perm:foreign', 'record uid %s is not from any input' % u))
            continue
        if u in seen:
            out.append((tag + ':perm:duplicate', 'record uid %s returned twice' % u))
            continue
        seen.add(u)
        i, j, s = src[u]
        per_input[i].append(j)
        if inp_fail(ins[i]) is not None and j >= ins[i]['fail']:
            out.append((tag + ':perm:beyond-fault', 'record %s lies beyond the fault of input %d' % (u, i)))
        if (r['name'], r['pos'], r['key']) != (s['name'], s['pos'], s['key']):
            out.append((tag + ':perm:content', 'record %s changed: %s' % (u, r)))
        # --- re-linking
        want = ins[i]['refs'][s['ref']][0] if s['ref'] >= 0 else '*'
        if r['refname'] != want:
            out.append((tag + ':relink:ref:name', 'record %s: reference %s, source says %s' % (u, r['refname'], want)))
        elif s['ref'] >= 0 and not (r['refok'] and r['ref'] == midx[want]):
            out.append((tag + ':relink:ref:foreign', 'record %s: reference %s (id %s) is not the merged header\'s reference of that name (id %s)' % (u, want, r['ref'], midx[want])))
        wantm = ins[i]['refs'][s['mref']][0] if s['mref'] >= 0 else '*'
        if r['mrefname'] != wantm:
            out.append((tag + ':relink:mate:name', 'record %s: mate reference %s, source says %s' % (u, r['mrefname'], wantm)))
        elif s['mref'] >= 0 and not (r['mrefok'] and r['mref'] == midx[wantm]):
            out.append((tag + ':relink:mate:foreign', 'record %s: mate reference %s (id %s) is not the merged header\'s reference of that name (id %s)' % (u, wantm, r['mref'], midx[wantm])))
    if end == 'eof' and not anyfault:
        missing = [u for u in src if u not in seen]
        if missing:
            out.append((tag + ':perm:lost', 'records %s never returned' % missing))
    # --- stability: each input's records appear in input order without gaps
    for i, js in enumerate(per_input):
        if js != list(range(len(js))):
            out.append((tag + ':stable', 'records of input %d returned in order %s' % (i, js)))
            break
    # --- order
    if order == 'cat':
        flat = [src[r['uid']][:2] for r in reads if r['uid'] in src]
        if flat != sorted(flat):
            out.append((tag + ':sorted', 'concatenation expected, inputs interleaved: %s' % flat))
    else:
        pre = True
        for inp in ins:
            ks = [sort_key(order, r['name'], midx[inp['refs'][r['ref']][0]] if r['ref'] >= 0 else -1, r['pos'], r['key']) for r in deliverable(inp)]
            pre = pre and is_sorted(ks)
        if pre:
            ks = []
            for r in reads:
                if r['uid'] in src:
                    i, j, s = src[r['uid']]
                    ks.append(sort_key(order, s['name'], midx[ins[i]['refs'][s['ref']][0]] if s['ref'] >= 0 else -1, s['pos'], s['key']))
            if not is_sorted(ks):
                q = ''
                if order == 'coordinate':
                    byname = [((1, '', 0) if s['ref'] < 0 else (0, ins[i]['refs'][s['ref']][0], s['pos']))
                              for (i, j, s) in (src[r['uid']] for r in reads if r['uid'] in src)]
                    if is_sorted(byname):
                        q = ':by-refname'
                out.append((tag + ':sorted' + q, 'inputs are sorted in %s order (merged header %s) but the output is not: keys %s' % (order, [x[0] for x in mrefs], ks)))
    # one entry per signature
    uniq, res = set(), []
    for s, w in out:
        if s not in uniq:
            uniq.add(s)
            res.append((s, w))
    return res


def inp_fail(inp):
    return inp['fail'] if inp['fail'] >= 0 else None


def oracle_less(c, o):
    if 'panic' in o or 'crash' in o or 'hang' in o:
        return [('less:panic', 'comparison panicked: %s' % strip(o))]
    a, b = c['a'], c['b']
    out = []
    if o['name'] != (a['name'].encode() < b['name'].encode()):
        out.append(('less:name', 'LessByName(%s,%s)=%s' % (a['name'], b['name'], o['name'])))
    # coordinate: header reference order then position, unplaced last.  Only
    # pairs in which the answer is forced are judged (two unplaced records are
    # equivalent; either answer keeps a sort correct).
    ka = (1, 0, 0) if a['ref'] < 0 else (0, a['ref'], a['pos'])
    kb = (1, 0, 0) if b['ref'] < 0 else (0, b['ref'], b['pos'])
    if ka < kb and not o['coord']:
        q = ':by-refname' if (a['ref'] >= 0 and b['ref'] >= 0 and c['lrefs'][a['ref']] > c['lrefs'][b['ref']]) else ''
        out.append(('less:coord' + q, 'LessByCoordinate(%s,%s)=false with header %s although a sorts strictly first in header order' % (a, b, c['lrefs'])))
    if ka > kb and o['coord']:
        q = ':by-refname' if (a['ref'] >= 0 and b['ref'] >= 0 and c['lrefs'][a['ref']] < c['lrefs'][b['ref']]) else ''
        out.append(('less:coord' + q, 'LessByCoordinate(%s,%s)=true with header %s although b sorts strictly first in header order' % (a, b, c['lrefs'])))
    return out


# ------------------------------------------------------------------- Coq terms

def cstr(s):
    return clist(list(s.encode()))


def crec(r):
    return '(mkRec %s %s %s %s %s %s)' % (cz(r['uid']), cstr(r['name']), cz(r['ref']), cz(r['pos']), cz(r['mref']), cz(r['key']))


def cinput(inp):
    refs = clist(inp['refs'], lambda x: '(%s, %s)' % (cstr(x[0]), cz(x[1])))
    return '(mkInput %s %s %s %s %s)' % (refs, cz(inp['so']), clist(deliverable(inp), crec), cb(inp['fail'] >= 0), cz(inp.get('go', 0)))


END_CODE = {'eof': 0, 'fault': 1, 'trunc': 1}


def cobs(o):
    """Observation as Coq term: obs_new_err | obs_run outs end after."""
    if 'newpanic' in o:
        return 'ObsNewPanic'
    if o['newerr'] != 'nil':
        return 'ObsNewErr'
    outs = clist(o['reads'], lambda r: '(%s, %s, %s)' % (cz(r['uid']), cz(r['ref']), cz(r['mref'])))
    end = o['end']
    if end.startswith('panic:'):
        e = 2
    elif end in END_CODE:
        e = END_CODE[end]
    else:
        e = 3
    after = clist(o['after'], lambda a: cz(0 if a == 'eof' else 1 if a in ('fault', 'trunc') else 2 if a.startswith('panic') else 3))
    hrefs = clist(o.get('hrefs') or [], lambda x: '(%s, %s)' % (cstr(x[0]), cz(x[1])))
    return '(ObsRun %s %s %s %s %s %s)' % (hrefs, cz(o.get('hso', 0)), cz(o.get('hgo', 0)), outs, cz(e), after)


def coq_term(c, o):
    if c['op'] == 'less':
        return '(CLess %s %s %s %s %s)' % (clist(c['lrefs'], cstr), crec(c['a']), crec(c['b']), cb(o['name']), cb(o['coord']))
    return '(CMerge %s %s %s %s)' % (cz(c['less']), clist(c['inputs'], cinput), cz(c['after']), cobs(o))


# ----------------------------------------------------------------------- run

def run_cases(cases):
    """Run the harness; a case that kills the process is marked and the rest re-run."""
    obs = [None] * len(cases)
    todo = list(range(len(cases)))
    guard = 0
    while todo and guard < 60:
        guard += 1
        got = core.run_harness('c18', [cases[i] for i in todo], jobs=1)
        nxt = []
        for n, (i, o) in enumerate(zip(todo, got)):
            if 'crash' in o:
                obs[i] = {'crash': True, 'stderr': (o.get('stderr') or '')[:400]}
                nxt = todo[n + 1:]
                break
            obs[i] = o
        todo = nxt
    for i in todo:
        obs[i] = {'crash': True, 'stderr': 'not run: too many crashes'}
    return obs


def nontrivial(c):
    """A merge case is non-trivial when at least two inputs deliver records (so an
    interleaving decision is made) or an input fails; a less case always."""
    if c['op'] == 'less':
        return True
    return sum(1 for i in c['inputs'] if deliverable(i)) >= 2 or any(i['fail'] >= 0 for i in c['inputs'])


def case_key(c):
    return json.dumps(c, sort_keys=True)


def run(res, rng, tier):
    cases = gen_cases(rng, tier)
    import os
    cdir = os.path.join(core.ROOT, 'corpus', 'C18')
    corpus = []
    if os.path.isdir(cdir):
        for n in sorted(os.listdir(cdir)):
            if n.endswith('.json'):
                corpus.append(json.load(open(os.path.join(cdir, n))))
    cases = corpus + cases
    # split over a few processes, keeping the crash handling per chunk
    from concurrent.futures import ThreadPoolExecutor
    nchunk = 8
    size = (len(cases) + nchunk - 1) // nchunk
    chunks = [cases[i:i + size] for i in range(0, len(cases), size)]
    with ThreadPoolExecutor(max_workers=nchunk) as ex:
        obs = [o for part in ex.map(run_cases, chunks) for o in part]
    terms = []
    for c, o in zip(cases, obs):
        res.evaluations += 1
        if nontrivial(c):
            res.nontrivial.add(case_key(c))
        if c['op'] == 'merge':
            ins = c['inputs']
            res.count('order=%s' % order_of(c))
            res.count('k=%d' % len(ins))
            res.count('layout=%s' % c.get('layout', 'corpus'))
            res.count('faults=%d' % sum(1 for i in ins if i['fail'] >= 0))
            res.count('bgzf=%s' % ('span' if any(r.get('pad') for i in ins for r in i['recs']) else 'natural' if any(i.get('layout') == 'natural' for i in ins) else 'block'))
            res.count('rd_max=%d' % max(i.get('rd', 1) for i in ins))
            res.count('empty_inputs=%d' % sum(1 for i in ins if not i['recs']))
            res.count('end=%s' % ('newerr' if o.get('newerr', 'nil') != 'nil' else o.get('end', 'crash/panic').split(':')[0]))
        else:
            res.count('op=less')
        for sig, what in oracle(c, o):
            res.failures.append(dict(sig=sig, what=what, case=c, observed=strip(o)))
        if 'hang' in o or 'crash' in o or 'bad_case' in o or 'panic' in o:
            res.corr_bad.append(dict(case=c, obs=strip(o), note='no observation to compare'))
            continue
        terms.append((c, o, coq_term(c, o)))
    bad, err = core.coq_mismatches(HEADER, 'c18case', 'c18_agree', [t[2] for t in terms], 'c18', shard=(34 if tier == 'quick' else 120))
    if err:
        res.corr_bad.append(dict(error=err))
    for i in bad:
        c, o, t = terms[i]
        res.corr_bad.append(dict(case=c, obs=strip(o), coq_case=t,
                                 note='Model/Merger.v run on this case does not produce the observed sequence'))
    res.rule = ('generated input sets (BAM written per case: one record per BGZF block, or as bam.Writer lays it out with wc 1-3, or with 20-45 kB sequences so that records span BGZF blocks; readers with rd 1..4; group order set on 30% of inputs): k=1..5 inputs, 0..6 records each (15% empty), reference lists equal / subsequences of a master list / disjoint / '
                'overlapping / permuted / absent with names whose lexical order differs from list order, mates on other references, unplaced records, '
                'all four sort orders and five custom less functions, inputs sorted in the declared order (10% deliberately not), 30% with one or two inputs '
                'failing at record n (injected error or truncation under the BAM reader), sort-order mismatch and conflicting reference definitions; plus direct '
                'LessByName/LessByCoordinate pairs. Distinct by full case content; non-trivial = at least two inputs deliver records or an input fails (less pairs: all)')
    pairs = list(zip(cases, obs))
    res.samples = [dict(case=c, observed=strip(o)) for c, o in pairs[:2] + pairs[len(pairs) // 2:len(pairs) // 2 + 1] + pairs[-1:]]
    res.trusted = TRUSTED
    res.assumptions = ASSUME


def replay(res, rp):
    c = rp.get('case')
    if not c:
        print(json.dumps(rp, indent=1))
        return 0
    o = run_cases([c])[0]
    print('case     :', json.dumps(c))
    print('observed :', json.dumps(strip(o)))
    fs = oracle(c, o)
    print('oracle   :', fs)
    return 1 if fs else 0


TRUSTED = [
    'Coq 8.16.1 kernel (coqc); vm_compute used for case evaluation only',
    'hand-written model coq/Model/Merger.v of bam/merger.go (NewMerger, Read, cat, nextBySortOrder, reassignReference, bySortOrderAndID.Less), sam.LessByName/LessByCoordinate and container/heap (Init/Push/Pop/up/down transcribed); validated on every run by evaluating it inside Coq on the cases the implementation ran and comparing the full output sequence',
    'bam.Reader is modelled as a stream: records, then io.EOF for ever or an error for ever; (nil, err) on every failure (bam/reader.go returns no record with an error); exercised with inputs laid out one record per BGZF block, as ordinary bam.Writer files (records sharing blocks, wc 1-3) and with records spanning BGZF blocks, read with rd = 1..4, faults injected under the reader',
    'sam.MergeHeaders: the theorems about order, bag, stability and errors hold for every link table; merge_relinked instantiates the table with the result of MergeHeaders in the header model of C07 (coq/Model/Header.v, merge_headers_spec) — that model is C07\'s, tied to the code by C07\'s correspondence; for the C18 correspondence the model computes merged references / sort order / group order / links for references with name and length and compares them with Merger.Header() and the observed ids',
    'Go int as unbounded Z; strings as byte lists compared lexicographically',
]
ASSUME = [
    'references carry name and length only in generated cases (attribute-merging paths of AddReference belong to C07)',
    'merge_relinked assumes the records of input j refer to references of header j (bam.Reader rejects other ids) and the header invariant WInv of C07 for the source headers',
    'container/heap is represented by a hand transcription of heap.Init/Push/Pop/up/down (Model/Merger.v, GoHeap); its contract (bag, totality, heap order for comparisons between a preorder and its strict part) is proved for the transcription, not assumed; merge_sorted_any_queue states the merger\'s correctness for any queue meeting that contract',
]

CLAIM = dict(
    text='Machine-checked proof (Coq 8.16.1) over an executable model of bam.Merger (NewMerger, Read, concatenation mode, heap-driven merge with the '
         'bySortOrderAndID comparison, reference re-linking) and of LessByName/LessByCoordinate: for all input sets, links and histories the output is a '
         'permutation of the records the inputs deliver, sorted in the declared order when the inputs are, stable per input, ends with EOF exactly when every '
         'input ended cleanly and with the error otherwise, and never panics; with the link table MergeHeaders returns (C07\'s header model) every returned '
         'record\'s reference and mate reference is one the merged header owns and lists at its id, with the name and length it had in its source; NewMerger\'s '
         'header handling (sort order agreement, SortOrder/GroupOrder of the merged header, mode per declared order) is part of the model. The model is run '
         'against the implementation on generated input sets (empty and failing inputs, permuted reference lists, all sort orders) inside coqc on every run; '
         'an independent sort-and-compare oracle judges the implementation.',
    note='Trusted: Coq kernel; the hand-written model (tied by exact output-sequence correspondence on every run); bam.Reader as a stream that returns (nil, err) on failure; '
         'MergeHeaders abstracted to its renumbering (C07). The priority queue is a parameter of the model; container/heap is transcribed by hand (Init/Push/Pop/up/down) and proved to meet the '
         'contract (bag laws, no panic, heap order for every comparison between a preorder and its strict part), so no theorem carries a heap hypothesis; '
         'the transcription itself is tied by the exact-sequence correspondence.',
    technique='Coq proof over hand-written executable model + vm_compute correspondence + sort-and-compare oracle',
    design='6/C18')
