"""C19: FAI index and File return exactly the requested subsequence."""
import json

import core
from core import cz, cb, clist

PROPS = 'Props/C19.v'
HEADER = 'From Hts Require Import Base.Prim Generated Model.Fai.\nOpen Scope Z_scope.'

LF, CR, GT, SP, TAB = 10, 13, 62, 32, 9


# ------------------------------------------------------------------ structure
# A generated file is a structure (never parsed back from bytes):
#   lead   : [crlf?]                      blank lines before the first record
#   recs   : [{name, desc, full, last, crlf, blanks}]   byte lists
#   final  : is the last line of the file terminated
# An "empty" record (no sequence lines at all) has full == [] and last == [].

def term(crlf):
    return [CR, LF] if crlf else [LF]


def render_rec(r, nl):
    out = [GT] + r['name'] + r['desc'] + term(r['crlf'])
    for l in r['full']:
        out += l + term(r['crlf'])
    if r['last']:
        out += r['last'] + (term(r['crlf']) if nl else [])
    elif not nl:
        # empty record at the very end without final newline: drop the header's terminator
        out = out[:len(out) - len(term(r['crlf']))]
    for b in r['blanks']:
        out += term(b)
    return out


def render(f):
    out = []
    for b in f['lead']:
        out += term(b)
    for i, r in enumerate(f['recs']):
        out += render_rec(r, True if i < len(f['recs']) - 1 else f['final'])
    return out


def seq_of(r):
    s = []
    for l in r['full']:
        s += l
    return s + r['last']


# ------------------------------------------------- oracle: naive FASTA slicer
# Written from the FASTA convention and faidx(5): NAME = header up to the first
# white space, LENGTH = number of bases, OFFSET = byte offset of the first
# base, LINEBASES / LINEWIDTH = bases / bytes (with terminator) of the
# sequence lines.  The file is scanned byte by byte; nothing is shared with
# the library or with the Coq model.

def naive_records(data):
    """[(name, seq bytes, offset of every base in the file)] by a plain scan."""
    recs = []
    i, n = 0, len(data)
    cur = None
    while i < n:
        j = i
        while j < n and data[j] != LF:
            j += 1
        line_end = j + 1 if j < n else j          # past the LF when there is one
        content_end = j
        if content_end > i and data[content_end - 1] == CR and j < n:
            content_end -= 1
        if content_end > i and data[i] == GT:
            k = i + 1
            while k < content_end and data[k] not in (SP, TAB):
                k += 1
            cur = (data[i + 1:k], [], [], line_end)
            recs.append(cur)
        elif content_end > i and cur is not None:
            for p in range(i, content_end):
                cur[1].append(data[p])
                cur[2].append(p)
        i = line_end
    return recs


def expected_entry(name, seq, offs, data, hdr_end):
    """faidx entry for a record whose bases sit at file offsets offs."""
    if not seq:
        return dict(name=name, len=0, bases=0, bytes=0, start=hdr_end)
    start = offs[0]
    # LINEBASES: bases before the first gap; LINEWIDTH: distance between line starts
    lb = 1
    while lb < len(offs) and offs[lb] == offs[lb - 1] + 1:
        lb += 1
    if lb < len(offs):
        lw = offs[lb] - offs[0]
    else:
        # a single line: LINEWIDTH counts its terminator if it has one
        e = offs[-1] + 1
        lw = lb
        if e < len(data) and data[e] == LF:
            lw += 1
        elif e + 1 < len(data) and data[e] == CR and data[e + 1] == LF:
            lw += 2
    return dict(name=name, len=len(seq), start=start, bases=lb, bytes=lw)


def usable(ent, offs):
    """Does the entry address every base: OFFSET + p/LINEBASES*LINEWIDTH + p%LINEBASES."""
    if ent['len'] != len(offs):
        return False
    if not offs:
        return True
    if ent['bases'] <= 0:
        return False
    return all(ent['start'] + p // ent['bases'] * ent['bytes'] + p % ent['bases'] == offs[p] for p in range(len(offs)))


def ideal_reads(data, sizes):
    """An ideal reader over data: Read(k>0) gives min(k, rest) bytes, EOF iff rest < k."""
    out, pos = [], 0
    for k in sizes:
        if k < 0:
            pos = 0
            continue
        if k == 0:
            out.append(([], 0))
            continue
        chunk = data[pos:pos + k]
        out.append((chunk, 1 if len(data) - pos < k else 0))
        pos += len(chunk)
    return out


def reader_contract(data, sizes, have):
    """The property as an io.Reader contract over `data` (the requested bases):
    every call delivers the next bytes in order (at most the buffer size), never anything else;
    io.EOF only once everything has been delivered, and then on every call with a non-empty buffer;
    a call with a non-empty buffer while bases remain makes progress; no other error.
    (When EOF accompanies the last bytes or comes with the next call is left open.)"""
    pos, i = 0, 0
    for k in sizes:
        if k < 0:
            pos = 0
            continue
        if i >= len(have):
            return ('read:short-script', 'fewer Read results than calls')
        d, err = have[i]
        i += 1
        if len(d) > k:
            return ('read:data', 'more bytes than the buffer holds')
        if d != data[pos:pos + len(d)]:
            return ('read:data', 'call %d returned %s, the next bases are %s' % (i, bytes(d), bytes(data[pos:pos + max(len(d), 1)])))
        pos += len(d)
        if err == 1:
            if pos != len(data):
                return ('read:eof', 'io.EOF after %d of %d bases' % (pos, len(data)))
        elif err == 0:
            if k > 0 and not d:
                return ('read:eof' if pos == len(data) else 'read:stall', 'nothing read and no io.EOF with a buffer of %d and %d bases left' % (k, len(data) - pos))
        elif err == 7:
            return ('read:lost-bytes', 'call %d wrote bases into the buffer beyond the %d bytes it reports (bytes delivered by ReadAt but not counted)' % (i, len(d)))
        else:
            return ('read:error', 'error class %d' % err)
    return None


def features(f, ri=None):
    ft = []
    recs = f['recs']
    upto = recs if ri is None else recs[:ri]
    if f['lead'] or any(r['blanks'] for r in upto):
        ft.append('after-blank-line')
    if ri is not None:
        r = recs[ri]
        if not seq_of(r):
            ft.append('empty-seq')
        if r['crlf']:
            ft.append('crlf')
        if ri == len(recs) - 1 and not f['final']:
            ft.append('no-final-newline')
    return ft


def fsig(kind, ft):
    return ':'.join([kind] + ft)


def oracle(case, o):
    """List of (sig, what, expected) for every way the property fails on this observation."""
    f = case['struct']
    data = case['file']
    bad = []
    if 'hang' in o:
        return [('hang', 'call did not return (watchdog)', None)]
    if 'panic' in o:
        return [('panic:newindex-or-tsv', 'panic outside Read: ' + o['panic'], None)]
    nrecs = naive_records(data)
    # the structure the generator rendered and the naive scan must agree (guards the oracle itself)
    if [(r['name'], seq_of(r)) for r in f['recs']] != [(n, s) for n, s, _, _ in nrecs]:
        return [('oracle:self-check', 'naive scan disagrees with the generated structure', None)]
    idx = o['idx']
    if idx['err'] != 0:
        return [(fsig('index:error', features(f)), 'NewIndex rejects a well-formed file: ' + idx.get('msg', ''), None)]
    exp = [expected_entry(n, s, offs, data, he) for n, s, offs, he in nrecs]
    got = {tuple(r['name']): r for r in idx['recs']}
    if len(got) != len(idx['recs']) or set(got) != set(tuple(e['name']) for e in exp):
        return [('index:names', 'index holds names %s, file has %s' % (sorted(got), [e['name'] for e in exp]), None)]
    wrong = set()
    for ri, (e, (n, s, offs, _)) in enumerate(zip(exp, nrecs)):
        g = got[tuple(n)]
        ft = features(f, ri)
        for fld in ('len', 'start', 'bases', 'bytes'):
            if g[fld] != e[fld]:
                bad.append((fsig('index:' + fld, ft), 'record %s: %s = %s, file says %s' % (bytes(n), fld, g[fld], e[fld]), e))
                wrong.add(ri)
        if ri not in wrong and not usable(g, offs):
            bad.append((fsig('index:unusable', ft), 'record %s: entry %s does not address its bases' % (bytes(n), g), e))
            wrong.add(ri)
    # TSV
    tsv_exp = []
    for r in sorted(idx['recs'], key=lambda r: r['start']):
        tsv_exp += r['name'] + [TAB] + [ord(c) for c in '%d\t%d\t%d\t%d\n' % (r['len'], r['start'], r['bases'], r['bytes'])]
    if o.get('tsv_err') or o.get('tsv') != tsv_exp:
        bad.append(('tsv:write', 'WriteTo output is not the five-column text sorted by offset', None))
    rt = o.get('rt') or {}
    if rt.get('err') != 0 or rt.get('recs') != sorted(idx['recs'], key=lambda r: (r['start'], r['name'])):
        bad.append((fsig('tsv:roundtrip', ['quote-in-name'] if any(34 in r['name'] for r in f['recs']) else []),
                    'ReadFrom(WriteTo(idx)) differs from idx: ' + str(rt.get('msg', rt.get('recs'))), None))
    # reads
    byname = {tuple(r['name']): (ri, seq_of(r)) for ri, r in enumerate(f['recs'])}
    for q, qo in zip(case['queries'], o.get('queries', [])):
        key = tuple(q['name'])
        if key not in byname:
            if qo['open'] != 1:
                bad.append(('read:open:unknown-name', 'unknown name %s opened with class %s' % (q['name'], qo['open']), None))
            continue
        ri, seq = byname[key]
        ft = features(f, ri)
        s, e = (0, len(seq)) if q['whole'] else (q['s'], q['e'])
        valid = q['whole'] or (0 <= s <= e <= len(seq))
        if not valid:
            if qo['open'] != 2:
                bad.append(('read:open:bad-range', 'SeqRange(%d,%d) on length %d opened with class %s' % (s, e, len(seq), qo['open']), None))
            continue
        if qo['open'] != 0 or qo.get('eager_open', 0) != 0:
            bad.append((fsig('read:open', ft), 'valid range refused: ' + qo.get('open_msg', ''), None))
            continue
        want = ideal_reads(seq[s:e], q['sizes'])
        # the same script over bytes.Reader and over a ReaderAt that reports io.EOF together with the last bytes of the file
        for rd, pk, tag in (('reads', 'panic', ''), ('eager_reads', 'eager_panic', ':eager-eof-readerat')):
            if qo.get(pk):
                bad.append((fsig('read:panic' + tag, ft), 'Read panicked: %s (query %s)' % (qo[pk], q), None))
                continue
            have = [(r['data'], r['err']) for r in qo.get(rd, [])]
            why = reader_contract(seq[s:e], q['sizes'], have)
            if why:
                bad.append((fsig(why[0] + tag, ft), 'record %s [%d,%d) sizes %s%s: %s; got %s, an ideal reader gives %s' % (
                    bytes(q['name']), s, e, q['sizes'], ' over the eager-EOF ReaderAt' if tag else '', why[1], have, want), want))
    return bad


# ------------------------------------------------------------------ generators

BASES = [ord(c) for c in 'ACGTNacgtn']
NAMECH = [ord(c) for c in 'abcdefghijklmnopqrstuvwxyzABCDEFGHIJKLMNOPQRSTUVWXYZ0123456789._|:-']


def gen_name(rng, used, quote):
    while True:
        n = rng.choice([1, 1, 2, 3, 5, 9])
        name = [rng.choice(NAMECH) if rng.random() < 0.85 else rng.choice([c for c in range(33, 127) if c != 34]) for _ in range(n)]
        if quote:
            name[rng.randrange(len(name))] = 34
        if tuple(name) not in used:
            used.add(tuple(name))
            return name


def gen_desc(rng):
    k = rng.random()
    if k < 0.5:
        return []
    sep = rng.choice([SP, TAB])
    text = [rng.choice([SP, TAB] + list(range(33, 127))) for _ in range(rng.choice([0, 1, 3, 8]))]
    if rng.random() < 0.2:
        text += [SP] * rng.randrange(1, 3)      # trailing white space
    return [sep] + text


def gen_line(rng, w, first):
    l = [rng.choice(BASES) if rng.random() < 0.9 else rng.choice([c for c in range(33, 127) if c != GT]) for _ in range(w)]
    return l


def gen_struct(rng, tier, opts):
    maxrec = 4 if tier == 'quick' else 7
    maxw = 7 if tier == 'quick' else 12
    nrec = rng.choice([1, 2, 2, 3, maxrec])
    filecrlf = rng.random() < 0.4
    mixed = rng.random() < 0.15
    used = set()
    recs = []
    for i in range(nrec):
        w = rng.choice([1, 2, 3, rng.randrange(1, maxw + 1), maxw])
        nfull = rng.choice([0, 0, 1, 2, 3, rng.randrange(0, 6)])
        lastlen = rng.choice([w, w, 1, rng.randrange(1, w + 1)])
        empty = opts.get('empty') and rng.random() < 0.3
        r = dict(name=gen_name(rng, used, opts.get('quote') and i == 0), desc=gen_desc(rng),
                 full=[] if empty else [gen_line(rng, w, True) for _ in range(nfull)],
                 last=[] if empty else gen_line(rng, lastlen, nfull == 0),
                 crlf=(rng.random() < 0.5) if mixed else filecrlf,
                 blanks=[])
        if opts.get('blank') and rng.random() < 0.5:
            r['blanks'] = [(rng.random() < 0.5) if mixed else filecrlf for _ in range(rng.choice([1, 1, 2]))]
        recs.append(r)
    final = rng.random() < 0.6
    if not final:
        recs[-1]['blanks'] = []
    lead = []
    if opts.get('blank') and rng.random() < 0.2:
        lead = [filecrlf for _ in range(rng.choice([1, 2]))]
    return dict(lead=lead, recs=recs, final=final)


def gen_scripts(rng, w, span):
    """Buffer-size scripts for a range of `span` bases on lines of width w."""
    out = [[span + 5, 1],                                   # everything at once
           [1] * (span + 2),                                 # byte by byte
           [max(1, span)] + [1, 1]]                          # exactly the range, then EOF
    out.append([w] * (span // w + 2))
    out.append([w + 1] * (span // (w + 1) + 2))
    out.append([rng.choice([0, 1, 2, 3, w, w + 1, 2 * w, span + 1]) for _ in range(rng.randrange(1, 6))] + [span + 1, 3])
    out.append([rng.randrange(1, 4), -1, span + 1, -1, rng.randrange(1, span + 2), span + 1])   # Reset
    return out


def gen_queries(rng, f, tier):
    qs = []
    budget = 40 if tier == 'quick' else 160
    per = max(6, budget // len(f['recs']))
    for r in f['recs']:
        L = len(seq_of(r))
        w = len(r['full'][0]) if r['full'] else max(1, len(r['last']))
        pairs = set()
        if L <= 6:
            pairs = {(s, e) for s in range(L + 1) for e in range(s, L + 1)}
        marks = sorted({x for x in [0, 1, w - 1, w, w + 1, 2 * w - 1, 2 * w, 2 * w + 1, (L // w) * w, (L // w) * w - 1, L - 1, L, L // 2] if 0 <= x <= L})
        for s in marks:
            for e in marks:
                if s <= e:
                    pairs.add((s, e))
        for _ in range(6):
            s = rng.randrange(0, L + 1)
            pairs.add((s, rng.randrange(s, L + 1)))
        pairs = sorted(pairs)
        rng.shuffle(pairs)
        # always keep the whole range and the range ending at a line end
        keep = [(0, L)] + pairs[:per]
        qs.append(dict(name=r['name'], whole=True, s=0, e=0, sizes=rng.choice(gen_scripts(rng, w, L))))
        for s, e in keep:
            qs.append(dict(name=r['name'], whole=False, s=s, e=e, sizes=rng.choice(gen_scripts(rng, w, e - s))))
        # refused ranges
        if rng.random() < 0.5:
            s, e = rng.choice([(-1, 0), (0, L + 1), (L + 1, L + 1), (2, 1), (0, -1)])
            qs.append(dict(name=r['name'], whole=False, s=s, e=e, sizes=[3]))
    if rng.random() < 0.3:
        qs.append(dict(name=[ord('z')] * 12, whole=rng.random() < 0.5, s=0, e=0, sizes=[3]))
    return qs


def mutate_bytes(rng, data):
    """Malformed / unusual files for the correspondence only (ASCII kept)."""
    d = list(data)
    for _ in range(rng.choice([1, 1, 2, 3])):
        k = rng.random()
        pos = rng.randrange(0, len(d) + 1)
        if k < 0.25 and d:
            d[min(pos, len(d) - 1)] = rng.choice([LF, CR, GT, SP, TAB, 11, 12, 65, 0, 127])
        elif k < 0.5:
            d[pos:pos] = rng.choice([[LF], [SP, LF], [GT, LF], [GT, SP, SP, LF], [65], [SP], [CR, LF], [GT, SP, 100, LF], [LF, LF], [TAB], [65, 67, LF]])
        elif k < 0.65 and d:
            del d[min(pos, len(d) - 1)]
        elif k < 0.8:
            # duplicate a whole line somewhere
            ls = bytes(d).split(b'\n')
            l = list(rng.choice(ls)) + [LF]
            d[pos:pos] = l
        else:
            d = d[:pos]
    return d


def gen_tsv(rng):
    out = []
    names = []
    for _ in range(rng.choice([0, 1, 2, 3, 5])):
        k = rng.random()
        name = [rng.choice(NAMECH + [34, 34, 32, 13]) if rng.random() < 0.3 else rng.choice(NAMECH) for _ in range(rng.choice([0, 1, 2, 4]))]
        if k < 0.15 and names:
            name = rng.choice(names)
        names.append(name)

        def num():
            r = rng.random()
            if r < 0.6:
                return str(rng.choice([0, 1, 9, 10, 99, 100, 12345, rng.randrange(0, 10 ** rng.randrange(1, 19))]))
            if r < 0.7:
                return rng.choice(['-', '+', '', ' 1', '1 ', '1_0', '0x10', '1e3', 'a', '9223372036854775808', '-9223372036854775809', '99999999999999999999999'])
            if r < 0.8:
                return rng.choice(['+7', '-7', '007', '-0', '9223372036854775807', '-9223372036854775808'])
            return str(rng.randrange(0, 1000))
        fields = [num() for _ in range(4)]
        g = rng.random()
        if g < 0.5:
            # a geometry ReadFrom accepts (so that the later arms are reached), or one just outside
            ba = rng.choice([1, 1, 2, 7, 60, 70])
            ln = rng.choice([0, 1, ba - 1, ba, ba + 1, 3 * ba, rng.randrange(0, 1000)])
            by = ba + rng.choice([0, 1, 1, 2, -1 if g < 0.08 else 1])
            if g < 0.05:
                ba, by = 0, rng.choice([0, 1])
                ln = rng.choice([0, 0, 1])
            fields = [str(ln), str(rng.choice([0, 1, 12, rng.randrange(0, 10 ** 6), -1 if g > 0.47 else 3])), str(ba), str(by)]
        elif g < 0.6:
            # the overflow test: offset of the last base around MaxInt64
            ba = rng.choice([1, 2, 60])
            by = ba + rng.choice([0, 1, 2])
            lines = rng.choice([0, 1, 2, 1000, 10 ** 9])
            top = (1 << 63) - 1
            st = top - ba - lines * by + rng.choice([-2, -1, 0, 1, 2, by, -by])
            ln = lines * ba + rng.choice([0, 0, ba - 1, 1])
            fields = [str(ln), str(max(st, 0)), str(ba), str(by)]
        r = rng.random()
        if r < 0.1:
            fields = fields[:rng.randrange(0, 4)]
        elif r < 0.2:
            fields += [num()]
        line = name + [TAB] + [ord(c) for c in '\t'.join(fields)] if fields else name
        r = rng.random()
        out += line + ([CR, LF] if r < 0.2 else [LF])
        if rng.random() < 0.15:
            out += rng.choice([[LF], [CR, LF]])
    if out and rng.random() < 0.25 and out[-1] == LF:
        out = out[:-1]          # last line without LF (possibly ending in CR)
    return out


# ---------------------------------------------------------------- Coq terms

def crec(r):
    return '(mkRec %s %s %s %s %s)' % (clist(r['name']), cz(r['len']), cz(r['start']), cz(r['bases']), cz(r['bytes']))


def cidx(o):
    return '(%s, [%s])' % (cz(o['err']), '; '.join(crec(r) for r in o['recs']))


def cquery(q, qo):
    def reads(rk, pk):
        rs = ['(false, %s, %s)' % (clist(r['data']), cz(r['err'])) for r in qo.get(rk, [])]
        if qo.get(pk):
            rs.append('(true, [], 0)')
        return '[%s]' % '; '.join(rs)
    return '(mkQ %s %s %s %s %s %s %s %s)' % (clist(q['name']), cb(q['whole']), cz(q['s']), cz(q['e']), clist(q['sizes']),
                                             cz(qo['open']), reads('reads', 'panic'), reads('eager_reads', 'eager_panic'))


def cstruct(f):
    rs = ['(mkS %s %s [%s] %s %s %s)' % (clist(r['name']), clist(r['desc']), '; '.join(clist(l) for l in r['full']), clist(r['last']),
                                         cb(r['crlf']), clist(r['blanks'], cb)) for r in f['recs']]
    return '(Some (mkF %s [%s] %s))' % (clist(f['lead'], cb), '; '.join(rs), cb(f['final']))


def in_model_scope(f):
    """The Coq description of well-formed files needs at least one base per record."""
    return all(seq_of(r) for r in f['recs'])


def coq_select(rng, case, o, k):
    """Queries evaluated inside Coq: every refused/panicking one and a random sample of the rest
    (parsing large terms dominates the cost of the correspondence run)."""
    qo = o.get('queries', [])
    idx = list(range(min(len(case['queries']), len(qo))))
    special = [i for i in idx if qo[i]['open'] != 0 or qo[i].get('panic')][:3]
    rest = [i for i in idx if i not in special]
    rng.shuffle(rest)
    return sorted(special + rest[:max(0, k - len(special))])


def coq_case(case, o, sel):
    f = case.get('struct')
    idx = o['idx']
    plain = True
    if idx['err'] == 0:
        tsv = '(%s, %s)' % (cb(plain), clist(o.get('tsv', [])))
        rt = cidx(o['rt']) if plain else '(0, [])'
        qs = '[%s]' % '; '.join(cquery(case['queries'][i], o['queries'][i]) for i in sel)
    else:
        tsv, rt, qs = '(false, [])', '(0, [])', '[]'
    st = cstruct(f) if f is not None else 'None'
    return 'mkCase %s %s %s %s %s %s' % (clist(case['file']), cidx(idx), tsv, rt, qs, st)


# ---------------------------------------------------------------------- run

FAMILIES = [
    ('plain', dict()),
    ('blank', dict(blank=True)),
    ('empty', dict(empty=True, blank=True)),
    ('quote', dict(quote=True)),
]


def gen_cases(rng, tier):
    n = dict(plain=24, blank=30, empty=8, quote=3) if tier == 'quick' else dict(plain=400, blank=400, empty=100, quote=40)
    cases = []
    for fam, opts in FAMILIES:
        for _ in range(n[fam]):
            f = gen_struct(rng, tier, opts)
            cases.append(dict(kind='wf', family=fam, struct=f, file=render(f), queries=gen_queries(rng, f, tier)))
    nm = 30 if tier == 'quick' else 600
    for _ in range(nm):
        f = gen_struct(rng, tier, dict(blank=rng.random() < 0.5))
        data = mutate_bytes(rng, render(f))
        qs = [dict(name=q['name'], whole=q['whole'], s=q['s'], e=q['e'], sizes=q['sizes']) for q in gen_queries(rng, f, tier)[:8]]
        cases.append(dict(kind='mut', family='mutated', struct=None, file=data, queries=qs))
    return cases


MAXTOK = 64 * 1024      # bufio.MaxScanTokenSize: "maximum size used to buffer a token"


def gen_long():
    """Files with one line around the bufio.Scanner limit of NewIndex: (pre, n, post, struct)."""
    A = lambda t: [ord(c) for c in t]
    out = []
    for crlf, n, tail in [(False, MAXTOK - 1, 'rec'), (False, MAXTOK, 'rec'), (True, MAXTOK - 2, 'rec'), (True, MAXTOK - 1, 'rec'),
                          (False, MAXTOK - 1, 'eof'), (False, MAXTOK, 'eof'), (False, MAXTOK - 1, 'nl'), (False, MAXTOK + 5, 'second-line')]:
        t = term(crlf)
        recs = [dict(name=A('L'), desc=A(' long'), full=[], last=[65] * n, crlf=crlf, blanks=[])]
        if tail == 'second-line':
            recs[0]['full'] = [[65] * n]
            recs[0]['last'] = [65, 65]
        if tail in ('rec', 'second-line'):
            recs.append(dict(name=A('b'), desc=[], full=[A('ACG')], last=A('T'), crlf=crlf, blanks=[]))
        f = dict(lead=[], recs=recs, final=tail != 'eof')
        data = render(f)
        i = data.index(65, 8)                       # first base of the long line
        assert data[i:i + n] == [65] * n and (i + n == len(data) or data[i + n] != 65)
        out.append(dict(pre=data[:i], n=n, post=data[i + n:], struct=f, file=data, tail=tail))
    return out


def lines_fit(data):
    """Every line with its terminator at most MAXTOK bytes, an unterminated last line at most MAXTOK-1."""
    i = 0
    while i < len(data):
        try:
            j = data.index(LF, i) + 1
            if j - i > MAXTOK:
                return False
        except ValueError:
            return len(data) - i < MAXTOK
        i = j
    return True


def load_corpus():
    import glob
    import os
    out = []
    for p in sorted(glob.glob(os.path.join(core.ROOT, 'corpus', 'C19', '*.json'))):
        c = json.load(open(p))
        c.setdefault('kind', 'wf')
        c.setdefault('family', 'corpus')
        if c.get('struct') is not None and 'file' not in c:
            c['file'] = render(c['struct'])
        out.append(c)
    return out


def strip(o):
    if isinstance(o, dict):
        return {k: strip(v) for k, v in o.items() if k != 'stack'}
    if isinstance(o, list):
        return [strip(x) for x in o]
    return o


def harness_case(c):
    return dict(file=c['file'], queries=c['queries'])


def judge(res, c, o):
    """Oracle on one well-formed case; returns number of failures appended."""
    n = 0
    for sig, what, exp in oracle(c, o):
        res.failures.append(dict(sig=sig, what=what, case=dict(kind='wf', struct=c['struct'], file=c['file'], queries=c['queries'],
                                                                 text=bytes(c['file']).decode('latin1')),
                                 observed=strip(o), expected=exp))
        n += 1
    return n


def run(res, rng, tier):
    cases = load_corpus() + gen_cases(rng, tier)
    obs = core.run_harness('c19', [harness_case(c) for c in cases], jobs=4)
    terms = []
    ncoq = 0
    nsh = 4 if tier == 'quick' else 16
    for c, o in zip(cases, obs):
        res.evaluations += 1 + 2 * len(c['queries'])     # every query over bytes.Reader and over the eager-EOF ReaderAt
        res.count('file/%s/recs=%d' % (c['family'], len(c['struct']['recs']) if c['struct'] else -1))
        if c['struct'] is not None:
            for r in c['struct']['recs']:
                res.count('record/%s/%s/lines=%s%s' % ('crlf' if r['crlf'] else 'lf', 'desc' if r['desc'] else 'nodesc',
                                                     min(len(r['full']) + (1 if r['last'] else 0), 4),
                                                     '/blank-after' if r['blanks'] else ''))
            if not c['struct']['final']:
                res.count('file/no-final-newline')
        for q in c['queries']:
            res.nontrivial.add((tuple(c['file']), tuple(q['name']), q['whole'], q['s'], q['e'], tuple(q['sizes'])))
        if 'hang' in o or 'crash' in o or 'bad_case' in o or 'garbled' in o or 'panic' in o:
            if c['kind'] == 'wf':
                judge(res, c, o) if ('hang' in o or 'panic' in o) else None
            res.corr_bad.append(dict(case=dict(file=c['file'], text=bytes(c['file']).decode('latin1')), obs=strip(o)))
            continue
        res.count('newindex/err=%d' % o['idx']['err'])
        for qo in o.get('queries', []):
            res.count('query/open=%d%s' % (qo['open'], '/panic' if qo.get('panic') else ''))
        if c['kind'] == 'wf':
            judge(res, c, o)
        sel = coq_select(rng, c, o, 5 if tier == 'quick' else 12)
        ncoq += 1 + len(sel)
        terms.append((c, o, coq_case(c, o, sel)))
    from concurrent.futures import ThreadPoolExecutor
    pool = ThreadPoolExecutor(max_workers=3)
    fut_main = pool.submit(core.coq_mismatches, HEADER, 'c19case', 'c19_agree', [t[2] for t in terms], 'c19', max(12, (len(terms) + nsh - 1) // nsh))
    # lines around the bufio.Scanner limit of NewIndex (64 KiB): index / reads when they fit, an error beyond
    lcases = gen_long() if tier == 'thorough' else gen_long()[:6]
    for lc in lcases:
        L = lc['n']
        w = L
        lc['queries'] = [dict(name=lc['struct']['recs'][0]['name'], whole=False, s=s_, e=e_, sizes=sz) for s_, e_, sz in
                         [(0, 3, [2, 2]), (L - 3, L, [5, 1]), (L - 1, L, [1, 1]), (L, L, [1])]]
        if len(lc['struct']['recs']) > 1:
            lc['queries'].append(dict(name=lc['struct']['recs'][1]['name'], whole=True, s=0, e=0, sizes=[3, 3]))
    lobs = core.run_harness('c19', [dict(long=dict(pre=lc['pre'], n=lc['n'], post=lc['post']), queries=lc['queries']) for lc in lcases])
    lterms = []
    for lc, o in zip(lcases, lobs):
        res.evaluations += 1 + 2 * len(lc['queries'])
        fits = lines_fit(lc['file'])
        res.count('long-line/%s/%s/%s' % ('crlf' if lc['struct']['recs'][0]['crlf'] else 'lf', lc['tail'], 'fits' if fits else 'too-long'))
        res.nontrivial.add(('long', lc['n'], lc['tail'], lc['struct']['recs'][0]['crlf']))
        desc = dict(long_line=dict(pre=bytes(lc['pre']).decode('latin1'), n=lc['n'], post=bytes(lc['post']).decode('latin1')))
        if 'idx' not in o:
            res.failures.append(dict(sig='long-line:' + ('hang' if 'hang' in o else 'panic'), what='NewIndex on a line of %d bases did not return normally' % lc['n'], case=desc, observed=strip(o)))
            continue
        if fits:
            c = dict(kind='wf', family='long', struct=lc['struct'], file=lc['file'], queries=lc['queries'])
            for sig, what, exp in oracle(c, o):
                res.failures.append(dict(sig='long-line:' + sig, what=what[:600], case=desc, observed=dict(idx=strip(o)['idx']), expected=None))
        elif o['idx']['err'] == 0:
            res.failures.append(dict(sig='long-line:accepted', what='a line of %d bytes is beyond the Scanner limit but NewIndex returned an index without error' % (lc['n'] + 1),
                                     case=desc, observed=dict(idx=strip(o)['idx'])))
        lterms.append((lc, o, 'mkLong %s %s %s %s' % (clist(lc['pre']), cz(lc['n']), clist(lc['post']), cidx(o['idx']))))
    fut_long = pool.submit(core.coq_mismatches, HEADER, 'c19long', 'c19_long_agree', [x[2] for x in lterms], 'c19l', 3)
    ncoq += len(lterms)
    # ReadFrom on free TSV text: correspondence only
    ntsv = 80 if tier == 'quick' else 2000
    tcases = [gen_tsv(rng) for _ in range(ntsv)]
    tobs = core.run_harness('c19', [dict(tsv=t, tsv_only=True) for t in tcases])
    tterms = []
    for t, o in zip(tcases, tobs):
        res.evaluations += 1
        if 'rt' not in o:
            res.corr_bad.append(dict(case=dict(tsv=t, text=bytes(t).decode('latin1')), obs=strip(o)))
            continue
        res.count('readfrom/err=%d' % o['rt']['err'])
        res.nontrivial.add(('tsv', tuple(t)))
        tterms.append((t, o, 'mkTsv %s %s' % (clist(t), cidx(o['rt']))))
    ncoq += len(tterms)
    res.extra['traces_validated_against_impl'] = ncoq
    fut_tsv = pool.submit(core.coq_mismatches, HEADER, 'c19tsv', 'c19_tsv_agree', [x[2] for x in tterms], 'c19t', 500)
    bad, err = fut_main.result()
    if err:
        res.corr_bad.append(dict(error=err))
    for i in bad:
        c, o, t = terms[i]
        res.corr_bad.append(dict(case=dict(file=c['file'], text=bytes(c['file']).decode('latin1'), queries=c['queries']), obs=strip(o),
                                 note='Coq model of NewIndex/WriteTo/ReadFrom/Seq.Read (or the rendered structure) disagrees with the implementation'))
    bad, err = fut_long.result()
    if err:
        res.corr_bad.append(dict(error=err))
    for i in bad:
        lc, o, t = lterms[i]
        res.corr_bad.append(dict(case=dict(long_line=dict(pre=bytes(lc['pre']).decode('latin1'), n=lc['n'], post=bytes(lc['post']).decode('latin1'))), obs=dict(idx=strip(o)['idx']),
                                 note='Coq model of NewIndex (Scanner limit) disagrees with the implementation'))
    bad, err = fut_tsv.result()
    if err:
        res.corr_bad.append(dict(error=err))
    for i in bad:
        t, o, _ = tterms[i]
        res.corr_bad.append(dict(case=dict(tsv=t, text=bytes(t).decode('latin1')), obs=strip(o), note='Coq model of ReadFrom disagrees with the implementation'))
    res.rule = ('FASTA files rendered from generated structures: 1..4 (thorough 7) records, widths 1..7 (12), 0..5 full lines plus a last line of 1..width bases '
                '(equal to the width in about half), LF/CRLF per file or per record, with/without final newline, descriptions (SPACE/TAB, trailing white space), '
                'blank lines between/before records, records without sequence, a quote in a name; per record Seq and SeqRange for all (start,end) when length <= 6, '
                'else all pairs of boundary marks (0,1,w-1,w,w+1,2w-1,2w,2w+1,last line start,L-1,L,L/2) sampled, each with one of 7 buffer-size scripts '
                '(all at once, byte by byte, exact, width, width+1, random with zero sizes, with Reset); refused ranges and unknown names; '
                'byte-mutated files and free TSV text for the correspondence only. A case is distinct by (file bytes, name, start, end, size script); '
                'every query is non-trivial (it opens a sequence and calls Read at least once)')
    res.samples = [dict(case=dict(text=bytes(c['file']).decode('latin1'), queries=c['queries'][:2]), observed=dict(idx=strip(o).get('idx'), queries=strip(o).get('queries', [])[:2]))
                   for c, o in list(zip(cases, obs))[:3]]
    res.trusted = TRUSTED
    res.assumptions = ASSUME


def replay(res, rp):
    c = rp.get('case')
    if not c or 'file' not in c:
        print(json.dumps(rp, indent=1)[:4000])
        return 0
    o = core.run_harness('c19', [harness_case(c)])[0]
    print('file     :', repr(bytes(c['file'])))
    print('index    :', strip(o).get('idx'))
    if c.get('struct') is None:
        print('no structure recorded: correspondence case, oracle not applicable')
        return 0
    fails = oracle(c, o)
    for sig, what, exp in fails[:10]:
        print('FAIL', sig, '--', what)
    if not fails:
        print('oracle   : property holds on this input')
    return 1 if fails else 0


TRUSTED = [
    'Coq 8.16.1 kernel (coqc); vm_compute used for case evaluation only',
    'hand-written model coq/Model/Fai.v of NewIndex, WriteTo/ReadFrom, File.Seq/SeqRange, Seq.Read; validated on every run against the implementation on generated, mutated and corpus files (index records, TSV bytes, every Read result, error classes)',
    'gen/emit_fai.go: Record.position / Record.endOfLineOffset translated from the Go AST (Go int/int64 as unbounded Z, division by zero as panic); whether the blank-line arm of NewIndex advances the offset is read off the AST',
    'axioms: none (Print Assumptions: Closed under the global context)',
]
ASSUME = [
    'bytes.TrimSpace is modelled on ASCII input (bytes < 128); files with multi-byte UTF-8 white space are outside the model',
    'the bufio.Scanner with the custom split function is the line tokeniser `lines` with the limit of bufio.MaxScanTokenSize bytes per token (modelled: scan_tokens; an input reader that reports io.EOF on a separate call, as bytes.Reader and os.File do)',
    'ReadFrom splits lines at LF (CR before it dropped) and fields at TAB, without quoting rules (as the code does since the repair of C19-quote-in-name)',
    'the io.ReaderAt under File keeps the io.ReaderAt contract over the file bytes (quantified in the theorems: nil or io.EOF when a full read ends at the end of the file); exercised with bytes.Reader and an eager-EOF double',
    'Go int/int64 arithmetic does not overflow (offsets < 2^63)',
]

CLAIM = dict(
    text='Machine-checked proof (Coq 8.16.1) about an executable model of fai.NewIndex, WriteTo/ReadFrom, File.Seq/SeqRange and Seq.Read: for every well-formed FASTA '
         'structure (any number of records, any widths, LF/CRLF, descriptions, blank lines, with/without final newline) the index of the rendered bytes is the true faidx entry of every record, '
         'every range read with any buffer-size script returns exactly the requested bases and io.EOF as an ideal reader would, and the TSV form round-trips. '
         'position/endOfLineOffset and the blank-line arm are regenerated from the Go source; the model is run against the implementation on every check.',
    note='Trusted: Coq kernel; hand model (validated by correspondence on every run); ASCII TrimSpace; lines within the bufio.Scanner limit (beyond it: proved to be an error); '
         'any contract-conforming ReaderAt (quantified); no integer overflow. No axioms.',
    technique='Coq proof over executable model + source-regenerated arithmetic + vm_compute correspondence + naive FASTA slicer oracle',
    design='6/C19')
