"""C20: ITF-8 / LTF-8 codecs."""
import core
from core import cz, cb, clist

PROPS = 'Props/C20.v'
HEADER = 'From Hts Require Import Base.Prim Generated Model.Itf8Spec Model.Itf8Run.\nOpen Scope Z_scope.'


# --- reference codec written from the CRAM specification text (oracle) -------

def ref_len(u, bits):
    lim = [7, 14, 21, 28] if bits == 32 else [7, 14, 21, 28, 35, 42, 49, 56]
    for i, b in enumerate(lim):
        if u < (1 << b):
            return i + 1
    return len(lim) + 1


def ref_itf8_enc(v):
    u = v & 0xffffffff
    n = ref_len(u, 32)
    if n == 1:
        return [u]
    if n == 5:
        return [0xf0 | (u >> 28), (u >> 20) & 0xff, (u >> 12) & 0xff, (u >> 4) & 0xff, u & 0x0f]
    pre = {2: 0x80, 3: 0xc0, 4: 0xe0}[n]
    return [pre | (u >> (8 * (n - 1)))] + [(u >> (8 * k)) & 0xff for k in range(n - 2, -1, -1)]


def ref_ltf8_enc(v):
    u = v & 0xffffffffffffffff
    n = ref_len(u, 64)
    pre = [0, 0x80, 0xc0, 0xe0, 0xf0, 0xf8, 0xfc, 0xfe, 0xff][n - 1]
    hi = (u >> (8 * (n - 1))) if n < 9 else 0
    return [pre | hi] + [(u >> (8 * k)) & 0xff for k in range(n - 2, -1, -1)]


def lead_ones(b, maxn):
    n = 0
    while n < maxn and b & (0x80 >> n):
        n += 1
    return n


def sgn(u, bits):
    u &= (1 << bits) - 1
    return u - (1 << bits) if u >> (bits - 1) else u


def ref_itf8_dec(b):
    if not b:
        return (0, 0, False)
    n = lead_ones(b[0], 4) + 1
    if len(b) < n:
        return (0, n, False)
    if n == 5:
        u = (b[0] & 0x0f) << 28 | b[1] << 20 | b[2] << 12 | b[3] << 4 | (b[4] & 0x0f)
    else:
        u = b[0] & (0xff >> n)
        for x in b[1:n]:
            u = u << 8 | x
    return (sgn(u, 32), n, True)


def ref_ltf8_dec(b):
    if not b:
        return (0, 0, False)
    n = lead_ones(b[0], 8) + 1
    if len(b) < n:
        return (0, n, False)
    u = (b[0] & (0xff >> n)) if n < 8 else 0
    for x in b[1:n]:
        u = u << 8 | x
    return (sgn(u, 64), n, True)


# --- generators ---------------------------------------------------------------

def strat_values(rng, bits, per):
    vals = set()
    lim = [7, 14, 21, 28] if bits == 32 else [7, 14, 21, 28, 35, 42, 49, 56]
    top = 1 << bits
    edges = [0] + [1 << b for b in lim] + [top]
    for i in range(len(edges) - 1):
        lo, hi = edges[i], edges[i + 1]
        for u in (lo, lo + 1, hi - 1, hi - 2, (lo + hi) // 2):
            if lo <= u < hi:
                vals.add(u)
        for _ in range(per):
            vals.add(rng.randrange(lo, hi))
            # values with a sparse bit pattern exercise single shifts
            u = lo | (1 << rng.randrange(0, bits))
            if lo <= u < hi:
                vals.add(u)
    for k in range(bits):
        for off in (-1, 0, 1):
            vals.add(((1 << k) + off) % top)
    return sorted(sgn(u, bits) for u in vals)


def gen_cases(rng, tier):
    per = 12 if tier == 'quick' else 400
    cases = []
    for v in strat_values(rng, 32, per):
        buf = [rng.randrange(256) for _ in range(rng.choice([5, 5, 6, 9]))]
        cases.append(dict(op='itf8enc', v=v, buf=buf))
    for v in strat_values(rng, 64, per):
        buf = [rng.randrange(256) for _ in range(rng.choice([9, 9, 10, 12]))]
        cases.append(dict(op='ltf8enc', v=v, buf=buf))
    # buffers that are too short: Encode must panic (Go bounds check), never write out of range
    for _ in range(per):
        v = sgn(rng.randrange(1 << 32), 32)
        n = ref_len(v & 0xffffffff, 32)
        cases.append(dict(op='itf8enc', v=v, buf=[0] * rng.randrange(0, n)))
        v = sgn(rng.randrange(1 << 64) >> rng.randrange(0, 64), 64)
        n = ref_len(v & 0xffffffffffffffff, 64)
        cases.append(dict(op='ltf8enc', v=v, buf=[0] * rng.randrange(0, n)))
    # destinations of exactly Len(v), Len(v)+1 and Len(v)-1 bytes for every length class of both codecs
    # (class edges and random members): the first two must succeed, the last must panic without writing
    for bits, op in ((32, 'itf8enc'), (64, 'ltf8enc')):
        lim = [0, 7, 14, 21, 28, 32] if bits == 32 else [0, 7, 14, 21, 28, 35, 42, 49, 56, 64]
        for k in range(1, len(lim)):
            lo, hi = (0 if k == 1 else 1 << lim[k - 1]), 1 << lim[k]
            us = [lo, hi - 1] + [rng.randrange(lo, hi) for _ in range(2 if tier == 'quick' else 40)]
            for u in us:
                n = ref_len(u, bits)
                for ln in (n, n + 1, n - 1):
                    cases.append(dict(op=op, v=sgn(u, bits), buf=[rng.randrange(256) for _ in range(ln)]))
    # decoding arbitrary byte strings of length 0..9(+) over all first-byte classes
    firsts = [0x00, 0x7f, 0x80, 0xbf, 0xc0, 0xdf, 0xe0, 0xef, 0xf0, 0xf7, 0xf8, 0xfb, 0xfc, 0xfd, 0xfe, 0xff]
    reps = 2 if tier == 'quick' else 40
    for op in ('itf8dec', 'ltf8dec'):
        cases.append(dict(op=op, b=[]))
        for f in firsts:
            for ln in range(1, 11):
                for _ in range(reps):
                    first = f if rng.random() < 0.7 else rng.randrange(256)
                    cases.append(dict(op=op, b=[first] + [rng.randrange(256) for _ in range(ln - 1)]))
    return cases


def overlong_itf8(v, rng):
    """A valid ITF-8 encoding of v that may use more bytes than necessary."""
    u = v & 0xffffffff
    n = rng.randrange(ref_len(u, 32), 6)
    if n == ref_len(u, 32):
        out = ref_itf8_enc(v)
    elif n == 5:
        out = [0xf0 | (u >> 28), (u >> 20) & 0xff, (u >> 12) & 0xff, (u >> 4) & 0xff, u & 0x0f]
    else:
        pre = {2: 0x80, 3: 0xc0, 4: 0xe0}[n]
        out = [pre | (u >> (8 * (n - 1)))] + [(u >> (8 * k)) & 0xff for k in range(n - 2, -1, -1)]
    if len(out) == 5 and rng.random() < 0.5:
        out[4] |= rng.randrange(16) << 4
    return out


def overlong_ltf8(v, rng):
    u = v & 0xffffffffffffffff
    n = rng.randrange(ref_len(u, 64), 10)
    pre = [0, 0x80, 0xc0, 0xe0, 0xf0, 0xf8, 0xfc, 0xfe, 0xff][n - 1]
    hi = (u >> (8 * (n - 1))) if n < 9 else 0
    return [pre | hi] + [(u >> (8 * k)) & 0xff for k in range(n - 2, -1, -1)]


def rand_val(rng, bits):
    lim = ([7, 14, 21, 28, 32] if bits == 32 else [7, 14, 21, 28, 35, 42, 49, 56, 64])
    k = rng.randrange(len(lim))
    lo = 0 if k == 0 else 1 << lim[k - 1]
    return sgn(rng.randrange(lo, 1 << lim[k]), bits)


MAXCOUNT = 40


def sim_stream(b, tail, ops):
    """What the property demands of a script of reader calls: per call the values,
    whether an error must be reported, the bytes consumed so far and the furthest
    offset the reader may have asked the source for. Written from the statement:
    an item is announced by its first byte, exactly that many bytes are taken,
    failure exactly when fewer are there; after a failure nothing is read."""
    pos, failed, reqend = 0, False, 0
    steps = []
    danger = None

    def item(dec):
        nonlocal pos, failed, reqend
        if failed:
            return None
        reqend = max(reqend, pos + 1)
        if pos >= len(b):
            failed = True
            return None
        v, n, ok = dec(b[pos:])
        reqend = max(reqend, pos + n)
        if not ok:
            pos = len(b)
            failed = True
            return None
        pos += n
        return v

    for i, op in enumerate(ops):
        if op == 0:
            v = item(ref_itf8_dec)
            vals = [0 if v is None else v]
        elif op == 1:
            v = item(ref_ltf8_dec)
            vals = [0 if v is None else v]
        else:
            vals = []
            cnt = item(ref_itf8_dec)
            if cnt is not None and (cnt < 0 or cnt > MAXCOUNT):
                danger = i
                break
            for _ in range(cnt or 0):
                v = item(ref_itf8_dec)
                if v is None:
                    break
                vals.append(v)
        steps.append(dict(vals=vals, failed=failed, consumed=pos, reqend=reqend))
    return steps, danger


def gen_stream_cases(rng, tier):
    ncase = 260 if tier == 'quick' else 6000
    cases = []
    for k in range(ncase):
        ops, b = [], []
        style = rng.random()
        for _ in range(rng.choice([1, 1, 2, 3, 4, 6])):
            op = rng.choice([0, 0, 1, 1, 2])
            ops.append(op)
            if op == 0:
                b += overlong_itf8(rand_val(rng, 32), rng) if rng.random() < 0.3 else ref_itf8_enc(rand_val(rng, 32))
            elif op == 1:
                b += overlong_ltf8(rand_val(rng, 64), rng) if rng.random() < 0.3 else ref_ltf8_enc(rand_val(rng, 64))
            else:
                cnt = rng.choice([0, 1, 2, 3, 5, 8, 13, MAXCOUNT])
                b += overlong_itf8(cnt, rng) if rng.random() < 0.3 else ref_itf8_enc(cnt)
                for _ in range(cnt):
                    b += ref_itf8_enc(rand_val(rng, 32))
        if style < 0.35 and b:
            b = b[:rng.randrange(len(b))]            # cut anywhere, also inside an item
        elif style < 0.5:
            b += [rng.randrange(256) for _ in range(rng.randrange(1, 4))]
            ops.append(rng.choice([0, 1]))
        elif style < 0.6:
            b = [rng.choice([0x00, 0x7f, 0x80, 0xc0, 0xe0, 0xf0, 0xf8, 0xfc, 0xfe, 0xff, rng.randrange(256)]) for _ in range(rng.randrange(0, 14))]
        if rng.random() < 0.25:
            ops.append(rng.choice([0, 1, 2]))          # one more call: sticky error or clean end of input
        tail = 4 if rng.random() < 0.2 else 1
        # a count that is negative or huge reaches make() (C11's business): read it as a plain number instead
        for _ in range(len(ops) + 1):
            _, danger = sim_stream(b, tail, ops)
            if danger is None:
                break
            ops[danger] = 0
        c = dict(op='stream', b=b, mode=rng.randrange(4), tail=tail, ops=ops)
        if tail != 1:
            # the fault is transient: more data follows it, which a reader that has failed must not touch
            c['after'] = ref_itf8_enc(rand_val(rng, 32)) + [rng.randrange(128) for _ in range(rng.randrange(0, 6))]
        cases.append(c)
    return cases


def stream_oracle(c, o):
    if 'hang' in o:
        return ('stream:hang', 'call did not return')
    if 'panic' in o:
        return ('stream:panic', 'stream reader panicked: ' + o['panic'])
    exp, danger = sim_stream(c['b'], c['tail'], c['ops'])
    if danger is not None:
        return None
    names = {0: 'itf8', 1: 'ltf8'}
    for i, (e, g) in enumerate(zip(exp, o['steps'])):
        nm = names.get(c['ops'][i], 'itf8slice')
        where = 'call %d (%s) on %s' % (i, nm, c['b'])
        if g['consumed'] != e['consumed']:
            kind = 'overread' if g['consumed'] > e['consumed'] else 'underread'
            return ('stream:%s:%s' % (nm, kind), '%s consumed %d bytes of the source in total, the announced lengths say %d' % (where, g['consumed'], e['consumed']))
        if g['reqend'] > e['reqend']:
            return ('stream:%s:overask' % nm, '%s asked the source for bytes up to offset %d, the announced lengths end at %d' % (where, g['reqend'], e['reqend']))
        if (g['err'] != 0) != e['failed']:
            return ('stream:%s:error' % nm, '%s: error %s, but the input is %s' % (where, g.get('msg'), 'short' if e['failed'] else 'complete'))
        if e['failed'] and c['tail'] != 1 and g['err'] != 4:
            return ('stream:%s:errorlost' % nm, "%s: the source's own error was replaced by %s" % (where, g.get('msg')))
        if e['failed'] and c['tail'] == 1 and g['err'] not in (1, 2):
            return ('stream:%s:errorclass' % nm, '%s: short input reported as %s' % (where, g.get('msg')))
        if g['vals'] != e['vals']:
            return ('stream:%s:value' % nm, '%s returned %s, specification %s' % (where, g['vals'], e['vals']))
    return None


def coq_term(c, o):
    if c['op'] == 'stream':
        if 'panic' in o:
            return 'Strm %s %d %s true []' % (clist(c['b']), c['tail'], clist(c['ops']))
        steps = '[' + '; '.join('(%s, %d, %d)' % (clist(g['vals']), g['err'], g['consumed']) for g in o['steps']) + ']'
        return 'Strm %s %d %s false %s' % (clist(c['b']), c['tail'], clist(c['ops']), steps)
    if c['op'] in ('itf8enc', 'ltf8enc'):
        ctor = 'EncI' if c['op'] == 'itf8enc' else 'EncL'
        if 'panic' in o:
            return '%s %s %s true 0 [] 0' % (ctor, cz(c['v']), clist(c['buf']))
        return '%s %s %s false %s %s %s' % (ctor, cz(c['v']), clist(c['buf']), cz(o['n']), clist(o['buf']), cz(o['len']))
    if 'panic' in o:
        return 'DecPanic %s %s' % (cb(c['op'] == 'ltf8dec'), clist(c['b']))
    ctor = 'DecI' if c['op'] == 'itf8dec' else 'DecL'
    return '%s %s %s %s %s' % (ctor, clist(c['b']), cz(o['v']), cz(o['n']), cb(o['ok']))


def oracle(c, o):
    """Returns (sig, what) when the property fails on this observation."""
    op = c['op']
    if op == 'stream':
        return stream_oracle(c, o)
    if 'hang' in o:
        return (op + ':hang', 'call did not return')
    if op.endswith('enc'):
        bits = 32 if op == 'itf8enc' else 64
        ref = ref_itf8_enc(c['v']) if bits == 32 else ref_ltf8_enc(c['v'])
        n = len(ref)
        if 'panic' in o:
            if len(c['buf']) >= n:
                return ('%s:n%d:panic' % (op, n), 'Encode(%d) panicked with a destination of %d bytes, Len is %d: %s' % (c['v'], len(c['buf']), n, o['panic']))
            if 'buf' in o and o['buf'] != c['buf']:
                return ('%s:n%d:partialwrite' % (op, n), 'Encode wrote into a destination that is too short before panicking: %s -> %s' % (c['buf'], o['buf']))
            return None
        if len(c['buf']) < n:
            return ('%s:n%d:shortbuf' % (op, n), 'Encode returned although the buffer is shorter than the encoding')
        if o['n'] != n or o['len'] != n:
            return ('%s:n%d:length' % (op, n), 'bytes written %s / Len %s differ from the specified length %d' % (o['n'], o['len'], n))
        out = o['buf'][:n]
        canon = list(out)
        if bits == 32 and n == 5:
            canon[4] &= 0x0f
        if canon != ref:
            return ('%s:n%d:bytes' % (op, n), 'encoded bytes %s differ from the CRAM specification %s' % (out, ref))
        if o['buf'][n:] != c['buf'][n:]:
            return ('%s:n%d:overwrite' % (op, n), 'Encode wrote beyond the bytes it reports')
        if not o['dok'] or o['dv'] != c['v'] or o['dn'] != n:
            return ('%s:n%d:roundtrip' % (op, n), 'Decode(Encode(%d)) = (%s, %s, %s)' % (c['v'], o['dv'], o['dn'], o['dok']))
        return None
    ref = ref_itf8_dec(c['b']) if op == 'itf8dec' else ref_ltf8_dec(c['b'])
    if 'panic' in o:
        return (op + ':panic', 'Decode panicked: ' + o['panic'])
    got = (o['v'], o['n'], o['ok'])
    if got != ref:
        return ('%s:n%d:value' % (op, ref[1]), 'Decode(%s) = %s, specification says %s' % (c['b'], got, ref))
    return None


class BigSet(set):
    """Distinct non-trivial inputs: explicit keys plus the int32 values swept inside the Go harness
    (size of the union of the swept intervals; random batches are not counted here)."""
    extra = 0

    def __len__(self):
        return set.__len__(self) + self.extra


def bulk_jobs(rng, tier):
    """Checks that run inside the Go harness against its own reference codec (one summary observation each)."""
    jobs = []
    if tier == 'quick':
        # every int32 around each length-class boundary, around zero and both ends, plus random windows
        for edge in (0, 1 << 7, 1 << 14, 1 << 21, 1 << 28, 1 << 31):
            for sign in (1, -1):
                mid = sign * edge
                lo, hi = max(mid - (1 << 15), -(1 << 31)), min(mid + (1 << 15), 1 << 31)
                if lo < hi:
                    jobs.append(dict(op='sweep32', lo=lo, hi=hi))
        for _ in range(4):
            lo = rng.randrange(-(1 << 31), (1 << 31) - (1 << 18))
            jobs.append(dict(op='sweep32', lo=lo, hi=lo + (1 << 18)))
        jobs.append(dict(op='batch64', seed=rng.randrange(1 << 30), n=400000))
        jobs.append(dict(op='decbatch', seed=rng.randrange(1 << 30), n=400000))
    else:
        jobs.append(dict(op='sweep32', lo=-(1 << 31), hi=1 << 31))
        jobs.append(dict(op='batch64', seed=rng.randrange(1 << 30), n=400000000))
        jobs.append(dict(op='decbatch', seed=rng.randrange(1 << 30), n=200000000))
    return jobs


def cases_of_bad(bad, rng):
    """Concrete cases for the ordinary harness path from a failing value reported by a bulk job."""
    op = bad['op']
    if op in ('itf8dec', 'ltf8dec'):
        b = bad.get('b') or []
        n = (ref_itf8_dec(b) if op == 'itf8dec' else ref_ltf8_dec(b))[1]
        return [dict(op=op, b=b), dict(op=op, b=b[:n])]
    v = bad['v']
    enc = ref_itf8_enc(v) if op == 'itf8enc' else ref_ltf8_enc(v)
    dec = 'itf8dec' if op == 'itf8enc' else 'ltf8dec'
    out = [dict(op=op, v=v, buf=[0xa5] * (len(enc) + k)) for k in (3, 0, 1, 2)] + [dict(op=dec, b=enc), dict(op=dec, b=enc + [rng.randrange(256)])]
    if op == 'itf8enc' and len(enc) == 5:
        out.append(dict(op=dec, b=enc[:4] + [enc[4] | 0xf0]))
    return out


def run(res, rng, tier):
    import time
    t0 = time.time()
    res.nontrivial = BigSet()
    cases = gen_cases(rng, tier) + gen_stream_cases(rng, tier)
    obs = core.run_harness('c20', cases, jobs=4)
    # bulk checks inside the harness; failing values come back and are re-run as ordinary cases
    jobs = bulk_jobs(rng, tier)
    jobs_obs = core.run_harness('c20', jobs, case_timeout='3000s', timeout=7200)
    bulk = {}
    extra_cases = []
    swept = []
    for j, o in zip(jobs, jobs_obs):
        d = bulk.setdefault(j['op'], dict(checked=0, nbad=0))
        if 'checked' not in o:
            res.corr_bad.append(dict(case=j, obs={k: v for k, v in o.items() if k != 'stack'}, note='bulk check did not complete'))
            continue
        d['checked'] += o['checked']
        d['nbad'] += o['nbad']
        res.evaluations += o['checked']
        if j['op'] == 'sweep32':
            swept.append((j['lo'], j['hi']))
        res.count('%s/in-harness' % j['op'], o['checked'])
        unre = []
        for bad in (o.get('bad') or []):
            cs = cases_of_bad(bad, rng)
            os_ = core.run_harness('c20', cs)
            hit = [(c, x) for c, x in zip(cs, os_) if oracle(c, x)]
            if hit:
                extra_cases.extend(hit[:1])
            else:
                unre.append(bad)
        for bad in unre:
            res.failures.append(dict(sig='%s:bulk' % bad['op'], what='in-harness reference check: ' + bad['what'], case=bad, observed=bad))
    # distinct swept int32 values: size of the union of the swept intervals (windows may overlap);
    # random batches may repeat values and are counted as evaluations only
    end = None
    for lo, hi in sorted(swept):
        if end is None or lo > end:
            res.nontrivial.extra += hi - lo
            end = hi
        elif hi > end:
            res.nontrivial.extra += hi - end
            end = hi
    res.extra['bulk_checks'] = bulk
    for c, o in extra_cases:
        cases.append(c)
        obs.append(o)
    t1 = time.time()
    terms = []
    for c, o in zip(cases, obs):
        res.evaluations += 1
        op = c['op']
        if op == 'stream':
            key = (op, tuple(c['b']), c['tail'], tuple(c['ops']))
            st = o.get('steps') or []
            res.count('stream/ops=%d/%s' % (len(c['ops']), 'fails' if any(g['err'] for g in st) else 'clean'))
        elif op.endswith('enc'):
            key = (op, c['v'], len(c['buf']))
            res.count('%s/n=%s%s' % (op, o.get('n', '-'), '/panic' if 'panic' in o else ''))
        else:
            key = (op, tuple(c['b']))
            res.count('%s/len=%d/ok=%s' % (op, len(c['b']), o.get('ok')))
        res.nontrivial.add(key)
        if 'hang' in o or 'crash' in o or 'bad_case' in o or 'garbled' in o:
            res.failures.append(dict(sig=op + (':hang' if 'hang' in o else ':crash'), what='the call did not complete in the harness', case=c,
                                     observed={k: v for k, v in o.items() if k != 'stack'}))
            continue
        try:
            f = oracle(c, o)
            term = coq_term(c, o)
        except (KeyError, TypeError, IndexError) as e:
            res.failures.append(dict(sig=op + ':malformed-observation', what='observation lacks a field: %r' % (e,), case=c,
                                     observed={k: v for k, v in o.items() if k != 'stack'}))
            continue
        if f:
            res.failures.append(dict(sig=f[0], what=f[1], case=c, observed={k: v for k, v in o.items() if k != 'stack'}))
        terms.append((c, o, term))
    bad, err = core.coq_mismatches(HEADER, 'c20case', 'c20_agree', [t[2] for t in terms], 'c20', shard=800 if tier == 'quick' else 1500)
    if err:
        res.corr_bad.append(dict(error=err))
    for i in bad:
        c, o, t = terms[i]
        res.corr_bad.append(dict(case=c, obs={k: v for k, v in o.items() if k != 'stack'}, coq_case=t,
                                 note='generated Gallina translation / stream model / specification codec disagree with the implementation'))
    t2 = time.time()
    # prefix agreement (no over-read), on the implementation
    dec = [(c, o) for c, o in zip(cases, obs) if c['op'].endswith('dec') and o.get('ok')]
    pre = [dict(op=c['op'], b=c['b'][:o['n']]) for c, o in dec]
    pobs = core.run_harness('c20', pre, jobs=4)
    for (c, o), po in zip(dec, pobs):
        res.evaluations += 1
        if (po.get('v'), po.get('n'), po.get('ok')) != (o['v'], o['n'], o['ok']):
            res.failures.append(dict(sig=c['op'] + ':overread', what='Decode of %s depends on bytes beyond the announced length' % c['b'], case=c, observed=o, expected=po))
    # the stream readers must not depend on how the source cuts its bytes into Read calls
    strm = [(c, o) for c, o in zip(cases, obs) if c['op'] == 'stream' and 'steps' in o]
    alt = [dict(c, mode=(c['mode'] + 1 + k % 3) % 4) for k, (c, o) in enumerate(strm)]
    aobs = core.run_harness('c20', alt, jobs=4)
    for (c, o), ac, ao in zip(strm, alt, aobs):
        res.evaluations += 1
        proj = lambda x: [(g['vals'], g['err'], g['consumed']) for g in x.get('steps', [])]
        if proj(o) != proj(ao):
            res.failures.append(dict(sig='stream:chunking', what='the result depends on how the source delivers its bytes (mode %d vs %d)' % (c['mode'], ac['mode']), case=ac, observed=ao, expected=o))
    res.extra['phase_seconds'] = dict(harness=round(t1 - t0, 1), coq_cases=round(t2 - t1, 1), rest=round(time.time() - t2, 1))
    res.rule = ('codec calls stratified by encoded length (all 5 ITF-8 / 9 LTF-8 classes, both edges of each class, powers of two +-1, random fill), '
                'random destination buffers incl. too short ones, destinations of exactly Len, Len+1 and Len-1 bytes for every length class (edges and random members), byte strings of length 0..10 over 16 first-byte classes; '
                'scripts of 1..7 errorReader calls (itf8, ltf8, itf8slice) over concatenated canonical and over-long encodings, cut at arbitrary '
                'offsets or followed by junk, four ways of chunking the source, EOF or a fault at the end; '
                'a case is distinct by (op, value, buffer length), (op, bytes) or (bytes, tail, script); all are non-trivial (every one runs codec arithmetic). '
                'In-harness bulk checks against the reference codec count one evaluation per value (distinct: the size of the union of the swept int32 intervals; a swept value that also occurs in an explicit case is a different case, its destination buffer differs): '
                + ('all 2^32 int32 values' if tier != 'quick' else 'every int32 within 2^15 of each length-class boundary and four random windows of 2^18')
                + ', random int64 uniform over the nine length classes, random byte strings decoded by both codecs.')
    res.samples = [dict(case=c, observed={k: v for k, v in o.items() if k != 'stack'}) for c, o in list(zip(cases, obs))[:3] + list(zip(cases, obs))[-2:]]
    res.trusted = TRUSTED
    res.assumptions = ASSUME


def replay(res, rp):
    c = rp.get('case')
    if not c or 'op' not in c or c['op'] not in ('itf8enc', 'ltf8enc', 'itf8dec', 'ltf8dec', 'stream'):
        print(json_dumps(rp))
        return 0
    o = core.run_harness('c20', [c])[0]
    print('case     :', c)
    print('observed :', {k: v for k, v in o.items() if k != 'stack'})
    print('oracle   :', oracle(c, o))
    return 1 if oracle(c, o) else 0


def json_dumps(x):
    import json
    return json.dumps(x, indent=1)


TRUSTED = [
    'Coq 8.16.1 kernel (coqc; coqchk in the thorough tier); vm_compute used for case evaluation only; no native_compute',
    'translator /verif/gen (Go AST -> Gallina for Len/Encode/Decode of itf8 and ltf8: fixed-width wrap, bounds-checked indexing); validated on every run by evaluating the generated functions on the cases the implementation ran',
    'hand model of errorReader.Read/itf8/ltf8/itf8slice and io.ReadFull over a list-shaped source (coq/Model/CramStream.v); validated on every run against the implementation through cram/verif_hooks_c20.go, four ways of chunking the source',
    'Go int (64 bit) is modelled as unbounded Z; sized integer types wrap explicitly',
    'axioms: none (Print Assumptions: Closed under the global context)',
]
ASSUME = [
    'math/bits.LeadingZeros8 is modelled by Base.Prim.clz8',
    'the high nibble of the fifth ITF-8 byte is not significant (CRAM section 2.3; decoders mask it)',
    'the source under the stream readers follows the io.Reader contract (an error returned together with data is returned again by the next call)',
    'itf8slice counts are between 0 and 40 in generated scripts: a negative count panics in make() and a huge one only allocates (both belong to C11)',
]

CLAIM = dict(
    text='Machine-checked proof (Coq 8.16.1) about the Gallina translation of itf8/ltf8 Len, Encode, Decode that /verif/gen regenerates from the Go source on every run: '
         'round trip for every int32 and every int64, bytes equal the CRAM encoding, Encode into a buffer of any length panics exactly when it is too short and otherwise writes Len bytes and nothing else, '
         'Decode equals the specification decoder on every byte string (so it never panics, never looks past the announced length and fails exactly on short input). '
         'The stream readers of cram.go (itf8, ltf8, itf8slice over errorReader/io.ReadFull) are modelled by hand around the generated decoders and proved to take exactly the announced bytes, '
         'to fail exactly on short input, to read nothing after a failure, and never to block, for every input and every script of calls. '
         'Translation and stream model are validated on every run by evaluating them inside Coq on the cases the implementation ran; an independent reference codec judges the implementation '
         '(all 2^32 int32 values in the thorough tier).',
    note='Trusted: Coq kernel; the translator gen/ (expression/statement subset, fixed-width wrap, bounds-checked indexing; Go int as unbounded Z); '
         'the hand model of io.ReadFull/errorReader over a byte list; clz8 models math/bits.LeadingZeros8; high nibble of the 5th ITF-8 byte treated as insignificant. '
         'No axioms (Print Assumptions: closed). Negative or huge itf8slice counts (panic / allocation in make) are left to C11.',
    technique='Coq proof over source-regenerated Gallina + hand model of the stream readers + vm_compute correspondence + spec oracle (Python and Go reference codecs)',
    design='6/C20')
