"""C20: ITF-8 / LTF-8 codecs."""
import core
from core import cz, cb, clist

PROPS = 'Props/C20.v'
HEADER = 'From Hts Require Import Base.Prim Generated Model.Itf8Spec Model.Itf8Run.\nOpen Scope Z_scope.'


# --- reference codec written from the CRAM specification text (oracle) -------

def ref_len(u, bits):
    lim = [7, 14, 21, 28] if bits == 32 else [7, 14, 21, 28, 35, 42, 49, 56]
    for i, b in enumerate(lim):
        if u < (1 << b):
            return i + 1
    return len(lim) + 1


def ref_itf8_enc(v):
    u = v & 0xffffffff
    n = ref_len(u, 32)
    if n == 1:
        return [u]
    if n == 5:
        return [0xf0 | (u >> 28), (u >> 20) & 0xff, (u >> 12) & 0xff, (u >> 4) & 0xff, u & 0x0f]
    pre = {2: 0x80, 3: 0xc0, 4: 0xe0}[n]
    return [pre | (u >> (8 * (n - 1)))] + [(u >> (8 * k)) & 0xff for k in range(n - 2, -1, -1)]


def ref_ltf8_enc(v):
    u = v & 0xffffffffffffffff
    n = ref_len(u, 64)
    pre = [0, 0x80, 0xc0, 0xe0, 0xf0, 0xf8, 0xfc, 0xfe, 0xff][n - 1]
    hi = (u >> (8 * (n - 1))) if n < 9 else 0
    return [pre | hi] + [(u >> (8 * k)) & 0xff for k in range(n - 2, -1, -1)]


def lead_ones(b, maxn):
    n = 0
    while n < maxn and b & (0x80 >> n):
        n += 1
    return n


def sgn(u, bits):
    u &= (1 << bits) - 1
    return u - (1 << bits) if u >> (bits - 1) else u


def ref_itf8_dec(b):
    if not b:
        return (0, 0, False)
    n = lead_ones(b[0], 4) + 1
    if len(b) < n:
        return (0, n, False)
    if n == 5:
        u = (b[0] & 0x0f) << 28 | b[1] << 20 | b[2] << 12 | b[3] << 4 | (b[4] & 0x0f)
    else:
        u = b[0] & (0xff >> n)
        for x in b[1:n]:
            u = u << 8 | x
    return (sgn(u, 32), n, True)


def ref_ltf8_dec(b):
    if not b:
        return (0, 0, False)
    n = lead_ones(b[0], 8) + 1
    if len(b) < n:
        return (0, n, False)
    u = (b[0] & (0xff >> n)) if n < 8 else 0
    for x in b[1:n]:
        u = u << 8 | x
    return (sgn(u, 64), n, True)


# --- generators ---------------------------------------------------------------

def strat_values(rng, bits, per):
    vals = set()
    lim = [7, 14, 21, 28] if bits == 32 else [7, 14, 21, 28, 35, 42, 49, 56]
    top = 1 << bits
    edges = [0] + [1 << b for b in lim] + [top]
    for i in range(len(edges) - 1):
        lo, hi = edges[i], edges[i + 1]
        for u in (lo, lo + 1, hi - 1, hi - 2, (lo + hi) // 2):
            if lo <= u < hi:
                vals.add(u)
        for _ in range(per):
            vals.add(rng.randrange(lo, hi))
            # values with a sparse bit pattern exercise single shifts
            u = lo | (1 << rng.randrange(0, bits))
            if lo <= u < hi:
                vals.add(u)
    for k in range(bits):
        for off in (-1, 0, 1):
            vals.add(((1 << k) + off) % top)
    return sorted(sgn(u, bits) for u in vals)


def gen_cases(rng, tier):
    per = 12 if tier == 'quick' else 400
    cases = []
    for v in strat_values(rng, 32, per):
        buf = [rng.randrange(256) for _ in range(rng.choice([5, 5, 6, 9]))]
        cases.append(dict(op='itf8enc', v=v, buf=buf))
    for v in strat_values(rng, 64, per):
        buf = [rng.randrange(256) for _ in range(rng.choice([9, 9, 10, 12]))]
        cases.append(dict(op='ltf8enc', v=v, buf=buf))
    # buffers that are too short: Encode must panic (Go bounds check), never write out of range
    for _ in range(per):
        v = sgn(rng.randrange(1 << 32), 32)
        n = ref_len(v & 0xffffffff, 32)
        cases.append(dict(op='itf8enc', v=v, buf=[0] * rng.randrange(0, n)))
        v = sgn(rng.randrange(1 << 64) >> rng.randrange(0, 64), 64)
        n = ref_len(v & 0xffffffffffffffff, 64)
        cases.append(dict(op='ltf8enc', v=v, buf=[0] * rng.randrange(0, n)))
    # decoding arbitrary byte strings of length 0..9(+) over all first-byte classes
    firsts = [0x00, 0x7f, 0x80, 0xbf, 0xc0, 0xdf, 0xe0, 0xef, 0xf0, 0xf7, 0xf8, 0xfb, 0xfc, 0xfd, 0xfe, 0xff]
    reps = 2 if tier == 'quick' else 40
    for op in ('itf8dec', 'ltf8dec'):
        cases.append(dict(op=op, b=[]))
        for f in firsts:
            for ln in range(1, 11):
                for _ in range(reps):
                    first = f if rng.random() < 0.7 else rng.randrange(256)
                    cases.append(dict(op=op, b=[first] + [rng.randrange(256) for _ in range(ln - 1)]))
    return cases


def coq_term(c, o):
    if c['op'] in ('itf8enc', 'ltf8enc'):
        ctor = 'EncI' if c['op'] == 'itf8enc' else 'EncL'
        if 'panic' in o:
            return '%s %s %s true 0 [] 0' % (ctor, cz(c['v']), clist(c['buf']))
        return '%s %s %s false %s %s %s' % (ctor, cz(c['v']), clist(c['buf']), cz(o['n']), clist(o['buf']), cz(o['len']))
    ctor = 'DecI' if c['op'] == 'itf8dec' else 'DecL'
    return '%s %s %s %s %s' % (ctor, clist(c['b']), cz(o['v']), cz(o['n']), cb(o['ok']))


def oracle(c, o):
    """Returns (sig, what) when the property fails on this observation."""
    op = c['op']
    if 'hang' in o:
        return (op + ':hang', 'call did not return')
    if op.endswith('enc'):
        bits = 32 if op == 'itf8enc' else 64
        ref = ref_itf8_enc(c['v']) if bits == 32 else ref_ltf8_enc(c['v'])
        n = len(ref)
        if 'panic' in o:
            if len(c['buf']) >= n:
                return ('%s:n%d:panic' % (op, n), 'Encode panicked with a large enough buffer: ' + o['panic'])
            return None
        if len(c['buf']) < n:
            return ('%s:n%d:shortbuf' % (op, n), 'Encode returned although the buffer is shorter than the encoding')
        if o['n'] != n or o['len'] != n:
            return ('%s:n%d:length' % (op, n), 'bytes written %s / Len %s differ from the specified length %d' % (o['n'], o['len'], n))
        out = o['buf'][:n]
        canon = list(out)
        if bits == 32 and n == 5:
            canon[4] &= 0x0f
        if canon != ref:
            return ('%s:n%d:bytes' % (op, n), 'encoded bytes %s differ from the CRAM specification %s' % (out, ref))
        if o['buf'][n:] != c['buf'][n:]:
            return ('%s:n%d:overwrite' % (op, n), 'Encode wrote beyond the bytes it reports')
        if not o['dok'] or o['dv'] != c['v'] or o['dn'] != n:
            return ('%s:n%d:roundtrip' % (op, n), 'Decode(Encode(%d)) = (%s, %s, %s)' % (c['v'], o['dv'], o['dn'], o['dok']))
        return None
    ref = ref_itf8_dec(c['b']) if op == 'itf8dec' else ref_ltf8_dec(c['b'])
    if 'panic' in o:
        return (op + ':panic', 'Decode panicked: ' + o['panic'])
    got = (o['v'], o['n'], o['ok'])
    if got != ref:
        return ('%s:n%d:value' % (op, ref[1]), 'Decode(%s) = %s, specification says %s' % (c['b'], got, ref))
    return None


def run(res, rng, tier):
    cases = gen_cases(rng, tier)
    # decoding a string and its announced-length prefix must agree (no over-read)
    obs = core.run_harness('c20', cases, jobs=4)
    terms = []
    for c, o in zip(cases, obs):
        res.evaluations += 1
        op = c['op']
        if op.endswith('enc'):
            key = (op, c['v'], len(c['buf']))
            res.count('%s/n=%s%s' % (op, o.get('n', '-'), '/panic' if 'panic' in o else ''))
        else:
            key = (op, tuple(c['b']))
            res.count('%s/len=%d/ok=%s' % (op, len(c['b']), o.get('ok')))
        res.nontrivial.add(key)
        f = oracle(c, o)
        if f:
            res.failures.append(dict(sig=f[0], what=f[1], case=c, observed={k: v for k, v in o.items() if k != 'stack'}))
        if 'hang' in o or 'crash' in o or 'bad_case' in o:
            res.corr_bad.append(dict(case=c, obs=o))
            continue
        terms.append((c, o, coq_term(c, o)))
    bad, err = core.coq_mismatches(HEADER, 'c20case', 'c20_agree', [t[2] for t in terms], 'c20')
    if err:
        res.corr_bad.append(dict(error=err))
    for i in bad:
        c, o, t = terms[i]
        res.corr_bad.append(dict(case=c, obs={k: v for k, v in o.items() if k != 'stack'}, coq_case=t,
                                 note='generated Gallina translation / specification codec disagree with the implementation'))
    # prefix agreement (no over-read), on the implementation
    dec = [(c, o) for c, o in zip(cases, obs) if c['op'].endswith('dec') and o.get('ok')]
    pre = [dict(op=c['op'], b=c['b'][:o['n']]) for c, o in dec]
    pobs = core.run_harness('c20', pre, jobs=4)
    for (c, o), po in zip(dec, pobs):
        res.evaluations += 1
        if (po.get('v'), po.get('n'), po.get('ok')) != (o['v'], o['n'], o['ok']):
            res.failures.append(dict(sig=c['op'] + ':overread', what='Decode of %s depends on bytes beyond the announced length' % c['b'], case=c, observed=o, expected=po))
    res.rule = ('stratified by encoded length (all 5 ITF-8 / 9 LTF-8 classes, both edges of each class, powers of two +-1, random fill), '
                'random destination buffers incl. too short ones, byte strings of length 0..10 over 16 first-byte classes; '
                'a case is distinct by (op, value, buffer length) or (op, bytes); all are non-trivial (every one runs codec arithmetic)')
    res.samples = [dict(case=c, observed={k: v for k, v in o.items() if k != 'stack'}) for c, o in list(zip(cases, obs))[:3] + list(zip(cases, obs))[-2:]]
    res.trusted = TRUSTED
    res.assumptions = ASSUME


def replay(res, rp):
    c = rp.get('case')
    if not c:
        print(json_dumps(rp))
        return 0
    o = core.run_harness('c20', [c])[0]
    print('case     :', c)
    print('observed :', o)
    print('oracle   :', oracle(c, o))
    return 1 if oracle(c, o) else 0


def json_dumps(x):
    import json
    return json.dumps(x, indent=1)


TRUSTED = [
    'Coq 8.16.1 kernel (coqc); vm_compute used for case evaluation only; no native_compute',
    'translator /verif/gen (Go AST -> Gallina for Len/Encode/Decode of itf8 and ltf8: fixed-width wrap, bounds-checked indexing); validated on every run by evaluating the generated functions on the cases the implementation ran',
    'Go int (64 bit) is modelled as unbounded Z; sized integer types wrap explicitly',
    'axioms: none (Print Assumptions: Closed under the global context)',
]
ASSUME = [
    'math/bits.LeadingZeros8 is modelled by Base.Prim.clz8',
    'the high nibble of the fifth ITF-8 byte is not significant (CRAM section 2.3; decoders mask it)',
]

CLAIM = dict(
    text='Machine-checked proof (Coq 8.16.1) about the Gallina translation of itf8/ltf8 Len, Encode, Decode that /verif/gen regenerates from the Go source on every run: '
         'round trip for every int32/int64, bytes equal the CRAM encoding, Decode equals the specification decoder on every byte string (so it never panics, '
         'never looks past the announced length and fails exactly on short input). The translation is validated on every run by evaluating it inside Coq on the cases the implementation ran.',
    note='Trusted: Coq kernel; the translator gen/ (expression/statement subset, fixed-width wrap, bounds-checked indexing; Go int as unbounded Z); '
         'clz8 models math/bits.LeadingZeros8; high nibble of the 5th ITF-8 byte treated as insignificant. No axioms (Print Assumptions: closed). '
         'The stream readers in cram.go are exercised by correspondence only.',
    technique='Coq proof over source-regenerated Gallina + vm_compute correspondence + spec oracle',
    design='6/C20')
