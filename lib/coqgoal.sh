#!/bin/bash
# usage: coqgoal.sh File.v LINE  -> prints goals after executing up to (and including) line LINE
f=$1; n=$2
head -n $n $f > /tmp/_goal_$$.v
echo "Show. " >> /tmp/_goal_$$.v
(cd /verif/coq && coqtop -Q . Hts -batch -l /tmp/_goal_$$.v 2>&1 | tail -${3:-60})
rm -f /tmp/_goal_$$.v
