#!/bin/bash
# usage: lib/coqgoal.sh Proofs/File.v LINE [TAIL]  -> goals after executing the file up to and including LINE
here=$(cd "$(dirname "$0")/.." && pwd)
f=$1; n=$2
tmp=$(mktemp /tmp/_goal_XXXXXX.v)
(cd "$here/coq" && head -n "$n" "$f" > "$tmp"; echo "Show. " >> "$tmp"; timeout 600 coqtop -Q . Hts -batch -l "$tmp" 2>&1 | tail -"${3:-60}")
rm -f "$tmp"
