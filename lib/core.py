"""Common machinery of the /verif checks: build steps, Coq evaluation of the
model on case files, proof audit, known findings, evidence and replay files."""
import fcntl
import json
import os
import random
import re
import subprocess
import sys
import time
from concurrent.futures import ThreadPoolExecutor

ROOT = os.path.dirname(os.path.dirname(os.path.abspath(__file__)))
COQ = os.path.join(ROOT, 'coq')
WORK = os.path.join(ROOT, '.work')
BIN = os.path.join(ROOT, 'bin')
REPO = os.environ.get('VERIF_REPO', '/repo')

GOENV = dict(os.environ, GOFLAGS='-mod=mod', GOPROXY='off', GOSUMDB='off',
             GOTOOLCHAIN='local', CGO_ENABLED='0')

AUDIT_RE = re.compile(r'Admitted|admit\b|\bAxiom\b|\bParameter\b|\bConjecture\b|Unset Guard|bypass_check|type-in-type|Admit Obligations|Unset Positivity|Unset Universe')

# Standard-library axioms that a theorem may depend on (named in DESIGN.md section 8).
ALLOWED_AXIOMS = {
    'functional_extensionality_dep', 'FunctionalExtensionality.functional_extensionality_dep',
}


def log(*a):
    print(*a, file=sys.stderr, flush=True)


def sh(cmd, cwd=None, env=None, timeout=None, inp=None):
    p = subprocess.run(cmd, cwd=cwd, env=env or GOENV, timeout=timeout, input=inp,
                       stdout=subprocess.PIPE, stderr=subprocess.STDOUT, text=True, errors='replace')
    return p.returncode, p.stdout


class Lock:
    def __init__(self, name='build'):
        os.makedirs(WORK, exist_ok=True)
        self.path = os.path.join(WORK, name + '.lock')

    def __enter__(self):
        self.f = open(self.path, 'w')
        fcntl.flock(self.f, fcntl.LOCK_EX)

    def __exit__(self, *a):
        fcntl.flock(self.f, fcntl.LOCK_UN)
        self.f.close()


# ----------------------------------------------------------------- building

def build_gen():
    os.makedirs(BIN, exist_ok=True)
    rc, out = sh(['go', 'build', '-o', os.path.join(BIN, 'gen'), '.'], cwd=os.path.join(ROOT, 'gen'), timeout=600)
    if rc != 0:
        raise RuntimeError('building gen failed:\n' + out)


def run_gen():
    """Regenerate coq/Generated.v from /repo. Returns (ok, message)."""
    build_gen()
    rc, out = sh([os.path.join(BIN, 'gen'), REPO, os.path.join(COQ, 'Generated.v')], timeout=600)
    return rc == 0, out


def write_coq_project():
    """_CoqProject lists every .v file under coq/ (Generated.v, Base, Model, Proofs, Props)."""
    fs = []
    for d in ('Base', 'Model', 'Proofs', 'Props'):
        for r, _, names in os.walk(os.path.join(COQ, d)):
            for n in sorted(names):
                if n.endswith('.v') and not n.startswith('.'):
                    fs.append(os.path.relpath(os.path.join(r, n), COQ))
    txt = '-Q . Hts\nGenerated.v\n' + '\n'.join(sorted(fs)) + '\n'
    path = os.path.join(COQ, '_CoqProject')
    old = open(path).read() if os.path.exists(path) else ''
    if old != txt:
        with open(path, 'w') as f:
            f.write(txt)
        return True
    return False


def coq_makefile():
    write_coq_project()
    rc, out = sh(['coq_makefile', '-f', '_CoqProject', '-o', 'Makefile'], cwd=COQ)
    if rc != 0:
        raise RuntimeError(out)


def coq_project_files():
    fs = []
    for l in open(os.path.join(COQ, '_CoqProject')):
        l = l.strip()
        if l.endswith('.v'):
            fs.append(l)
    return fs


def run_make(timeout=3000):
    """Full .vo build (incremental). Returns (ok, output)."""
    if write_coq_project() or not os.path.exists(os.path.join(COQ, 'Makefile')):
        coq_makefile()
    rc, out = sh(['make', '-k', '-j16'], cwd=COQ, timeout=timeout)
    return rc == 0, out


def build_harness():
    """Build the harness against REPO's working tree (replace directive written per run)."""
    h = os.path.join(ROOT, 'harness')
    os.makedirs(WORK, exist_ok=True)
    mod = os.path.join(WORK, 'harness.mod')
    txt = open(os.path.join(h, 'go.mod')).read().replace('=> /repo', '=> ' + REPO)
    with open(mod, 'w') as f:
        f.write(txt)
    try:
        src = open(os.path.join(REPO, 'go.sum')).read()
        with open(os.path.join(WORK, 'harness.sum'), 'w') as f:
            f.write(src)
    except OSError:
        pass
    rc, out = sh(['go', 'build', '-modfile', mod, '-tags', 'verif', '-o', os.path.join(BIN, 'harness'), '.'], cwd=h, timeout=900)
    return rc == 0, out


def first_make_errors(out):
    """[(file, line, message)] for each 'File "./X.v", line N' error in make output."""
    errs = []
    lines = out.splitlines()
    for i, l in enumerate(lines):
        m = re.match(r'File "\./([^"]+)", line (\d+)', l)
        if m:
            msg = ' '.join(x.strip() for x in lines[i + 1:i + 6])
            if 'Error' in msg or 'error' in msg:
                errs.append((m.group(1), int(m.group(2)), msg[:400]))
    return errs


def enclosing_statement(vfile, line):
    """Name of the Lemma/Theorem/... enclosing the given line of a .v file."""
    name = None
    try:
        for i, l in enumerate(open(os.path.join(COQ, vfile)), 1):
            if i > line:
                break
            m = re.match(r'\s*(?:Local\s+|Global\s+)?(?:Lemma|Theorem|Corollary|Example|Fact|Proposition|Definition|Fixpoint|Instance|Remark)\s+([A-Za-z0-9_\']+)', l)
            if m:
                name = m.group(1)
    except OSError:
        pass
    return name


def deps_of(vfile):
    """Transitive project-local dependencies of a .v file, using coqdep."""
    rc, out = sh(['coqdep', '-Q', '.', 'Hts'] + coq_project_files(), cwd=COQ)
    dep = {}
    for l in out.splitlines():
        if ':' not in l:
            continue
        lhs, rhs = l.split(':', 1)
        t = lhs.split()[0]
        if not t.endswith('.vo'):
            continue
        dep[t[:-1]] = [x[:-1] for x in rhs.split() if x.endswith('.vo')]
    seen = set()
    todo = [vfile]
    while todo:
        f = todo.pop()
        if f in seen:
            continue
        seen.add(f)
        todo.extend(dep.get(f, []))
    return seen


# -------------------------------------------------------------- proof audit

def audit_sources():
    """Grep the development for forbidden declarations. Returns list of hits."""
    hits = []
    for f in coq_project_files():
        try:
            txt = open(os.path.join(COQ, f)).read()
        except OSError:
            continue
        txt_nc = re.sub(r'\(\*.*?\*\)', '', txt, flags=re.S)
        for m in AUDIT_RE.finditer(txt_nc):
            hits.append('%s: %s' % (f, m.group(0)))
    return hits


def check_props(props_file):
    """Compile Props/Cxx.v on its own and read its Print Assumptions output.
    Returns dict: ok, theorems=[{name, status, axioms}], output."""
    names = []
    try:
        src = open(os.path.join(COQ, props_file)).read()
    except OSError:
        return dict(ok=False, theorems=[], output='missing ' + props_file, broken=props_file)
    src_nc = re.sub(r'\(\*.*?\*\)', '', src, flags=re.S)
    for m in re.finditer(r'^\s*Theorem\s+([A-Za-z0-9_\']+)', src_nc, flags=re.M):
        names.append(m.group(1))
    rc, out = sh(['coqc', '-Q', '.', 'Hts', props_file], cwd=COQ, timeout=1200)
    res = dict(ok=(rc == 0), theorems=[], output=out, broken=None)
    if rc != 0:
        errs = first_make_errors(out.replace('File "./', 'File "./'))
        m = re.search(r'File "\./?([^"]+)", line (\d+)', out)
        if m:
            res['broken'] = enclosing_statement(m.group(1), int(m.group(2))) or m.group(1)
        else:
            res['broken'] = props_file
    # Print Assumptions blocks come in order of appearance.
    blocks = re.split(r'(?=Closed under the global context|Axioms:|Section Variables:)', out)
    verdicts = []
    for b in blocks:
        if b.startswith('Closed under the global context'):
            verdicts.append(('closed', []))
        elif b.startswith('Axioms:'):
            ax = re.findall(r'^([A-Za-z0-9_\.\']+)\s*:', b[len('Axioms:'):], flags=re.M)
            verdicts.append(('axioms', ax))
        elif b.startswith('Section Variables:'):
            verdicts.append(('section', []))
    pa = re.findall(r'Print Assumptions\s+([A-Za-z0-9_\']+)', src_nc)
    for i, n in enumerate(names):
        st, ax = ('unchecked', [])
        if n in pa and pa.index(n) < len(verdicts):
            st, ax = verdicts[pa.index(n)]
        bad = [a for a in ax if a.split('.')[-1] not in ALLOWED_AXIOMS and a not in ALLOWED_AXIOMS]
        good = rc == 0 and (st == 'closed' or (st == 'axioms' and not bad))
        res['theorems'].append(dict(name=n, status=st, axioms=ax, discharged=good))
    if rc == 0 and not all(t['discharged'] for t in res['theorems']):
        res['ok'] = False
        res['broken'] = next(t['name'] for t in res['theorems'] if not t['discharged'])
    return res


# ------------------------------------------------------ Coq term serialising

def cz(n):
    n = int(n)
    return str(n) if n >= 0 else '(%d)' % n


def cb(b):
    return 'true' if b else 'false'


def clist(xs, f=cz):
    return '[' + '; '.join(f(x) for x in xs) + ']'


def ctup(*xs):
    return '(' + ', '.join(xs) + ')'


def copt(x, f=cz):
    return 'None' if x is None else '(Some %s)' % f(x)


def coq_mismatches(header, ctype, agree, terms, tag, shard=250, jobs=16):
    """Evaluate `agree : ctype -> bool` on every term with vm_compute inside coqc.
    Returns (bad_indices, error_text)."""
    os.makedirs(WORK, exist_ok=True)
    shards = [(i, terms[i:i + shard]) for i in range(0, len(terms), shard)]

    def one(arg):
        k, (base, ts) = arg
        name = 'cases_%s_%d' % (tag, k)
        path = os.path.join(WORK, name + '.v')
        with open(path, 'w') as f:
            f.write(header + '\n')
            f.write('Definition cases : list (%s) := [\n' % ctype)
            f.write(';\n'.join(ts))
            f.write('\n].\n')
            f.write('Fixpoint bad_idx (i : nat) (l : list (%s)) : list nat :=\n'
                    '  match l with [] => [] | c :: t => if %s c then bad_idx (S i) t else i :: bad_idx (S i) t end.\n' % (ctype, agree))
            f.write('Definition bad := Eval vm_compute in bad_idx O cases.\nPrint bad.\n')
        rc, out = sh(['coqc', '-Q', COQ, 'Hts', path], cwd=WORK, timeout=3000)
        for ext in ('.vo', '.vok', '.vos', '.glob'):
            try:
                os.remove(os.path.join(WORK, name + ext))
            except OSError:
                pass
        try:
            os.remove(os.path.join(WORK, '.' + name + '.aux'))
        except OSError:
            pass
        if rc != 0:
            return None, 'coqc failed on %s:\n%s' % (path, out[-3000:])
        m = re.search(r'bad\s*=\s*(.*?)\s*:\s*list nat', out, flags=re.S)
        if not m:
            return None, 'unparsable coqc output:\n' + out[-2000:]
        body = m.group(1).strip()
        idx = [int(x) for x in re.findall(r'\d+', body)]
        try:
            os.remove(path)
        except OSError:
            pass
        return [base + i for i in idx], None

    bad, err = [], None
    with ThreadPoolExecutor(max_workers=jobs) as ex:
        for b, e in ex.map(one, enumerate(shards)):
            if e:
                err = e
            else:
                bad.extend(b)
    return sorted(bad), err


def coq_eval(header, exprs, tag):
    """Evaluate expressions with vm_compute; returns list of printed strings."""
    os.makedirs(WORK, exist_ok=True)
    name = 'eval_%s' % tag
    path = os.path.join(WORK, name + '.v')
    with open(path, 'w') as f:
        f.write(header + '\n')
        for i, e in enumerate(exprs):
            f.write('Definition r%d := Eval vm_compute in (%s).\nPrint r%d.\n' % (i, e, i))
    rc, out = sh(['coqc', '-Q', COQ, 'Hts', path], cwd=WORK, timeout=1200)
    for ext in ('.vo', '.vok', '.vos', '.glob', '.v'):
        try:
            os.remove(os.path.join(WORK, name + ext))
        except OSError:
            pass
    try:
        os.remove(os.path.join(WORK, '.' + name + '.aux'))
    except OSError:
        pass
    if rc != 0:
        return None, out
    res = []
    for i in range(len(exprs)):
        m = re.search(r'r%d\s*=\s*(.*?)\n\s*:\s' % i, out, flags=re.S)
        res.append(re.sub(r'\s+', ' ', m.group(1)) if m else '?')
    return res, None


# ------------------------------------------------------------------ harness

def run_harness(family, cases, timeout=3000, case_timeout='20s', jobs=1):
    """Run the implementation on the cases; returns list of observation dicts."""
    def one(chunk):
        inp = ''.join(json.dumps(c, separators=(',', ':')) + '\n' for c in chunk)
        env = dict(GOENV, VERIF_CASE_TIMEOUT=case_timeout)
        p = subprocess.run([os.path.join(BIN, 'harness'), family], input=inp, env=env, timeout=timeout,
                           stdout=subprocess.PIPE, stderr=subprocess.PIPE, text=True, errors='replace')
        obs = []
        for l in p.stdout.splitlines():
            try:
                obs.append(json.loads(l))
            except ValueError:
                obs.append({'garbled': l[:200]})
        while len(obs) < len(chunk):
            obs.append({'crash': True, 'rc': p.returncode, 'stderr': p.stderr[-2000:]})
        return obs
    if jobs <= 1 or len(cases) < 2 * jobs:
        return one(cases)
    n = (len(cases) + jobs - 1) // jobs
    chunks = [cases[i:i + n] for i in range(0, len(cases), n)]
    out = []
    with ThreadPoolExecutor(max_workers=jobs) as ex:
        for o in ex.map(one, chunks):
            out.extend(o)
    return out


# ----------------------------------------------------------- known findings

def load_findings(pid):
    """Entries of kind "finding" for the property: known_findings/<pid>.json when it
    exists (the hand-maintained source), else the consolidated known_findings.json
    (generated from those files by lib/findings.py). Both are committed and never
    written at run time."""
    ents = []
    for path in (os.path.join(ROOT, 'known_findings', pid + '.json'), os.path.join(ROOT, 'known_findings.json')):
        try:
            d = json.load(open(path))
        except OSError:
            continue
        ents = d.get('entries', [])
        break
    out, seen = [], set()
    for e in ents:
        if e.get('property', pid) == pid and e.get('kind') == 'finding' and e.get('id') not in seen:
            seen.add(e.get('id'))
            out.append(e)
    return out


def match_finding(findings, sig):
    for e in findings:
        for pat in e.get('signatures', []):
            if re.fullmatch(pat, sig):
                return e
    return None


# ------------------------------------------------------------------ results

class Result:
    """Accumulates what a check run covered and found."""

    def __init__(self, pid, tier, seed):
        self.pid, self.tier, self.seed = pid, tier, seed
        self.t0 = time.time()
        self.evaluations = 0
        self.nontrivial = set()
        self.samples = []
        self.hist = {}
        self.failures = []       # dicts: sig, what, case, expected, observed
        self.corr_bad = []       # dicts: case, obs, model
        self.proof = None        # check_props result
        self.build_errors = []   # (file, line, msg, statement)
        self.notes = []
        self.rule = ''
        self.extra = {}
        self.trusted = []
        self.assumptions = []
        self.checker_cmd = ''

    def count(self, key, n=1):
        self.hist[key] = self.hist.get(key, 0) + n


def write_evidence(res, known_seen, violations):
    ob = len(res.proof['theorems']) if res.proof else 0
    di = sum(1 for t in (res.proof['theorems'] if res.proof else []) if t['discharged'])
    cov = {
        'obligations': ob,
        'discharged': di,
        'checker_cmd': res.checker_cmd,
        'trusted_base': res.trusted,
        'theorems': [dict(name=t['name'], assumptions=t['status'], axioms=t['axioms']) for t in (res.proof['theorems'] if res.proof else [])],
        'evaluations': res.evaluations,
        'distinct_nontrivial': len(res.nontrivial),
        'rule': res.rule,
        'samples': res.samples[:6],
        'traces_validated_against_impl': res.extra.get('traces_validated_against_impl', res.evaluations),
        'input_distribution': res.hist,
        'known_findings_reobserved': sorted(known_seen),
        'notes': res.notes,
    }
    for k, v in res.extra.items():
        cov.setdefault(k, v)
    ev = {
        'property_id': res.pid, 'tier': res.tier, 'seed': res.seed, 'level': 'proof',
        'coverage': cov, 'assumptions': res.assumptions,
        'wall_s': round(time.time() - res.t0, 2), 'violations': violations,
    }
    os.makedirs(os.path.join(ROOT, 'evidence'), exist_ok=True)
    with open(os.path.join(ROOT, 'evidence', res.pid + '.json'), 'w') as f:
        json.dump(ev, f, indent=1, sort_keys=True, default=str)
        f.write('\n')


def write_replay(res, n, kind, payload):
    os.makedirs(os.path.join(ROOT, 'replays'), exist_ok=True)
    path = os.path.join(ROOT, 'replays', '%s-%d-%d.json' % (res.pid, res.seed, n))
    d = dict(property=res.pid, tier=res.tier, seed=res.seed, kind=kind)
    d.update(payload)
    with open(path, 'w') as f:
        json.dump(d, f, indent=1, default=str)
        f.write('\n')
    return path


def conclude(res):
    """Decide the verdict, write evidence/replays, print lines, return exit code."""
    findings = load_findings(res.pid)
    known_seen = {}
    new_fail = []
    for f in res.failures:
        e = match_finding(findings, f['sig'])
        if e:
            known_seen.setdefault(e['id'], e)
        else:
            new_fail.append(f)
    for e in known_seen.values():
        print('KNOWN-FINDING: property=%s %s' % (res.pid, e['what']))
    rc = 0
    nviol = 0
    proof_broken = (res.proof is not None and not res.proof['ok']) or bool(res.build_errors)
    if new_fail:
        seen = set()
        for f in new_fail:
            if f['sig'] in seen:
                continue
            seen.add(f['sig'])
            if len(seen) > 5:
                break
            nviol += 1
            path = write_replay(res, nviol, 'failing-input', f)
            print('VIOLATION property=%s replay=%s' % (res.pid, path))
        rc = 1
    elif proof_broken or res.corr_bad:
        nviol = 1
        payload = {}
        if proof_broken:
            thm = (res.proof or {}).get('broken')
            payload = dict(theorem=thm, build_errors=res.build_errors[:5],
                           output=((res.proof or {}).get('output') or '')[-1500:])
            kind = 'broken-proof'
        else:
            payload = dict(correspondence=res.corr_bad[:5])
            kind = 'broken-correspondence'
        path = write_replay(res, 1, kind, payload)
        print('VIOLATION property=%s replay=%s no-failing-input-found' % (res.pid, path))
        rc = 1
    write_evidence(res, list(known_seen.keys()), nviol)
    return rc
