#!/usr/bin/env python3
"""Run by hand: rewrites the generated regions of DESIGN.md (between
<!-- BEGIN GENERATED:x --> and <!-- END GENERATED:x -->) from the CLAIMs in
lib/cNN.py, the theorem lists of coq/Props, known_findings.json and seeded/RESULTS.md."""
import importlib
import json
import os
import re
import sys

ROOT = os.path.dirname(os.path.dirname(os.path.abspath(__file__)))
sys.path.insert(0, os.path.join(ROOT, 'lib'))


def theorems(pid):
    src = open(os.path.join(ROOT, 'coq', 'Props', pid + '.v')).read()
    src = re.sub(r'\(\*.*?\*\)', '', src, flags=re.S)
    return re.findall(r'^\s*Theorem\s+([A-Za-z0-9_\']+)', src, flags=re.M)


def properties():
    props = [json.loads(l) for l in open(os.path.join(ROOT, 'properties.jsonl'))]
    out = []
    for p in props:
        pid = p['id']
        m = importlib.import_module(pid.lower())
        c = m.CLAIM
        th = theorems(pid)
        closed = [t for t in th if not t.endswith('_partial') and '_refuted' not in t]
        partial = [t for t in th if t.endswith('_partial')]
        refuted = [t for t in th if '_refuted' in t]
        out.append('### %s — %s\n' % (pid, p['title']))
        out.append('* **Decided by.** %s\n' % c['text'])
        out.append('* **Trusted / partial.** %s\n' % c['note'])
        out.append('* **Theorems (`coq/Props/%s.v`, %d).** ' % (pid, len(th)) + ', '.join('`%s`' % t for t in closed)
                   + ('; partial: ' + ', '.join('`%s`' % t for t in partial) if partial else '')
                   + ('; refutation witnesses: ' + ', '.join('`%s`' % t for t in refuted) if refuted else '') + '.\n')
        out.append('* **Details** (model, exact statements, oracle, generators, mutations tried): `design/%s.md`; '
                   'check driver `lib/%s.py`, harness `harness/%s.go`.\n\n' % (pid, pid.lower(), pid.lower()))
    return ''.join(out)


def findings():
    d = json.load(open(os.path.join(ROOT, 'known_findings.json')))
    fixed, seen = [], set()
    fnd = []
    for e in d['entries']:
        if e['kind'] == 'fixed':
            for s in e.get('commits', []):
                if s not in seen:
                    seen.add(s)
                    fixed.append((e['property'], s, e['fixed']))
        else:
            fnd.append(e)
    out = ['**Repaired (%d `fix:` commits on /repo; each was first reported by a check on the tree as it was, replay kept in `corpus/`).**\n\n' % len(fixed)]
    out.append('| found by | commit subject |\n|---|---|\n')
    for pid, s, _ in fixed:
        out.append('| %s | %s |\n' % (pid, s.replace('|', '\\|')))
    out.append('\n**Recorded, not repaired (`finding` entries; the check prints `KNOWN-FINDING` and exits 0; any other signature is a violation).**\n\n')
    for e in fnd:
        out.append('* **%s / %s** — %s  \n  signatures: %s\n' % (e['property'], e['id'], e['what'], ', '.join('`%s`' % s for s in e.get('signatures', []))))
    return ''.join(out)


def seeded():
    p = os.path.join(ROOT, 'seeded', 'RESULTS.md')
    if not os.path.exists(p):
        return ''
    rows = [l for l in open(p) if l.startswith('| C')]
    out = ['| seeded change (directory under `seeded/`) | what it needs to manifest | check | verdict | reported as |\n|---|---|---|---|---|\n']
    for l in rows:
        c = [x.strip() for x in l.strip().strip('|').split('|')]
        name = c[0]
        needs = ''
        try:
            needs = json.load(open(os.path.join(ROOT, 'seeded', name, 'meta.json'))).get('needs', '')
        except (OSError, ValueError):
            pass
        needs = re.sub(r'\s+', ' ', needs)[:220].replace('|', '/')
        out.append('| %s | %s | %s | %s | %s |\n' % (name, needs, c[1], c[2], c[3]))
    return ''.join(out)


def main():
    path = os.path.join(ROOT, 'DESIGN.md')
    s = open(path).read()
    for key, fn in (('properties', properties), ('findings', findings), ('seeded', seeded)):
        b, e = '<!-- BEGIN GENERATED:%s -->' % key, '<!-- END GENERATED:%s -->' % key
        if b in s and e in s:
            i, j = s.index(b) + len(b), s.index(e)
            s = s[:i] + '\n' + fn() + s[j:]
    open(path, 'w').write(s)


if __name__ == '__main__':
    main()
