#!/usr/bin/env python3
"""Run by hand (never by a check): normalises known_findings/Cxx.json and
writes the consolidated /verif/known_findings.json and MANIFEST.hooks.

For every entry of kind "fixed" the fix commit on /repo main is looked up by its
subject and the entry gets the line  "fixed: property=<id> <commit> <what failed>".
Every "fix:" commit on /repo main must be named by at least one entry."""
import difflib
import json
import os
import re
import subprocess

ROOT = os.path.dirname(os.path.dirname(os.path.abspath(__file__)))
BASE = 'f140c1e'


def commits():
    out = subprocess.run(['git', '-C', '/repo', 'log', '--reverse', '--format=%h\t%s', BASE + '..main'],
                         stdout=subprocess.PIPE, text=True).stdout
    return [tuple(l.split('\t', 1)) for l in out.splitlines() if l]


def norm(s):
    return re.sub(r'[^a-z0-9 ]+', ' ', s.lower())


def best_commit(entry, fixes):
    text = ' '.join(str(entry.get(k, '')) for k in ('commit_subject', 'commit', 'fixed', 'what', 'id', 'note'))
    # exact subject quoted in the entry wins
    hits = [(h, s) for h, s in fixes if s in text or s[len('fix: '):] in text]
    if hits:
        return max(hits, key=lambda x: len(x[1])), 1.0
    nt = norm(text)
    scored = []
    for h, s in fixes:
        ns = norm(s[len('fix: '):])
        m = difflib.SequenceMatcher(None, ns, nt).find_longest_match(0, len(ns), 0, len(nt))
        toks = set(ns.split())
        overlap = len(toks & set(nt.split())) / max(1, len(toks))
        scored.append((overlap + m.size / max(1, len(ns)), h, s))
    scored.sort(reverse=True)
    return (scored[0][1], scored[0][2]), scored[0][0] / 2


def main():
    cs = commits()
    fixes = [(h, s) for h, s in cs if s.startswith('fix:')]
    hooks = [(h, s) for h, s in cs if s.startswith('hooks:')]
    named = set()
    allents = []
    kdir = os.path.join(ROOT, 'known_findings')
    for fn in sorted(os.listdir(kdir)):
        if not fn.endswith('.json'):
            continue
        path = os.path.join(kdir, fn)
        d = json.load(open(path))
        for e in d['entries']:
            e.setdefault('property', fn[:-5])
            if e.get('kind') == 'fixed':
                override = e.get('commits')
                if override:
                    chosen = [(h, s) for h, s in fixes if any(s == x or h == x for x in override)]
                    conf = 1.0
                else:
                    (h, s), conf = best_commit(e, fixes)
                    chosen = [(h, s)]
                what = e.get('what_failed') or e.get('what') or ''
                if not what or what.startswith('fix') or what.startswith('fixed:'):
                    what = re.sub(r'^fixed: property=\S+ \S+ ', '', e.get('fixed') or what)
                what = re.sub(r'\s+', ' ', what).strip()
                e['commits'] = [s for _, s in chosen]
                e['fixed'] = 'fixed: property=%s %s %s' % (e['property'], ','.join(h for h, _ in chosen), what)
                e['match_confidence'] = round(conf, 2)
                for h, _ in chosen:
                    named.add(h)
            allents.append(e)
        with open(path, 'w') as f:
            json.dump(d, f, indent=1)
            f.write('\n')
    top = {
        'comment': 'Committed by hand (lib/findings.py consolidates known_findings/Cxx.json); never written at run time. '
                   'kind=finding entries suppress exactly the listed signatures (printed as KNOWN-FINDING); kind=fixed entries suppress nothing.',
        'entries': allents,
    }
    with open(os.path.join(ROOT, 'known_findings.json'), 'w') as f:
        json.dump(top, f, indent=1)
        f.write('\n')
    with open(os.path.join(ROOT, 'MANIFEST.hooks'), 'w') as f:
        f.write('# hook commits on /repo main (build tag verif, add-only files verif_hooks_*.go)\n')
        for h, s in hooks:
            f.write('%s\n' % h)
    print('fix commits on main: %d, named by a fixed entry: %d' % (len(fixes), len(named)))
    for h, s in fixes:
        if h not in named:
            print('  NOT NAMED:', h, s)
    for e in allents:
        if e.get('kind') == 'fixed' and e.get('match_confidence', 1) < 0.8:
            print('  LOW CONFIDENCE %.2f: %s %s -> %s' % (e['match_confidence'], e['property'], e.get('id'), e['commits']))


if __name__ == '__main__':
    main()
