#!/bin/sh
# Development aid (not a registered check): repeats the quick checks under load
# to look for timing-dependent verdicts. Usage: lib/flakehunt.sh <rounds> <parallel> [seeds...]
# Uses $VERIF_REPO if set. Prints one line per run that did not exit 0.
rounds=${1:-2}; par=${2:-3}; shift 2 2>/dev/null
seeds=${*:-1}
cd "$(dirname "$0")/.."
mkdir -p .work/flake
for r in $(seq 1 $rounds); do
  for s in $seeds; do
    for i in $(seq -w 1 20); do echo "C$i $s $r"; done | xargs -P $par -L 1 sh -c \
      'VERIF_SEED=$1 ./check $0 --tier quick > .work/flake/$0-$1-$2.log 2>&1; rc=$?; [ $rc -ne 0 ] && { echo "FLAKE $0 seed=$1 round=$2 rc=$rc"; grep -a "VIOLATION\|Traceback" .work/flake/$0-$1-$2.log | head -3; cp replays/$0-$1-*.json .work/flake/ 2>/dev/null; }; true'
  done
done
echo flakehunt done
