#!/usr/bin/env python3
"""Rewrites /verif/MANIFEST.json from the table below (run by hand after editing)."""
import json
import os

ROOT = os.path.dirname(os.path.dirname(os.path.abspath(__file__)))

CLAIMS = {
 'C20': dict(
  text='Machine-checked proof (Coq 8.16.1) about the Gallina translation of itf8/ltf8 Len, Encode, Decode that /verif/gen regenerates from the Go source on every run: '
       'round trip for every int32/int64, bytes equal the CRAM encoding, Decode equals the specification decoder on every byte string (so it never panics, '
       'never looks past the announced length and fails exactly on short input). The translation is validated on every run by evaluating it inside Coq on the cases the implementation ran.',
  note='Trusted: Coq kernel; the translator gen/ (expression/statement subset, fixed-width wrap, bounds-checked indexing; Go int as unbounded Z); '
       'clz8 models math/bits.LeadingZeros8; high nibble of the 5th ITF-8 byte treated as insignificant. No axioms (Print Assumptions: closed). '
       'The stream readers in cram.go are exercised by correspondence only.',
  technique='Coq proof over source-regenerated Gallina + vm_compute correspondence + spec oracle',
  design='6/C20'),
}

NOT_YET = 'check not built yet (work in progress; see DESIGN.md section 10 for the order of work)'


def main():
    props = [json.loads(l) for l in open(os.path.join(ROOT, 'properties.jsonl'))]
    checks, na = [], []
    for p in props:
        pid = p['id']
        c = CLAIMS.get(pid)
        if not c:
            na.append(dict(property_id=pid, reason=NOT_YET))
            continue
        checks.append(dict(
            property_id=pid,
            quick_cmd='./check %s --tier quick' % pid,
            thorough_cmd='./check %s --tier thorough' % pid,
            evidence_file='evidence/%s.json' % pid,
            replay_cmd_template='./check %s --replay {path}' % pid,
            engine='coq',
            level_claimed=dict(category='proof', text=c['text'], design_ref=c['design']),
            level_note=c['note'],
            technique=c['technique']))
    m = dict(
        version=1,
        setup_cmd='./check --setup',
        hooks=dict(guard='verif',
                   enable='go build -tags verif (harness module; replace github.com/biogo/hts => /repo)',
                   baseline_off_cmd='cd /repo && go test -vet=off -count=1 -timeout 25m ./...',
                   source_commits=HOOK_COMMITS, add_only=True),
        engines=[dict(name='coq', path='coq/', serves_properties=sorted(CLAIMS),
                      kind_free_text='Coq 8.16.1 development: Generated.v (translated from /repo each run), Model/, Proofs/, Props/; correspondence by vm_compute on harness observations')],
        checks=checks,
        not_applicable=na,
        notes='All checks: ./check Cxx --tier quick|thorough; VERIF_SEED seeds every random choice. See DESIGN.md.')
    with open(os.path.join(ROOT, 'MANIFEST.json'), 'w') as f:
        json.dump(m, f, indent=1)
        f.write('\n')


HOOK_COMMITS = []

if __name__ == '__main__':
    main()
