#!/usr/bin/env python3
"""Rewrites /verif/MANIFEST.json from the table below (run by hand after editing)."""
import json
import os

ROOT = os.path.dirname(os.path.dirname(os.path.abspath(__file__)))

import importlib
import sys
sys.path.insert(0, os.path.join(ROOT, 'lib'))

# Each lib/cNN.py carries its own CLAIM = dict(text=, note=, technique=, design=).
CLAIMS = {}
for n in range(1, 21):
    pid = 'C%02d' % n
    if os.path.exists(os.path.join(ROOT, 'lib', pid.lower() + '.py')):
        m = importlib.import_module(pid.lower())
        if getattr(m, 'CLAIM', None):
            CLAIMS[pid] = m.CLAIM

NOT_YET = 'check not built yet (work in progress; see DESIGN.md section 10 for the order of work)'


def main():
    props = [json.loads(l) for l in open(os.path.join(ROOT, 'properties.jsonl'))]
    checks, na = [], []
    for p in props:
        pid = p['id']
        c = CLAIMS.get(pid)
        if not c:
            na.append(dict(property_id=pid, reason=NOT_YET))
            continue
        checks.append(dict(
            property_id=pid,
            quick_cmd='./check %s --tier quick' % pid,
            thorough_cmd='./check %s --tier thorough' % pid,
            evidence_file='evidence/%s.json' % pid,
            replay_cmd_template='./check %s --replay {path}' % pid,
            engine='coq',
            level_claimed=dict(category='proof', text=c['text'], design_ref=c['design']),
            level_note=c['note'],
            technique=c['technique']))
    m = dict(
        version=1,
        setup_cmd='./check --setup',
        hooks=dict(guard='verif',
                   enable='go build -tags verif (harness module; replace github.com/biogo/hts => /repo)',
                   baseline_off_cmd='cd /repo && go test -vet=off -count=1 -timeout 25m ./...',
                   source_commits=HOOK_COMMITS, add_only=True),
        engines=[dict(name='coq', path='coq/', serves_properties=sorted(CLAIMS),
                      kind_free_text='Coq 8.16.1 development: Generated.v (translated from /repo each run), Model/, Proofs/, Props/; correspondence by vm_compute on harness observations')],
        checks=checks,
        not_applicable=na,
        notes='All checks: ./check Cxx --tier quick|thorough; VERIF_SEED seeds every random choice. See DESIGN.md.')
    with open(os.path.join(ROOT, 'MANIFEST.json'), 'w') as f:
        json.dump(m, f, indent=1)
        f.write('\n')


HOOK_COMMITS = [l.strip() for l in open(os.path.join(ROOT, 'MANIFEST.hooks')) if l.strip() and not l.startswith('#')] if os.path.exists(os.path.join(ROOT, 'MANIFEST.hooks')) else []

if __name__ == '__main__':
    main()
