"""C13 (owner: rd): BAM stream layout written from SAMv1 section 4.2, the case
generators for chunk replay and the oracle (which records a chunk must yield)."""

HD = b'@HD\tVN:1.6\n'
CO = b'@CO\tx\n'


def header_len(text):
    n = len(HD)
    while n < text:
        n += len(CO)
    return 4 + 4 + n + 4


def rec_len(nl, sl):
    return 4 + 32 + nl + 1 + (sl + 1) // 2 + sl


def layout(text, recs):
    """[(start, end)] of every record in the uncompressed stream, and the stream length."""
    p = header_len(text)
    out = []
    for nl, sl in recs:
        e = p + rec_len(nl, sl)
        out.append((p, e))
        p = e
    return out, p


def rec_name(i, nl):
    name = [ord('r'), ord('a') + i // 26 % 26, ord('a') + i % 26]
    while len(name) < nl:
        name.append(ord('0') + len(name) % 10)
    return bytes(name[:nl]).decode()


def gen_bam_case(rng, nrec_max=8, big=False):
    """Records and BGZF cuts with record ends exactly on / one before / one after
    block ends, records spanning several blocks, empty members in between."""
    text = rng.choice([0, 11, 40, 200])
    n = rng.randrange(1, nrec_max + 1)
    recs = []
    for _ in range(n):
        nl = rng.randrange(3, 12)
        sl = rng.choice([0, 1, 2, 5, 30, 150]) if not big else rng.choice([0, 5, 300, 5000])
        recs.append([nl, sl])
    lay, total = layout(text, recs)
    cutpos = set()
    for (s, e) in lay:
        r = rng.random()
        if r < 0.25:
            cutpos.add(e)            # block ends exactly at the record end
        elif r < 0.40:
            cutpos.add(e - 1)        # record ends one byte into the next block
        elif r < 0.55:
            cutpos.add(e + 1)        # block ends one byte after the record end
        elif r < 0.70:
            cutpos.add(s + 2)        # block boundary inside the 4-byte length field
            cutpos.add(s + 4)
        elif r < 0.85:
            for _ in range(rng.randrange(1, 4)):  # record spans several blocks
                cutpos.add(rng.randrange(s, e + 1))
    if rng.random() < 0.5:
        cutpos.add(header_len(text))
    if rng.random() < 0.3:
        cutpos.add(rng.randrange(1, header_len(text)))
    cutpos = sorted(p for p in cutpos if 0 < p < total)
    cuts = []
    last = 0
    for p in cutpos:
        cuts.append(p - last)
        last = p
        if rng.random() < 0.15:
            cuts.append(0)           # an empty member at the boundary
    cuts.append(total - last)
    if rng.random() < 0.1:
        cuts.insert(0, 0)
    # a member holds at most 65536 bytes (65535 so that its end is addressable)
    fixed = []
    for c in cuts:
        while c > 65535:
            fixed.append(60000)
            c -= 60000
        fixed.append(c)
    return dict(mode='bam', text=text, recs=recs, cuts=fixed, eof=rng.random() < 0.6)
