"""Shared by C02, C03, C13 (owner: rd): file/history generators and the flat-copy
oracle for the BGZF reader.  The oracle is written from the property statement:
a flat byte string, the block boundaries, a cursor and a sticky end flag.  It
never looks at the library."""
import zlib

ERR = {0: 'nil', 1: 'EOF', 2: 'error'}


def payload(n, seed):
    """Member payload; the same formula is in harness/c02.go and Model/Flat.v (mkdata)."""
    return bytes((seed * 131 + j * 7 + (j >> 8) * 13) % 251 for j in range(n))


_pcache = {}


def payload_c(n, seed):
    k = (n, seed)
    if k not in _pcache:
        if len(_pcache) > 64:
            _pcache.clear()
        _pcache[k] = payload(n, seed)
    return _pcache[k]


class FlatFile:
    """Flat copy of a BGZF file given as member payloads (+ optional EOF marker)."""

    def __init__(self, case, obs):
        if case.get('datas') is not None:
            pl = [bytes.fromhex(h) for h in case['datas']]
        else:
            pl = [payload_c(m[0], m[1]) for m in case['members']]
        if case.get('eof'):
            pl = pl + [b'']
        self.lens = [len(p) for p in pl]
        self.starts = []
        s = 0
        for l in self.lens:
            self.starts.append(s)
            s += l
        self.total = s
        self.data = b''.join(pl)
        self.bases = obs['bases']
        self.sizes = obs['sizes']
        self.fsize = obs['fsize']

    def tr(self, f, b):
        """Logical position of virtual offset (f, b); None when it addresses nothing."""
        if f == self.fsize and b == 0:
            return self.total
        if f in self.bases:
            i = self.bases.index(f)
            if 0 <= b <= self.lens[i]:
                return self.starts[i] + b
        return None

    def block_end_after(self, pos):
        """End of the block that holds the byte at pos (pos < total)."""
        for s, l in zip(self.starts, self.lens):
            if s <= pos < s + l:
                return s + l
        return self.total


class FlatReader:
    """The specification reader of C02."""

    def __init__(self, ff):
        self.ff = ff
        self.pos = 0
        self.eof = False
        self.blocked = False
        self.chunk = (0, 0)

    def seek(self, i, off):
        self.pos = self.ff.starts[i] + off
        self.eof = False
        self.chunk = (self.pos, self.pos)

    def seekpos(self, pos):
        self.pos = pos
        self.eof = False
        self.chunk = (pos, pos)

    def read(self, n):
        """Returns (bytes, err, chunk or None)."""
        ff = self.ff
        if self.eof:
            return b'', 1, None
        avail = ff.total - self.pos
        if avail == 0:
            self.eof = True
            return b'', 1, None
        if self.blocked:
            lim = ff.block_end_after(self.pos) - self.pos
        else:
            lim = avail
        k = min(n, lim)
        out = ff.data[self.pos:self.pos + k]
        before = self.pos
        self.pos += k
        err = 0
        if k < n:
            err = 1
            if not self.blocked:
                self.eof = True
        self.chunk = (before, self.pos)
        return out, err, self.chunk

    def readbyte(self):
        ff = self.ff
        if self.eof:
            return b'', 1, None
        if ff.total - self.pos == 0:
            self.eof = True
            return b'', 1, None
        out = ff.data[self.pos:self.pos + 1]
        before = self.pos
        self.pos += 1
        self.chunk = (before, self.pos)
        return out, 0, self.chunk


def obs_bytes_ok(o, want):
    if o['n'] != len(want):
        return False
    if 'hex' in o and o['hex'] != '' or o['n'] == 0:
        return bytes.fromhex(o.get('hex', '')) == want
    return o['ad'] == (zlib.adler32(want) & 0xffffffff)


def judge_history(case, obs, tag, stats=None):
    """Run the flat reader over the history and compare with the implementation's
    observations.  Returns a list of (sig, what, expected) — empty when the property holds.
    stats (dict) receives counts of what the history exercised."""
    bad = []
    if stats is None:
        stats = {}

    def st(k):
        stats[k] = stats.get(k, 0) + 1
    if 'panic' in obs:
        return [('%s:panic:%s' % (tag, panic_class(obs['panic'])), 'reader panicked after %d calls: %s' % (len(obs.get('partial') or []), obs['panic']), None)]
    if 'hang' in obs:
        return [('%s:hang' % tag, 'call %d of the history did not return (all goroutines blocked)' % len(obs.get('partial') or []), None)]
    if 'crash' in obs or 'garbled' in obs or 'bad_case' in obs:
        return [('%s:harness' % tag, 'harness failure: %s' % str(obs)[:300], None)]
    if obs.get('new_err', 0) != 0:
        return [('%s:newreader:error' % tag, 'NewReader failed on a well-formed file: %s' % obs.get('new_msg'), None)]
    ff = FlatFile(case, obs)
    fr = FlatReader(ff)
    lc_lit = None
    for k, (op, o) in enumerate(zip(case['ops'], obs['ops'])):
        name = op[0]
        lc = o['lc']
        tb, te = ff.tr(lc[0], lc[1]), ff.tr(lc[2], lc[3])
        if name == 'seek' or name == 'reseek':
            st('seek')
            if name == 'seek':
                fr.seek(op[1], op[2])
                want_lc = [ff.bases[op[1]], op[2], ff.bases[op[1]], op[2]]
            else:
                fr.seekpos(fr.chunk[0])
                want_lc = None
            if o['err'] != 0:
                bad.append(('%s:seek:err-%s' % (tag, ERR[o['err']]), 'op %d %s: Seek to a block start failed (%s)' % (k, op, o.get('msg', ERR[o['err']])), None))
                break
            if (want_lc is not None and lc != want_lc) or tb != fr.pos or te != fr.pos:
                bad.append(('%s:seek:lastchunk' % tag, 'op %d %s: LastChunk %s after Seek does not name the sought position %d' % (k, op, lc, fr.pos), dict(pos=fr.pos)))
                break
        elif name in ('read', 'byte'):
            p0 = fr.pos
            if name == 'read':
                want, err, ch = fr.read(op[1])
            else:
                want, err, ch = fr.readbyte()
            if err == 1:
                st('eof')
            if len(want) > 0 and not fr.blocked and ff.block_end_after(p0) < p0 + len(want):
                st('cross')
            if fr.blocked and err == 1 and len(want) > 0:
                st('blocked-short')
            cls = 'read' if name == 'read' else 'byte'
            if not obs_bytes_ok(o, want):
                kind = 'short' if o['n'] < len(want) else ('long' if o['n'] > len(want) else 'bytes')
                bad.append(('%s:%s:%s' % (tag, cls, kind), 'op %d %s: returned %d bytes (%s...), the flat copy holds %d bytes (%s...) at position %d' % (k, op, o['n'], o.get('hex', '')[:32], len(want), want[:16].hex(), fr.pos - len(want)),
                            dict(n=len(want), hex=want[:64].hex(), err=ERR[err])))
                break
            if o['err'] != err:
                bad.append(('%s:%s:err-%s-want-%s' % (tag, cls, ERR[o['err']], ERR[err]), 'op %d %s: error %s (%s), expected %s' % (k, op, ERR[o['err']], o.get('msg', ''), ERR[err]), dict(err=ERR[err])))
                break
            if ch is not None and (tb != ch[0] or te != ch[1]):
                wrap = ''
                if tb == ch[0] and lc[3] == 0 and lc[2] in ff.bases and ff.lens[ff.bases.index(lc[2])] == 65536 \
                        and ch[1] == ff.starts[ff.bases.index(lc[2])] + 65536:
                    wrap = ':end-of-65536-block'
                bad.append(('%s:%s:lastchunk%s' % (tag, cls, wrap), 'op %d %s: LastChunk %s translates to (%s, %s), the read covered (%d, %d)' % (k, op, lc, tb, te, ch[0], ch[1]), dict(chunk=ch)))
                if wrap and not any(b[0].endswith(wrap) for b in bad[:-1]):
                    continue        # only End is wrong (recorded finding): bytes and errors of the rest are still judged
                if wrap:
                    bad.pop()       # one report of the wrap per history
                    continue
                break
        elif name == 'blocked':
            fr.blocked = bool(op[1])
    return bad


def panic_class(msg):
    m = msg.lower()
    if 'unexpected block' in m:
        return 'unexpected-block'
    if 'nil pointer' in m:
        return 'nil'
    if 'index out of range' in m or 'slice bounds' in m:
        return 'bounds'
    return 'other'


# ------------------------------------------------------------------ generators

BIG = [65279, 65280, 65281, 65535, 65536]


def gen_len(rng, big_ok=True):
    r = rng.random()
    if r < 0.18:
        return 0
    if r < 0.45:
        return rng.choice([1, 2, 3])
    if r < 0.85:
        return rng.randrange(4, 40)
    if r < 0.95 or not big_ok:
        return rng.randrange(200, 3000)
    return rng.choice(BIG)


def gen_file(rng, nmax=6, big=0.15):
    n = rng.randrange(1, nmax + 1)
    big_ok = rng.random() < big
    members = [[gen_len(rng, big_ok), rng.randrange(0, 1000)] for _ in range(n)]
    if all(m[0] == 0 for m in members) and rng.random() < 0.8:
        members[rng.randrange(n)][0] = rng.randrange(1, 20)
    return members, rng.random() < 0.5


def gen_history(rng, members, eof, nops, cache_ops=None, blocked_p=0.08):
    """History over seek/read/byte/blocked (+ setcache / reseek)."""
    lens = [m[0] for m in members] + ([0] if eof else [])
    total = sum(lens)
    ops = []
    for _ in range(nops):
        r = rng.random()
        if cache_ops and r < cache_ops[0]:
            ops.append(rng.choice(cache_ops[1]))
        elif r < 0.30:
            i = rng.randrange(len(lens))
            l = lens[i]
            off = rng.choice([0, 0, l, l, min(1, l), max(l - 1, 0), rng.randrange(0, l + 1)])
            ops.append(['seek', i, min(off, 65535)])
        elif r < 0.34:
            ops.append(['reseek'])
        elif r < 0.75:
            l = rng.choice(lens)
            n = rng.choice([0, 1, 2, l, l + 1, max(l - 1, 0), rng.randrange(0, 50), rng.randrange(0, 2 * max(lens) + 2), total + 3])
            ops.append(['read', n])
        elif r < 1 - blocked_p:
            ops.append(['byte'])
        else:
            ops.append(['blocked', rng.randrange(2)])
    return ops


def ddmin_ops(case, fails, max_rounds=200):
    """Shrink case['ops'] while fails(case) stays true (ddmin, one-at-a-time fallback)."""
    ops = list(case['ops'])
    n = 2
    rounds = 0
    while len(ops) >= 2 and rounds < max_rounds:
        rounds += 1
        chunk = max(1, len(ops) // n)
        reduced = False
        for i in range(0, len(ops), chunk):
            cand = ops[:i] + ops[i + chunk:]
            c2 = dict(case, ops=cand)
            if cand and fails(c2):
                ops = cand
                n = max(n - 1, 2)
                reduced = True
                break
        if not reduced:
            if chunk == 1:
                break
            n = min(n * 2, len(ops))
    return dict(case, ops=ops)


# ------------------------------------------------------------- Coq terms

def cz(n):
    n = int(n)
    return str(n) if n >= 0 else '(%d)' % n


def coq_file(case, obs):
    ms = []
    if case.get('datas') is not None:
        pls = ['[' + '; '.join(str(x) for x in bytes.fromhex(h)) + ']' for h in case['datas']]
    else:
        pls = ['(mkdata %d %d)' % (m[0], m[1]) for m in case['members']]
    if case.get('eof'):
        pls.append('[]')
    for b, sz, pl in zip(obs['bases'], obs['sizes'], pls):
        ms.append('mkMember %d %d %s' % (b, sz, pl))
    return '[' + '; '.join(ms) + ']'


KIND = {'lru': 'KLRU', 'slru': 'KLRU', 'fifo': 'KFIFO', 'sfifo': 'KFIFO', 'random': 'KRandom', 'srandom': 'KRandom'}


def coq_ops(case, obs):
    out = []
    bases = obs['bases']
    for op in case['ops']:
        n = op[0]
        if n == 'seek':
            out.append('OSeek %d %d' % (bases[op[1]] if op[1] < len(bases) else obs['fsize'], op[2]))
        elif n == 'reseek':
            out.append('OReseek')
        elif n == 'read':
            out.append('ORead %d' % op[1])
        elif n == 'byte':
            out.append('OByte')
        elif n == 'blocked':
            out.append('OBlocked %s' % ('true' if op[1] else 'false'))
        elif n == 'setcache':
            if op[1] in KIND:
                out.append('OSetCache %s %d' % (KIND[op[1]], op[2]))
            else:
                out.append('OSetCache KLRU 0')
    return '[' + '; '.join(out) + ']'


def coq_obs(ops_obs):
    return '[' + '; '.join('(%d, %d, %d, (%d, %d, %d, %d), %d)' % (o['n'], o['ad'], o['err'], o['lc'][0], o['lc'][1], o['lc'][2], o['lc'][3], o['blen']) for o in ops_obs) + ']'


def coq_case(case, obs, ops_obs=None, choice=()):
    return 'mkCase %s %s %s [%s]' % (coq_file(case, obs), coq_ops(case, obs), coq_obs(obs['ops'] if ops_obs is None else ops_obs),
                                     '; '.join('%d%%nat' % c for c in choice))


def clean(o):
    if isinstance(o, dict):
        return {k: clean(v) for k, v in o.items() if k != 'stack'}
    if isinstance(o, list):
        return [clean(x) for x in o]
    return o
