#!/usr/bin/env python3
"""Runs the registered checks against the seeded defects under /verif/seeded/.

    lib/seeded.py [--tier quick] [name-filter ...]

For every seeded/<name>/ (patch.diff + meta.json with "property"): apply the
patch to $VERIF_REPO (default /repo) with `git apply`, run `./check <property>`,
record whether a VIOLATION line was printed and of which kind, then undo the
patch with `git checkout -- .` (and remove files the patch added).  Refuses to
run when the repository has uncommitted changes.  Writes seeded/RESULTS.md."""
import json
import os
import re
import subprocess
import sys
import time

ROOT = os.path.dirname(os.path.dirname(os.path.abspath(__file__)))
REPO = os.environ.get('VERIF_REPO', '/repo')


def sh(cmd, cwd=None, timeout=None):
    p = subprocess.run(cmd, cwd=cwd, stdout=subprocess.PIPE, stderr=subprocess.STDOUT, text=True, timeout=timeout)
    return p.returncode, p.stdout


def main():
    tier = 'quick'
    filt = []
    a = sys.argv[1:]
    while a:
        if a[0] == '--tier':
            tier = a[1]
            a = a[2:]
        else:
            filt.append(a[0])
            a = a[1:]
    rc, out = sh(['git', 'status', '--porcelain'], cwd=REPO)
    if out.strip():
        print('repository has uncommitted changes; refusing', out)
        return 2
    rows = []
    sdir = os.path.join(ROOT, 'seeded')
    for name in sorted(os.listdir(sdir)):
        d = os.path.join(sdir, name)
        if not os.path.isdir(d) or not os.path.exists(os.path.join(d, 'patch.diff')):
            continue
        if filt and not any(f in name for f in filt):
            continue
        meta = json.load(open(os.path.join(d, 'meta.json')))
        props = meta.get('checks') or [meta['property']]
        rc, out = sh(['git', 'apply', '--whitespace=nowarn', os.path.join(d, 'patch.diff')], cwd=REPO)
        if rc != 0:
            rows.append((name, ','.join(props), 'PATCH-DOES-NOT-APPLY', '', 0))
            continue
        try:
            for pid in props:
                # evidence files must describe runs on the unchanged tree: keep the committed one
                evp = os.path.join(ROOT, 'evidence', pid + '.json')
                saved = open(evp).read() if os.path.exists(evp) else None
                t0 = time.time()
                try:
                    rc, out = sh([os.path.join(ROOT, 'check'), pid, '--tier', tier], cwd=ROOT, timeout=3600)
                except subprocess.TimeoutExpired:
                    rc, out = 124, 'TIMEOUT'
                viol = [l for l in out.splitlines() if l.startswith('VIOLATION')]
                kind = ''
                if viol:
                    m = re.search(r'replay=(\S+)', viol[0])
                    kind = 'no-failing-input-found' if 'no-failing-input-found' in viol[0] else 'failing-input'
                    if m and os.path.exists(m.group(1)):
                        try:
                            rp = json.load(open(m.group(1)))
                            kind += ' (%s)' % (rp.get('sig') or rp.get('theorem') or rp.get('kind'))
                        except ValueError:
                            pass
                verdict = 'DETECTED' if (rc == 1 and viol) else ('MISSED' if rc == 0 else 'CHECK-ERROR rc=%d' % rc)
                rows.append((name, pid, verdict, kind, round(time.time() - t0, 1)))
                print(rows[-1], flush=True)
                if saved is not None:
                    with open(evp, 'w') as f:
                        f.write(saved)
        finally:
            sh(['git', 'checkout', '--', '.'], cwd=REPO)
            sh(['git', 'clean', '-fdq'], cwd=REPO)
    # rows of earlier runs for seeds not re-run now are kept
    old = {}
    try:
        for l in open(os.path.join(sdir, 'RESULTS.md')):
            if l.startswith('| C'):
                c = [x.strip() for x in l.strip().strip('|').split('|')]
                old[(c[0], c[1])] = tuple(c)
    except OSError:
        pass
    for r in rows:
        old[(r[0], r[1])] = tuple(str(x) for x in r)
    rows_all = [old[k] for k in sorted(old)]
    with open(os.path.join(sdir, 'RESULTS.md'), 'w') as f:
        f.write('# Seeded defects vs. checks (tier %s)\n\n| seeded change | check | verdict | how | s |\n|---|---|---|---|---|\n' % tier)
        for r in rows_all:
            f.write('| %s | %s | %s | %s | %s |\n' % r)
    missed = [r for r in rows if r[2] != 'DETECTED']
    print('%d runs, %d not detected' % (len(rows), len(missed)))
    return 0


if __name__ == '__main__':
    sys.exit(main())
