#!/usr/bin/env python3
"""Confirms a seeded defect delivered by a sub-agent and files it under /verif/seeded/.

    lib/verify_seed.py /work/mut/C17/1 C17-1-squash-last-end

In a scratch worktree of /repo (removed afterwards): the demonstration passes on
the base tree; with the patch `go build ./...` succeeds, the demonstration
fails and the tests of the touched package and its dependants still pass
(except the three baseline failures)."""
import json
import os
import re
import shutil
import subprocess
import sys

ROOT = os.path.dirname(os.path.dirname(os.path.abspath(__file__)))
ENV = dict(os.environ, GOFLAGS='-mod=mod', GOPROXY='off', GOSUMDB='off', GOTOOLCHAIN='local')
KNOWN_FAIL = {'TestEOF', 'TestHasEOF', 'TestRead'}


def sh(cmd, cwd, timeout=1800):
    p = subprocess.run(cmd, cwd=cwd, env=ENV, stdout=subprocess.PIPE, stderr=subprocess.STDOUT, text=True, timeout=timeout, errors='replace')
    return p.returncode, p.stdout


def failed_tests(out):
    return set(re.findall(r'^--- FAIL: (\w+)', out, flags=re.M))


def main():
    src, name = sys.argv[1], sys.argv[2]
    demo = open(os.path.join(src, 'demo_test.go')).read()
    m = re.search(r'(?:PLACE IN|[Pp]lace[^\n]*directory)\s*:?\s*`?([A-Za-z0-9_/]+)', demo)
    if not m:
        print('cannot find placement line')
        return 2
    pkgdir = m.group(1).strip('/')
    wt = '/tmp/vseed_%d' % os.getpid()
    sh(['git', 'worktree', 'add', '-q', '--detach', wt, 'main'], '/repo')
    log = []
    ok = True
    try:
        dst = os.path.join(wt, pkgdir, 'zz_seed_demo_test.go')
        tests = re.findall(r'^func (Test\w+)', demo, flags=re.M)
        runpat = '^(' + '|'.join(tests) + ')$'
        shutil.copy(os.path.join(src, 'demo_test.go'), dst)
        rc, out = sh(['go', 'test', '-count=1', '-run', runpat, './' + pkgdir], wt)
        log.append('base: go test -run %s ./%s -> rc=%d' % (runpat, pkgdir, rc))
        if rc != 0:
            ok = False
            log.append(out[-1500:])
        os.remove(dst)
        rc, out = sh(['git', 'apply', '--whitespace=nowarn', os.path.join(src, 'patch.diff')], wt)
        if rc != 0:
            ok = False
            log.append('patch does not apply: ' + out)
        else:
            rc, out = sh(['go', 'build', './...'], wt)
            log.append('patched: go build ./... -> rc=%d' % rc)
            ok = ok and rc == 0
            shutil.copy(os.path.join(src, 'demo_test.go'), dst)
            rc, out = sh(['go', 'test', '-count=1', '-run', runpat, './' + pkgdir], wt)
            log.append('patched: demo -> rc=%d (%s)' % (rc, ', '.join(sorted(failed_tests(out))) or out[-300:].replace('\n', ' ')))
            if rc == 0:
                ok = False
            os.remove(dst)
            rc, out = sh(['go', 'test', '-vet=off', '-count=1', './...'], wt, timeout=3000)
            ft = failed_tests(out) - KNOWN_FAIL
            log.append('patched: go test ./... -> failing tests beyond the 3 baseline failures: %s' % (sorted(ft) or 'none'))
            if ft or 'panic:' in out and not failed_tests(out):
                ok = False
                log.append(out[-1500:])
    finally:
        sh(['git', 'worktree', 'remove', '--force', wt], '/repo')
    print('\n'.join(log))
    print('VERIFIED' if ok else 'REJECTED')
    if ok:
        d = os.path.join(ROOT, 'seeded', name)
        os.makedirs(d, exist_ok=True)
        shutil.copy(os.path.join(src, 'patch.diff'), d)
        shutil.copy(os.path.join(src, 'demo_test.go'), d)
        meta = json.load(open(os.path.join(src, 'meta.json')))
        meta['demo_package_dir'] = pkgdir
        meta['confirmed_by_lib_verify_seed'] = log
        with open(os.path.join(d, 'meta.json'), 'w') as f:
            json.dump(meta, f, indent=1)
            f.write('\n')
    return 0 if ok else 1


if __name__ == '__main__':
    sys.exit(main())
