"""Shared machinery of the BGZF writer checks C01, C08, C12: case generators,
independent judgement of the harness facts (from the property statements and
RFC 1952 / SAM spec 4.1), Coq case terms for the correspondence run."""
import core
from core import cz, cb, clist

BS = 65280
MAXB = 65536
HEADER = ('From Hts Require Import Base.Prim Generated Model.Bgzf Model.Writer Model.WriterConc Model.WrRun.\n'
          'Open Scope Z_scope.')

SMALL = [0, 1, 2, 3, 7, 100, 1000, 4097]
EDGE = [BS - 1, BS, BS + 1, 2 * BS - 1, 2 * BS, 2 * BS + 1]


def payload_len(rng, big):
    if big and rng.random() < 0.6:
        return rng.choice(EDGE + [BS // 2, BS - 100, 3 * BS + 5]) if rng.random() < 0.8 else rng.randrange(BS, 2 * BS + 2)
    return rng.choice(SMALL) if rng.random() < 0.7 else rng.randrange(0, 3000)


def gen_script(rng, big, nops=None, close=True, after_close=False):
    """List of ops; big scripts reach the block boundary arithmetic."""
    n = nops if nops is not None else rng.randrange(1, 7)
    ops = []
    fill = 0
    for _ in range(n):
        r = rng.random()
        if r < 0.62:
            ln = payload_len(rng, big)
            if big and fill and rng.random() < 0.5:
                # aim at the boundary: exactly fill, one short, one over
                ln = max(0, BS - fill + rng.choice([-1, 0, 1, 2, BS, BS + 1]))
            ops.append(dict(op='w', kind=rng.choice([0, 1, 1, 2]), seed=rng.randrange(1, 1 << 20), len=ln))
            fill = (fill + ln) % BS
        elif r < 0.8:
            ops.append(dict(op='f'))
            fill = 0
        elif r < 0.93:
            ops.append(dict(op='wait'))
        else:
            ops.append(dict(op='f'))
            ops.append(dict(op='wait'))
            fill = 0
    if close:
        ops.append(dict(op='close'))
        if after_close:
            for _ in range(rng.randrange(1, 4)):
                ops.append(rng.choice([dict(op='w', kind=0, seed=1, len=rng.choice([0, 5])), dict(op='f'), dict(op='wait'), dict(op='close')]))
    return ops


def cap_total(ops, cap, rng):
    """Keep the total payload of a script below cap (quick tier: Coq evaluates the model on the same bytes)."""
    tot = 0
    for o in ops:
        if o['op'] != 'w':
            continue
        if tot + o['len'] > cap:
            o['len'] = rng.choice([0, 1, 5, 100]) if tot + 100 <= cap else 0
        tot += o['len']
    return ops


def total_len(ops):
    return sum(o.get('len', 0) for o in ops if o['op'] == 'w')


ADV_MTIME = [0x24342, 0x02434200, 0x024342ff, 0x43420000, 0x4342abcd, 0x00024342 + (1 << 32)]


def gen_hdr(rng, adversarial=True):
    """gzip.Header settings; total user bytes stay below 190 so that a full
    incompressible block still fits in 64 KiB (the property's quantifier)."""
    h = dict(mtime=0, nsec=0, os=255, setos=False, name=[], comment=[], extra=None)
    r = rng.random()
    if adversarial and r < 0.35:
        h['mtime'] = rng.choice(ADV_MTIME)
        if rng.random() < 0.5:
            h['setos'] = True
            h['os'] = rng.choice([0, 3, 0x42, 0x43])
    elif r < 0.6:
        h['mtime'] = rng.choice([1, 255, 256, 1 << 31, (1 << 32) - 1, 1 << 32, (1 << 32) + 5, -1, -100000, rng.randrange(1, 1 << 33)])
    elif r < 0.65:
        h['nsec'] = 5
    if rng.random() < 0.3:
        h['setos'] = True
        h['os'] = rng.choice([0, 3, 7, 66, 255])
    budget = 180
    if rng.random() < 0.35:
        n = rng.randrange(1, 40)
        h['name'] = [rng.choice([66, 67, 2, 1, 255, 0x80, 0xe9, 65]) for _ in range(n)]
        budget -= n + 1
    if rng.random() < 0.3:
        n = rng.randrange(1, 40)
        h['comment'] = [rng.choice([66, 67, 2, 31, 139, 200]) for _ in range(n)]
        budget -= n + 1
    if rng.random() < 0.4:
        # well-formed extra subfields, some carrying the bytes B C 2 0 inside
        ex = []
        for _ in range(rng.randrange(0, 3)):
            sl = rng.randrange(0, 20)
            body = [rng.choice([66, 67, 2, 0, 9]) for _ in range(sl)]
            if len(ex) + 4 + sl > budget - 10:
                break
            si1, si2 = rng.choice([65, 66, 88]), rng.choice([67, 68, 89])
            if (si1, si2, sl) == (66, 67, 2):
                si2 = 68   # a second BC subfield of length 2 would make the file ambiguous: not a legal setting
            ex += [si1, si2, sl & 255, sl >> 8] + body
        # never a second BC subfield with SLEN 2 (would be a different, legal but ambiguous, file)
        h['extra'] = ex
    return h


def hdr_is_default(h):
    return h is None or (h['mtime'] == 0 and h['nsec'] == 0 and not h['setos'] and not h['name'] and not h['comment'] and h['extra'] is None)


# --------------------------------------------------------------- judgement

def expected_results(ops):
    out = []
    closed = False
    for o in ops:
        if o['op'] == 'w':
            out.append([0, 1] if closed else [o['len'], 0])
        elif o['op'] == 'f':
            out.append([0, 1] if closed else [0, 0])
        elif o['op'] == 'wait':
            out.append([0, 0])
        else:
            out.append([0, 0])
            closed = True
    return out


def judge(c, o, pid):
    """Failures of property pid on this observation: list of (sig, what)."""
    f = []
    p = pid.lower()
    if 'hang' in o:
        return [(p + ':hang', 'a writer call did not return')]
    if 'panic' in o:
        return [(p + ':panic', 'panic: ' + str(o['panic'])[:200])]
    if 'crash' in o or 'bad_case' in o or 'newerr' in o:
        return [(p + ':harness', str(o)[:300])]
    if c.get('mode') == 'laws':
        for b in o.get('bad') or []:
            f.append((p + ':law:' + b.split(':')[0].replace(' ', '-'), 'a DEFLATE/CRC law assumed by the theorems fails on compress/flate: ' + b))
        return f
    if c.get('mode') == 'probe':
        return f
    if c.get('mode') == 'haseof':
        if pid != 'C08':
            return f
        own = o['own']
        if own != o['closed_ok']:
            f.append(('c08:eof', 'stream ends with the EOF marker: %s, writer closed without error: %s' % (own, o['closed_ok'])))
        for ob in o.get('obs') or []:
            where = 'HasEOF on a %s reader (cursor at %d of %d bytes)' % (ob['kind'], ob['pos'], o['out_len'])
            if ob['kind'] == 'none':
                if ob['err'] != 3 or ob['has']:
                    f.append(('c08:haseof:none', where + ' returned (%s, class %d), expected ErrNoEnd' % (ob['has'], ob['err'])))
            elif o['out_len'] >= 28:
                if ob['err'] != 0 or ob['has'] != own:
                    f.append(('c08:haseof:%s' % ob['kind'], where + ' returned (%s, %s); the last 28 bytes %s the marker' % (
                        ob['has'], ob.get('msg', 'nil'), 'are' if own else 'are not')))
            elif ob['has']:
                f.append(('c08:haseof:%s' % ob['kind'], where + ' reports a marker in a stream shorter than the marker'))
            if ob['kind'] == 'lenseeker' and ob.get('pos_after') != ob['pos']:
                f.append(('c08:haseof:cursor-moved', where + ' left the cursor at %s' % ob.get('pos_after')))
        return f
    if c.get('mode') == 'bam':
        if pid == 'C12':
            if o.get('parse_err'):
                f.append(('c12:bam:partial-block', 'bytes on disk when bam.NewWriter returned are not whole blocks: ' + o['parse_err']))
            elif not o.get('hdr_ok'):
                f.append(('c12:bam:header-not-durable', 'bam.NewWriter returned before the header was written: ' + o.get('why', '')))
            if not o.get('prefix_ok'):
                f.append(('c12:bam:not-append-only', 'final stream does not extend the snapshot'))
        return f
    exp = expected_results(c['ops'])
    members = o.get('members') or []
    if pid == 'C01':
        if o['res'] != exp:
            f.append(('c01:results', 'call results %s, expected %s' % (o['res'], exp)))
        if not o['rb_ok']:
            f.append(('c01:readback', 'reading the stream back with bgzf.Reader(rd=%d): %s' % (c['rd'], o['rb_msg'])))
        if not (o['data_ok'] if any(x['op'] == 'close' for x in c['ops']) else o['data_prefix']):
            f.append(('c01:data', 'independent decode differs from the written data at %s (%s)' % (o['data_diff'], o['parse_err'])))
        if any(m['plen'] > BS for m in members):
            f.append(('c01:block-too-large', 'a block carries more than BlockSize bytes'))
    if pid == 'C08':
        if o['parse_err']:
            f.append(('c08:parse', 'output is not a sequence of gzip members: ' + o['parse_err']))
        for i, m in enumerate(members):
            where = 'member %d (offset %d, %d bytes)' % (i, m['off'], m['len'])
            if not m['flg'] & 4:
                f.append(('c08:no-fextra', where + ' has no extra field'))
            elif not m['extraok']:
                f.append(('c08:extra-malformed', where + ': extra field is not a sequence of subfields'))
            elif m['nbc'] != 1:
                f.append(('c08:bc-count', where + ' has %d BC subfields' % m['nbc']))
            elif m['bsize'] != m['len'] - 1:
                f.append(('c08:bsize', where + ': BSIZE is %d, member length minus one is %d' % (m['bsize'], m['len'] - 1)))
            if m['len'] > MAXB:
                f.append(('c08:member-too-long', where))
            if m['plen'] > BS:
                f.append(('c08:payload-too-long', where + ' carries %d bytes' % m['plen']))
            if not m['crcok'] or m['isize'] != m['plen']:
                f.append(('c08:trailer', where + ': CRC32/ISIZE wrong'))
        closed = o['closed_ok']
        if 'expect_overflow' in c:
            # boundary family: one block whose member length is aimed at 64 KiB
            refused = any(r[1] not in (0, 1) for r in o['res'])
            if c['expect_overflow'] and not refused:
                f.append(('c08:overflow:accepted', 'a member of %d bytes (> 65536) was not refused: results %s' % (c['aim'], o['res'])))
            if not c['expect_overflow'] and refused:
                f.append(('c08:overflow:spurious', 'a member of %d bytes (<= 65536) was refused: results %s' % (c['aim'], o['res'])))
            if not c['expect_overflow'] and not refused and not o['rb_ok']:
                f.append(('c08:readback', 'a member of %d bytes is not read back by bgzf.Reader: %s' % (c['aim'], o['rb_msg'])))
            if not c['expect_overflow'] and members and members[0]['len'] != c['aim']:
                f.append(('c08:aim', 'generator aimed at a member of %d bytes, got %d (probe and writer disagree)' % (c['aim'], members[0]['len'])))
        # an unclosed (or failed) writer still holds data: the stream then carries a prefix of it
        if not (o['gunzip_ok'] if closed else o['gunzip_same']):
            f.append(('c08:gunzip', 'compress/gzip multistream does not expand the output to the written data: %s' % o.get('gunzip_err', 'data differ')))
        if not (o['data_ok'] if closed else o['data_prefix']) and not o['parse_err']:
            f.append(('c08:data', 'members decode to other data than written (first difference at %s)' % o['data_diff']))
        if o['has_eof_own'] != o['closed_ok']:
            f.append(('c08:eof', 'stream ends with the EOF marker: %s, writer closed without error: %s' % (o['has_eof_own'], o['closed_ok'])))
        if o['has_eof_lib'] != o['has_eof_own'] and o['out_len'] >= 28:
            f.append(('c08:haseof', 'HasEOF reports %s, the last 28 bytes say %s' % (o['has_eof_lib'], o['has_eof_own'])))
        if c.get('allwc') and not o.get('wc_same'):
            f.append(('c08:wc-dependent', 'output bytes depend on the writer concurrency: %s' % o.get('wc_diff')))
    if pid == 'C12':
        cum = o['cum']
        if o['parse_err']:
            f.append(('c12:partial-block', 'final stream is not whole blocks: ' + o['parse_err']))
        if any(k < 0 for k in o['api_k']):
            f.append(('c12:partial-block:api', 'after an API call the underlying writer holds a partial block (member counts %s)' % o['api_k']))
        if any(k < 0 for k in o['w_k']):
            f.append(('c12:partial-block:write', 'after an underlying Write the stream is not at a block boundary (member counts %s)' % o['w_k']))
        elif o['w_k'] != list(range(1, len(o['w_k']) + 1)):
            f.append(('c12:write-granularity', 'underlying Writes do not each deliver one block: %s' % o['w_k']))
        else:
            for k, st in zip(o['w_k'], o['w_started']):
                if cum[k] > st:
                    f.append(('c12:future-data', 'stream holds %d bytes of data when only %d had been handed to Write' % (cum[k], st)))
                    break
        if not o['data_prefix']:
            f.append(('c12:order', 'blocks do not decode to the written data in write order (first difference at %s)' % o['data_diff']))
        flushed = None
        for j, (op, r) in enumerate(zip(c['ops'], o['res'])):
            k = o['api_k'][j]
            if k < 0:
                continue
            if cum[k] > o['accepted'][j]:
                f.append(('c12:future-data', 'after call %d the stream holds more data than was written' % j))
            if op['op'] == 'f' and r[1] == 0:
                flushed = o['accepted'][j]
            if op['op'] == 'wait' and r[1] == 0 and flushed is not None and cum[k] < flushed:
                f.append(('c12:flush-wait-not-durable', 'Flush;Wait returned nil after call %d but only %d of the %d bytes written before the Flush are in the stream' % (j, cum[k], flushed)))
            if op['op'] == 'close' and r[1] == 0:
                if cum[k] != o['accepted'][j] or not o['has_eof_own']:
                    f.append(('c12:close-not-durable', 'Close returned nil with %d of %d bytes in the stream (EOF marker: %s)' % (cum[k], o['accepted'][j], o['has_eof_own'])))
    return f


# ------------------------------------------------------------ Coq term

def coq_op(o):
    if o['op'] == 'w':
        return '(GW %d %d %d)' % (o['kind'], o['seed'], o['len'])
    return {'f': 'GF', 'wait': 'GWait', 'close': 'GClose'}[o['op']]


def coq_hdr(h):
    if h is None:
        return 'default_hdr'
    mt = h['mtime']
    # ModTime.After(epoch): seconds > 0, or seconds == 0 with nanoseconds; the field is uint32(seconds)
    return '{| h_mtime := %s; h_os := %d; h_extra := %s; h_name := %s; h_comment := %s |}' % (
        cz(mt), h['os'] if h['setos'] else 255, clist(h['extra'] or []), clist(h['name']), clist(h['comment']))


def pool(wc):
    return max(wc + 1, 2)


def coq_term(c, o, rng):
    members = list(o.get('members') or [])
    eof = False
    if o['closed_ok'] and members and members[-1]['magic']:
        members = members[:-1]
        eof = True
    n = pool(c['wc'])
    sched = [rng.randrange(0, n + 2) for _ in range(rng.randrange(0, 80))]
    nblocks = len(members) + 2
    rounds = 6 * len(c['ops']) + 6 * nblocks + 20
    ms = ['(%s, %d, %d, %d, %d)' % (clist(m['hdr']), m['clen'], m['plen'], m['ada'], m['adb']) for m in members]
    cum = o['cum']
    api_cum = [cum[k] if k >= 0 else -1 for k in o['api_k']]
    failed = any(r[1] not in (0, 1) for r in o['res']) or bool(c.get('failw'))
    res = []
    for op, r in zip(c['ops'], o['res']):
        n, cls = r[0], r[1]
        if failed and op['op'] in ('w', 'f'):
            n, cls = -1, -1   # whether this call already saw the failure depends on timing
        res.append('(%s, %s)' % (cz(n), cz(cls)))
    probe = ['(%d, %d, %d, %d)' % (q['len'], q['ada'], q['adb'], q['clen']) for q in c.get('probe') or []]
    return 'WrCase [%s] %s %d %s %s%%nat %d%%nat [%s] [%s] %s %s %s [%s] %s' % (
        '; '.join(coq_op(x) for x in c['ops']), cz(c['level']), c['wc'], coq_hdr(c.get('hdr')),
        clist(sched), rounds, '; '.join(res), '; '.join(ms), cb(eof), clist(api_cum), clist(o['w_k']), '; '.join(probe), clist(c.get('failw') or []))


def bam_term(c, o, rng):
    """bam.NewWriterLevel = Write(header bytes); Flush; Wait on a bgzf.Writer over the delaying sink: the snapshot
    taken when it returned is compared with the model run on that script (results nil, all members, durable)."""
    members = o['members']
    data = o['data']
    n = pool(c['wc'])
    sched = [rng.randrange(0, n + 2) for _ in range(rng.randrange(0, 60))]
    ms = ['(%s, %d, %d, %d, %d)' % (clist(m['hdr']), m['clen'], m['plen'], m['ada'], m['adb']) for m in members]
    return 'WrCase [GWlit %s; GF; GWait] %s %d default_hdr %s%%nat %d%%nat [(%d, 0); (0, 0); (0, 0)] [%s] false [-2; -2; %d] %s [] []' % (
        clist(data), cz(c['level']), c['wc'], clist(sched), 40 + 6 * len(members), len(data), '; '.join(ms), len(data),
        clist(range(1, len(members) + 1)))


def he_terms(c, o):
    kinds = {'sizer': 0, 'stater': 1, 'lenseeker': 2, 'none': 3}
    return ['HeCase %s %d %d %s %d' % (clist(o['out']), ob['pos'], kinds[ob['kind']], cb(ob['has']), ob['err'])
            for ob in o.get('obs') or []]


def strip(o):
    d = {k: v for k, v in o.items() if k not in ('stack', 'out', 'data')}
    if 'members' in d and d['members']:
        d['members'] = [{k: v for k, v in m.items() if k != 'hdr'} for m in d['members'][:6]]
    return d


def case_key(c):
    if c.get('mode') in ('laws', 'bam', 'probe'):
        return (c['mode'], str(c.get('refs')), c.get('wc'), c.get('delay'), len(c.get('ops') or []))
    return (c.get('mode'), tuple((o['op'], o.get('kind'), o.get('len'), o.get('seed')) for o in c['ops']), c['level'], c['wc'], c.get('rd'),
            str(c.get('hdr')), tuple(c.get('reads') or []), c.get('delay'), tuple(c.get('failw') or []))


def run_property(res, rng, pid, cases, nontrivial, bucket, trusted, assume, rule):
    import glob, json, os, time
    corpus = []
    for path in sorted(glob.glob(os.path.join(core.ROOT, 'corpus', pid, '*.json'))):
        try:
            cc = json.load(open(path)).get('case')
        except (OSError, ValueError):
            cc = None
        if cc:
            corpus.append(cc)
    cases[:0] = corpus
    t0 = time.time()
    obs = core.run_harness(pid.lower(), cases, jobs=8, case_timeout='30s')
    res.extra['harness_s'] = round(time.time() - t0, 1)
    terms = []
    for o in obs:
        for k in ('members', 'w_k', 'w_started', 'api_k', 'accepted', 'cum', 'res', 'bad'):
            if k in o and o[k] is None:
                o[k] = []
    for c, o in zip(cases, obs):
        res.evaluations += 1
        if nontrivial(c, o):
            res.nontrivial.add(case_key(c))
        res.count(bucket(c, o))
        for sig, what in judge(c, o, pid):
            res.failures.append(dict(sig=sig, what=what, case=c, observed=strip(o)))
        if c.get('mode') == 'bam' and o.get('data') is not None and o.get('members') and o.get('hdr_ok'):
            terms.append((c, o, bam_term(c, o, rng)))
            continue
        if c.get('mode') in ('laws', 'bam', 'probe'):
            continue
        if any(k in o for k in ('hang', 'panic', 'crash', 'bad_case', 'newerr', 'garbled')):
            res.corr_bad.append(dict(case=c, obs=strip(o)))
            continue
        if c.get('mode') == 'haseof':
            for t in he_terms(c, o):
                terms.append((c, o, t))
            continue
        if o['parse_err']:
            res.corr_bad.append(dict(case=c, obs=strip(o), note='output unparsable, model not compared'))
            continue
        terms.append((c, o, coq_term(c, o, rng)))
    # big cases cost most: spread them over the shards
    terms.sort(key=lambda t: -total_len(t[0]['ops']) if t[0].get('mode', 'rt') == 'rt' else 0)
    nsh = 10
    order = []
    for i in range(nsh):
        order.extend(terms[i::nsh])
    shard = max(1, (len(order) + nsh - 1) // nsh)
    t0 = time.time()
    bad, err = core.coq_mismatches(HEADER, 'wrcase', 'wr_agree', [t[2] for t in order], pid.lower(), shard=shard)
    res.extra['coq_cases_s'] = round(time.time() - t0, 1)
    if err:
        res.corr_bad.append(dict(error=err[-1500:]))
    for i in bad:
        c, o, t = order[i]
        res.corr_bad.append(dict(case=c, obs=strip(o), coq_case=t[:600],
                                 note='sequential machine / concurrent model disagree with the implementation (results, member framing, header bytes, BSIZE patch, EOF, durability marks)'))
    res.extra['traces_validated_against_impl'] = len(order) - len(bad)
    res.rule = rule
    sample = [(c, o) for c, o in zip(cases, obs) if c.get('mode') not in ('laws', 'probe')]
    res.samples = [dict(case=c, observed=strip(o)) for c, o in sample[:2] + sample[-2:]]
    res.trusted = trusted
    res.assumptions = assume
    return obs


def replay_case(pid, rp):
    c = rp.get('case')
    if not c:
        import json
        print(json.dumps(rp, indent=1)[:3000])
        return 0
    if c.get('mode') == 'haseof':
        c = dict(c, tmpdir=core.WORK)
    o = core.run_harness(pid.lower(), [c], case_timeout='30s')[0]
    for k in ('members', 'w_k', 'w_started', 'api_k', 'accepted', 'cum', 'res', 'bad'):
        if k in o and o[k] is None:
            o[k] = []
    fs = judge(c, o, pid)
    print('case     :', c)
    print('observed :', strip(o))
    print('oracle   :', fs)
    return 1 if fs else 0


TRUSTED_COMMON = [
    'Coq 8.16.1 kernel (coqc); vm_compute for case evaluation only; no native_compute',
    'translator /verif/gen: constants BlockSize, MaxBlockSize, bgzfExtra, magicBlock, compressBound; channel skeleton of bgzf/writer.go and the shape of the BSIZE back-patch (gen/emit_wr.go)',
    'hand-written models coq/Model/Bgzf.v, Writer.v, WriterConc.v follow bgzf/writer.go and compress/gzip header writing; validated on every run by evaluating them on the cases the implementation ran (results, blocks, header bytes, BSIZE, EOF, durability marks)',
    'Go runtime semantics of channels, WaitGroup and goroutines as modelled in WriterConc.v (buffered FIFO channels, blocked operations as disabled steps, any interleaving of the listed atomic steps)',
    'independent framing parser and judgement in harness/c01.go and lib/wrlib.py (test-level tools)',
]
ASSUME_COMMON = [
    'Section hypotheses (premises of the theorems): inflate (deflate l d ++ rest) = Some (d, rest); '
    'len (deflate l d) <= len d + len d/2^12 + len d/2^14 + len d/2^25 + 13; 2 <= len (deflate l d); deflate l [] does not end in 03 00; '
    'inflate (03 00 ++ rest) = Some ([], rest); crc32 [] = 0 — validated on every run against compress/flate at levels -1..9 (mode "laws")',
    'the underlying io.Writer obeys the io.Writer contract and does not fail (faults belong to C09)',
    'gzip.Header is not modified while blocks are in flight',
]
